//! C17 — `compio_driver::AsyncifyPool` on its own (no driver, no runtime):
//! direct `dispatch` callers, 1–4 threads sharing one (cloned) pool — the
//! dispatcher's `force_reuse_thread_pool` situation.
//!
//! Events at the job boundary: every job has an id; on entry
//! `running.fetch_add(1)` (recording the maximum and the worker's thread id),
//! on exit `fetch_sub`; a per-job run counter; a per-job "dropped without
//! running" counter (the job's own `Drop`).
//!
//! Oracle:
//! * every accepted job (`dispatch` returned `Ok`) ran exactly once;
//! * every `Err(DispatchError(f))` hands back the SAME dispatchable (for the
//!   struct flavour: id, nonce, heap canary and context pointer are compared;
//!   for the closure flavour: the closure is dropped or re-dispatched and the
//!   captured job's accounting must come out as exactly one of {ran once,
//!   dropped unrun once}) and it has not run;
//! * gauge: jobs running at once <= `thread_limit` (the property statement);
//! * distinct worker threads alive at once <= `thread_limit` (the documented
//!   meaning of the constructor argument) — decided only in scenarios whose
//!   idle timeout is an hour (no worker can retire, so every distinct worker
//!   thread id ever seen is alive at the end; workers killed by a panicking job
//!   are discounted). Reported under its own signature;
//! * after the idle timeout has passed (workers may retire) a later job still
//!   runs; a burst right at the timeout edge loses nothing.
//!
//! Hangs: "an accepted job never ran" shows up as the completion wait not
//! finishing: Miri reports the deadlock; natively a generous watchdog turns it
//! into `inconclusive` (never a verdict from the clock).

use std::{
    collections::HashSet,
    sync::{
        Arc, Condvar, Mutex, OnceLock,
        atomic::{AtomicBool, AtomicI64, AtomicU8, AtomicU64, AtomicUsize, Ordering},
    },
    thread::{self, ThreadId},
    time::{Duration, Instant},
};

use compio_driver::{AsyncifyPool, DispatchError, Dispatchable};
use vcommon::{Args, Report, Rng, json, panics};

// ---------------------------------------------------------------------------
// job accounting
// ---------------------------------------------------------------------------

struct Ctx {
    running: AtomicUsize,
    max_running: AtomicUsize,
    ran: Vec<AtomicU8>,
    dropped_unrun: Vec<AtomicU8>,
    next_id: AtomicUsize,
    completed: AtomicUsize,
    panicked: AtomicUsize,
    tids: Mutex<HashSet<ThreadId>>,
    done_m: Mutex<()>,
    done_cv: Condvar,
    gate: Mutex<bool>,
    gate_cv: Condvar,
}

impl Ctx {
    fn new(cap: usize) -> Arc<Self> {
        Arc::new(Self {
            running: AtomicUsize::new(0),
            max_running: AtomicUsize::new(0),
            ran: (0..cap).map(|_| AtomicU8::new(0)).collect(),
            dropped_unrun: (0..cap).map(|_| AtomicU8::new(0)).collect(),
            next_id: AtomicUsize::new(0),
            completed: AtomicUsize::new(0),
            panicked: AtomicUsize::new(0),
            tids: Mutex::new(HashSet::new()),
            done_m: Mutex::new(()),
            done_cv: Condvar::new(),
            gate: Mutex::new(true),
            gate_cv: Condvar::new(),
        })
    }

    fn set_gate(&self, open: bool) {
        *self.gate.lock().unwrap() = open;
        self.gate_cv.notify_all();
    }

    fn pass_gate(&self) {
        let mut g = self.gate.lock().unwrap();
        while !*g {
            g = self.gate_cv.wait(g).unwrap();
        }
    }
}

#[derive(Clone, Copy, Debug, PartialEq, Eq)]
enum Body {
    Imm,
    Spin(u32),
    Sleep(u32), // microseconds
    Gated,
    Panic,
}

/// The payload. Used directly (`impl Dispatchable`) or captured by a closure.
struct Job {
    id: usize,
    nonce: u64,
    ctx: Arc<Ctx>,
    body: Body,
    canary: Box<u64>,
    ran: bool,
}

const CANARY_XOR: u64 = 0x5EED_C17A_11CE_0000;

impl Job {
    fn new(ctx: &Arc<Ctx>, body: Body, nonce: u64) -> Option<Self> {
        let id = ctx.next_id.fetch_add(1, Ordering::SeqCst);
        (id < ctx.ran.len()).then(|| Self {
            id,
            nonce,
            ctx: ctx.clone(),
            body,
            canary: Box::new(nonce ^ CANARY_XOR),
            ran: false,
        })
    }

    fn intact(&self) -> bool {
        *self.canary == self.nonce ^ CANARY_XOR
    }

    fn execute(mut self) {
        struct Exit<'a>(&'a Ctx);
        impl Drop for Exit<'_> {
            fn drop(&mut self) {
                self.0.running.fetch_sub(1, Ordering::SeqCst);
                self.0.completed.fetch_add(1, Ordering::SeqCst);
                let _g = self.0.done_m.lock().unwrap();
                self.0.done_cv.notify_all();
            }
        }
        self.ran = true;
        let ctx = self.ctx.clone();
        let r = ctx.running.fetch_add(1, Ordering::SeqCst) + 1;
        ctx.max_running.fetch_max(r, Ordering::SeqCst);
        ctx.ran[self.id].fetch_add(1, Ordering::SeqCst);
        ctx.tids.lock().unwrap().insert(thread::current().id());
        let _exit = Exit(&ctx);
        if !self.intact() {
            // recorded as a double run so that the scenario check trips
            ctx.ran[self.id].fetch_add(100, Ordering::SeqCst);
        }
        match self.body {
            Body::Imm => {}
            Body::Spin(n) => {
                for _ in 0..n {
                    std::hint::spin_loop();
                }
            }
            Body::Sleep(us) => thread::sleep(Duration::from_micros(us as u64)),
            Body::Gated => ctx.pass_gate(),
            Body::Panic => {
                ctx.panicked.fetch_add(1, Ordering::SeqCst);
                // no panic hook, no message: the worker thread dies quietly
                std::panic::resume_unwind(Box::new("c17m: job panics on purpose"));
            }
        }
    }
}

impl Drop for Job {
    fn drop(&mut self) {
        if !self.ran {
            self.ctx.dropped_unrun[self.id].fetch_add(1, Ordering::SeqCst);
        }
    }
}

impl Dispatchable for Job {
    fn run(self: Box<Self>) {
        (*self).execute()
    }
}

// ---------------------------------------------------------------------------
// scenario
// ---------------------------------------------------------------------------

#[derive(Clone, Debug)]
enum Phase {
    /// Gate closed: callers dispatch gated jobs until each is refused (or a cap
    /// is hit); then exactly the accepted jobs are inside at once.
    Gated,
    /// Each caller dispatches `n` jobs drawn from `mix`; a refused job is
    /// retried after a yield (like the drivers' `push_blocking`) with
    /// probability `retry`/4, else abandoned (dropped by the caller).
    Churn { n: usize, mix: u8, retry: u8 },
}

#[derive(Clone, Debug)]
struct Step {
    /// idle time before the phase, in units of a quarter of the pool timeout
    /// (0 = none, 4 = exactly the timeout = edge, 12 = workers surely retired)
    idle_q: u8,
    phase: Phase,
}

#[derive(Clone, Debug)]
struct Scenario {
    limit: usize,
    sharers: usize,
    /// pool idle timeout in microseconds; `None` = one hour (no retirement)
    timeout_us: Option<u64>,
    closures: bool,
    steps: Vec<Step>,
    seed: u64,
}

impl Scenario {
    fn gen_random(rng: &mut Rng, small: bool, max_limit: usize, max_sharers: usize) -> Self {
        let limit = if rng.chance(1, 3) { rng.range(1, 2.min(max_limit)) } else { rng.range(1, max_limit) };
        let sharers = if rng.chance(1, 3) { 1 } else { rng.range(1, max_sharers) };
        let timeout_us = if rng.chance(1, 2) {
            None
        } else if small {
            Some(*rng.pick(&[20_000u64, 50_000]))
        } else {
            Some(*rng.pick(&[5_000u64, 10_000, 20_000]))
        };
        let nsteps = if small { rng.range(1, 3) } else { rng.range(2, 5) };
        let steps = (0..nsteps)
            .map(|i| {
                let idle_q = if timeout_us.is_none() || i == 0 {
                    0
                } else {
                    *rng.pick(&[0u8, 0, 3, 4, 5, 12])
                };
                // Under Miri a hand-off stranded behind gated jobs would end the
                // whole process as a deadlock that is the harness' own making
                // (natively the monitor opens the gate): gate only when workers
                // cannot time out.
                let phase = if rng.chance(1, 3) && !(cfg!(miri) && timeout_us.is_some()) {
                    Phase::Gated
                } else {
                    Phase::Churn {
                        n: if small { rng.range(2, 6) } else { rng.range(20, 400) },
                        // bit0 imm, bit1 spin, bit2 sleep, bit3 panic
                        mix: (rng.range(1, 7) as u8) | if rng.chance(1, 8) { 8 } else { 0 },
                        retry: rng.below(5) as u8,
                    }
                };
                Step { idle_q, phase }
            })
            .collect();
        Self {
            limit,
            sharers,
            timeout_us,
            closures: rng.chance(1, 2),
            steps,
            seed: rng.next_u64(),
        }
    }

    fn to_json(&self) -> vcommon::Value {
        json!({
            "limit": self.limit, "sharers": self.sharers, "timeout_us": self.timeout_us, "closures": self.closures,
            "seed": self.seed.to_string(),
            "steps": self.steps.iter().map(|s| match &s.phase {
                Phase::Gated => json!({"idle_q": s.idle_q, "phase": "gated"}),
                Phase::Churn { n, mix, retry } => json!({"idle_q": s.idle_q, "phase": "churn", "n": n, "mix": mix, "retry": retry}),
            }).collect::<Vec<_>>(),
        })
    }

    fn from_json(v: &vcommon::Value) -> Option<Self> {
        Some(Self {
            limit: v["limit"].as_u64()? as usize,
            sharers: v["sharers"].as_u64()? as usize,
            timeout_us: v["timeout_us"].as_u64(),
            closures: v["closures"].as_bool()?,
            seed: v["seed"].as_str()?.parse().ok()?,
            steps: v["steps"]
                .as_array()?
                .iter()
                .map(|s| {
                    Some(Step {
                        idle_q: s["idle_q"].as_u64()? as u8,
                        phase: if s["phase"] == "gated" {
                            Phase::Gated
                        } else {
                            Phase::Churn {
                                n: s["n"].as_u64()? as usize,
                                mix: s["mix"].as_u64()? as u8,
                                retry: s["retry"].as_u64()? as u8,
                            }
                        },
                    })
                })
                .collect::<Option<Vec<_>>>()?,
        })
    }
}

// ---------------------------------------------------------------------------
// deadlock monitor (native): "a caller is parked inside `dispatch` and no
// worker exists" is decided from the process' thread list, not from a clock
// ---------------------------------------------------------------------------

#[derive(Default)]
struct CallerState {
    tid: AtomicI64,
    /// odd while the caller is inside `AsyncifyPool::dispatch`
    seq: AtomicU64,
    alive: AtomicBool,
}

impl CallerState {
    fn enter(&self) {
        self.seq.fetch_add(1, Ordering::SeqCst);
    }

    fn leave(&self) {
        self.seq.fetch_add(1, Ordering::SeqCst);
    }
}

#[derive(Default)]
struct Mon {
    callers: Vec<Arc<CallerState>>,
    stop: Mutex<bool>,
    cv: Condvar,
    rescued: AtomicUsize,
    forced_gate: AtomicUsize,
    /// tids of rescue helper threads (harness threads, not pool workers)
    helpers: Mutex<Vec<i64>>,
}

#[cfg(not(miri))]
fn gettid() -> i64 {
    unsafe { libc::syscall(libc::SYS_gettid) as i64 }
}

#[cfg(miri)]
fn gettid() -> i64 {
    0
}

/// Threads that existed before the first pool was created (main, and e.g.
/// the sanitizer runtime's background thread): never pool workers.
static BASE_TASKS: OnceLock<Vec<i64>> = OnceLock::new();

#[cfg(not(miri))]
fn list_tasks() -> Vec<i64> {
    std::fs::read_dir("/proc/self/task")
        .map(|d| d.filter_map(|e| e.ok()?.file_name().to_str()?.parse::<i64>().ok()).collect())
        .unwrap_or_default()
}

#[cfg(miri)]
fn list_tasks() -> Vec<i64> {
    Vec::new()
}

#[cfg(not(miri))]
fn monitor(mon: Arc<Mon>, pool: AsyncifyPool, ctx: Arc<Ctx>) {
    let me = gettid();
    let main_tid = std::process::id() as i64;
    let state_of = |tid: i64| -> Option<char> {
        let s = std::fs::read_to_string(format!("/proc/self/task/{tid}/stat")).ok()?;
        s[s.rfind(')')? + 1..].trim_start().chars().next()
    };
    let debug = std::env::var_os("C17M_DEBUG").is_some();
    let mut prev: Vec<(i64, u64)> = Vec::new();
    let mut strikes = 0;
    let mut counted: HashSet<(i64, u64)> = HashSet::new();
    let mut helpers: Vec<thread::JoinHandle<()>> = Vec::new();
    loop {
        {
            let g = mon.stop.lock().unwrap();
            let (g, _) = mon.cv.wait_timeout_while(g, Duration::from_millis(6), |s| !*s).unwrap();
            if *g {
                drop(g);
                // every caller has returned, so every stranded hand-off was
                // taken and the helpers' own dispatches complete as well
                for h in helpers {
                    let _ = h.join();
                }
                return;
            }
        }
        let live: Vec<(i64, u64)> = mon
            .callers
            .iter()
            .filter(|c| c.alive.load(Ordering::SeqCst))
            .map(|c| (c.tid.load(Ordering::SeqCst), c.seq.load(Ordering::SeqCst)))
            .collect();
        let blocked = !live.is_empty() && live.iter().all(|(_, s)| s % 2 == 1) && live == prev;
        prev = live.clone();
        if !blocked {
            strikes = 0;
            continue;
        }
        // Every live caller sits in the same dispatch call as one sampling period ago. Are
        // they really asleep (parked in the rendezvous send), and is there any
        // pool worker at all?
        let base = BASE_TASKS.get().map(|v| v.as_slice()).unwrap_or(&[]);
        let helper_tids = mon.helpers.lock().unwrap().clone();
        let workers = list_tasks()
            .into_iter()
            .filter(|t| *t != me && *t != main_tid && !base.contains(t) && !helper_tids.contains(t) && !live.iter().any(|(c, _)| c == t))
            .count();
        let asleep = live.iter().all(|(t, _)| state_of(*t) == Some('S'));
        if debug {
            eprintln!(
                "[c17m monitor] live={live:?} workers={workers} asleep={asleep} strikes={strikes} running={} gate_open={} helpers={helper_tids:?}",
                ctx.running.load(Ordering::SeqCst),
                *ctx.gate.lock().unwrap()
            );
        }
        if !asleep {
            strikes = 0;
            continue;
        }
        strikes += 1;
        if strikes < 3 {
            continue;
        }
        let gate_closed = !*ctx.gate.lock().unwrap();
        let running = ctx.running.load(Ordering::SeqCst);
        if gate_closed && workers > running {
            // a worker thread exists that is not inside a job yet (still
            // starting, or idle): it will take the hand-off / let the
            // spawning caller go — not stuck
            continue;
        }
        if gate_closed {
            // The callers wait for a worker, the workers wait for the
            // harness' gate, the gate waits for the callers: the harness' own
            // making on top of a hand-off that found no idle worker. Open the
            // gate (recorded, not a verdict).
            mon.forced_gate.fetch_add(1, Ordering::SeqCst);
            ctx.set_gate(true);
            strikes = 0;
        } else if workers == 0 && running == 0 && strikes >= 8 {
            // Nothing can change this state any more: the only threads are
            // sleeping callers (and main waiting for them). Record and rescue:
            // one more dispatch spawns a worker, which then also takes the
            // stranded hand-off.
            // The rescue runs on a helper thread: it can strand in exactly
            // the same way (then the next round sends another helper; one
            // worker that stays alive long enough drains them all).
            if live.iter().any(|p| !counted.contains(p)) {
                counted.extend(live.iter().copied());
                mon.rescued.fetch_add(1, Ordering::SeqCst);
            }
            let (pool, mon2) = (pool.clone(), mon.clone());
            helpers.push(thread::spawn(move || {
                let me = gettid();
                mon2.helpers.lock().unwrap().push(me);
                let r = pool.dispatch(|| {});
                if debug {
                    eprintln!("[c17m monitor] rescue dispatch accepted={}", r.is_ok());
                }
                mon2.helpers.lock().unwrap().retain(|t| *t != me);
            }));
            strikes = 0;
        }
        // else: jobs are running; the hand-off completes when one finishes
    }
}

/// What one caller thread found.
#[derive(Default)]
struct CallerLog {
    accepted: Vec<usize>,
    abandoned: Vec<usize>,
    refusals: usize,
    retries: usize,
    findings: Vec<(&'static str, String)>,
}

enum Refused {
    Struct(Job),
    Closure(Box<dyn FnOnce() + Send + 'static>),
}

/// One dispatch attempt. `Ok(())` accepted; `Err(back)` refused.
fn dispatch_once(pool: &AsyncifyPool, st: &CallerState, job: Job, closures: bool, id: usize, nonce: u64, ctx: &Arc<Ctx>, log: &mut CallerLog) -> Result<(), Refused> {
    st.enter();
    let r = dispatch_inner(pool, job, closures, id, nonce, ctx, log);
    st.leave();
    r
}

fn dispatch_inner(pool: &AsyncifyPool, job: Job, closures: bool, id: usize, nonce: u64, ctx: &Arc<Ctx>, log: &mut CallerLog) -> Result<(), Refused> {
    if closures {
        // a concrete closure type (what `spawn_blocking` / the drivers pass)
        pool.dispatch(move || job.execute()).map_err(|DispatchError(f)| Refused::Closure(Box::new(f)))
    } else {
        match pool.dispatch(job) {
            Ok(()) => Ok(()),
            Err(DispatchError(back)) => {
                if back.id != id || back.nonce != nonce || !back.intact() || !Arc::ptr_eq(&back.ctx, ctx) || back.ran {
                    log.findings.push((
                        "handed-back-different-dispatchable",
                        format!("dispatch refused job {id} but returned an object with id {} / damaged contents", back.id),
                    ));
                }
                Err(Refused::Struct(back))
            }
        }
    }
}

fn redispatch(pool: &AsyncifyPool, st: &CallerState, r: Refused) -> Result<(), Refused> {
    st.enter();
    let r = match r {
        Refused::Struct(j) => pool.dispatch(j).map_err(|e| Refused::Struct(e.0)),
        Refused::Closure(f) => pool.dispatch(f).map_err(|e| Refused::Closure(e.0)),
    };
    st.leave();
    r
}

fn pick_body(rng: &mut Rng, mix: u8) -> Body {
    loop {
        match rng.below(4) {
            0 if mix & 1 != 0 => return Body::Imm,
            1 if mix & 2 != 0 => return Body::Spin(rng.range(10, if cfg!(miri) { 60 } else { 3000 }) as u32),
            2 if mix & 4 != 0 => return Body::Sleep(rng.range(10, if cfg!(miri) { 100 } else { 400 }) as u32),
            3 if mix & 8 != 0 && rng.chance(1, 6) => return Body::Panic,
            _ if mix & 7 == 0 => return Body::Imm,
            _ => {}
        }
    }
}

fn caller(pool: AsyncifyPool, ctx: Arc<Ctx>, st: Arc<CallerState>, sc: &Scenario, phase: &Phase, mut rng: Rng, deadline: Instant) -> CallerLog {
    let mut log = CallerLog::default();
    st.tid.store(gettid(), Ordering::SeqCst);
    st.alive.store(true, Ordering::SeqCst);
    let (n, mix, retry, gated) = match phase {
        Phase::Gated => (sc.limit + 2, 0, 0, true),
        Phase::Churn { n, mix, retry } => (*n, *mix, *retry, false),
    };
    for _ in 0..n {
        let body = if gated { Body::Gated } else { pick_body(&mut rng, mix) };
        let nonce = rng.next_u64();
        let Some(job) = Job::new(&ctx, body, nonce) else { break };
        let id = job.id;
        let mut r = dispatch_once(&pool, &st, job, sc.closures, id, nonce, &ctx, &mut log);
        loop {
            match r {
                Ok(()) => {
                    log.accepted.push(id);
                    break;
                }
                Err(back) => {
                    log.refusals += 1;
                    if ctx.ran[id].load(Ordering::SeqCst) != 0 {
                        log.findings.push(("refused-job-ran", format!("dispatch handed job {id} back but it has (also) run")));
                    }
                    let again = !gated && (rng.below(4) as u8) < retry && Instant::now() < deadline;
                    if again {
                        log.retries += 1;
                        thread::yield_now();
                        r = redispatch(&pool, &st, back);
                    } else {
                        drop(back);
                        if ctx.dropped_unrun[id].load(Ordering::SeqCst) != 1 {
                            log.findings.push((
                                "handed-back-different-dispatchable",
                                format!("dropping what dispatch handed back for job {id} did not drop job {id}"),
                            ));
                        }
                        log.abandoned.push(id);
                        break;
                    }
                }
            }
        }
        if gated && log.refusals > 0 {
            break;
        }
        if rng.chance(1, 8) {
            thread::yield_now();
        }
    }
    st.alive.store(false, Ordering::SeqCst);
    log
}

/// Number of threads that are neither pre-existing nor main: smallest of
/// three samples (exiting threads linger in /proc for a moment).
#[cfg(not(miri))]
fn census() -> Option<usize> {
    let base = BASE_TASKS.get()?;
    let once = || list_tasks().into_iter().filter(|t| !base.contains(t)).count();
    Some(once().min(once()).min(once()))
}

#[cfg(miri)]
fn census() -> Option<usize> {
    None
}

struct Outcome {
    sig: String,
    saturated: bool,
    findings: Vec<(String, String)>,
    inconclusive: Option<String>,
    jobs: usize,
    refusals: usize,
    retire_seen: bool,
    max_running: usize,
    workers_seen: usize,
    forced_gate: usize,
}

fn run_scenario(sc: &Scenario, watchdog: Duration) -> Outcome {
    // upper bound on the number of job ids this scenario can allocate
    let cap: usize = sc
        .steps
        .iter()
        .map(|s| match s.phase {
            Phase::Gated => (sc.limit + 2) * sc.sharers,
            Phase::Churn { n, .. } => n * sc.sharers,
        })
        .sum();
    let ctx = Ctx::new(cap);
    let timeout = sc.timeout_us.map_or(Duration::from_secs(3600), Duration::from_micros);
    let pool = AsyncifyPool::new(sc.limit, timeout);
    let mon = Arc::new(Mon {
        callers: (0..sc.sharers).map(|_| Arc::new(CallerState::default())).collect(),
        ..Mon::default()
    });
    #[cfg(not(miri))]
    let mon_thread = {
        let (mon, pool, ctx) = (mon.clone(), pool.clone(), ctx.clone());
        thread::spawn(move || monitor(mon, pool, ctx))
    };
    let mut findings: Vec<(String, String)> = Vec::new();
    let mut inconclusive = None;
    let who = if sc.sharers == 1 { "single-caller" } else { "shared-pool" };
    let mut accepted_total = 0usize;
    let mut accepted_ids: Vec<usize> = Vec::new();
    let mut abandoned_ids: Vec<usize> = Vec::new();
    let mut refusals = 0;
    let mut saturated = false;
    let mut exact_saturation = false;
    let mut retire_seen = false;
    let mut pattern = String::new();
    let base_rng = Rng::new(sc.seed);
    'steps: for (si, step) in sc.steps.iter().enumerate() {
        // ---- idle before the phase
        if step.idle_q > 0 {
            if let Some(us) = sc.timeout_us {
                thread::sleep(Duration::from_micros(us * step.idle_q as u64 / 4 + if step.idle_q >= 8 { 500 } else { 0 }));
                if step.idle_q >= 8 {
                    // coverage evidence only (native): nothing but the
                    // monitor thread is left, so every worker has retired
                    retire_seen |= census().is_some_and(|n| n <= 1);
                }
            }
            pattern.push(match step.idle_q {
                0..=3 => 'i',
                4..=5 => 'e',
                _ => 'r',
            });
        }
        let gated = matches!(step.phase, Phase::Gated);
        pattern.push(if gated { 'G' } else { 'C' });
        if gated {
            ctx.set_gate(false);
        }
        let deadline = Instant::now() + watchdog;
        // ---- callers
        let logs: Vec<CallerLog> = if sc.sharers == 1 {
            vec![caller(pool.clone(), ctx.clone(), mon.callers[0].clone(), sc, &step.phase, base_rng.fork(si as u64 * 16), deadline)]
        } else {
            let hs: Vec<_> = (0..sc.sharers)
                .map(|c| {
                    let (pool, ctx, sc2, phase, rng) = (pool.clone(), ctx.clone(), sc.clone(), step.phase.clone(), base_rng.fork(si as u64 * 16 + c as u64));
                    let st = mon.callers[c].clone();
                    thread::spawn(move || caller(pool, ctx, st, &sc2, &phase, rng, deadline))
                })
                .collect();
            hs.into_iter().map(|h| h.join().expect("caller thread")).collect()
        };
        let mut phase_refusals = 0;
        for l in logs {
            accepted_total += l.accepted.len();
            accepted_ids.extend(l.accepted);
            abandoned_ids.extend(l.abandoned);
            phase_refusals += l.refusals;
            for (c, w) in l.findings {
                findings.push((format!("C17/pool/{c}"), w));
            }
        }
        refusals += phase_refusals;
        saturated |= phase_refusals > 0;
        // ---- gate: wait until every accepted job is inside, look, open
        let wait_until = |cond: &dyn Fn() -> bool| -> bool {
            let mut g = ctx.done_m.lock().unwrap();
            loop {
                if cond() {
                    return true;
                }
                if cfg!(miri) {
                    // no wall clock: a job that never runs ends as a Miri deadlock
                    // report; entering jobs do not signal, so poll with a yield
                    drop(g);
                    thread::yield_now();
                    g = ctx.done_m.lock().unwrap();
                } else {
                    if Instant::now() > deadline {
                        return false;
                    }
                    g = ctx.done_cv.wait_timeout(g, Duration::from_millis(2)).unwrap().0;
                }
            }
        };
        if gated {
            let target = accepted_total;
            let ok = wait_until(&|| ctx.completed.load(Ordering::SeqCst) + ctx.running.load(Ordering::SeqCst) >= target);
            let inside = ctx.running.load(Ordering::SeqCst);
            exact_saturation |= phase_refusals > 0 && inside == sc.limit;
            ctx.set_gate(true);
            if !ok {
                inconclusive = Some(format!(
                    "watchdog: accepted gated jobs did not all start (running {}, accepted {}, completed {})",
                    inside,
                    target,
                    ctx.completed.load(Ordering::SeqCst)
                ));
                break 'steps;
            }
        }
        // ---- every accepted job completes
        let target = accepted_total;
        if !wait_until(&|| ctx.completed.load(Ordering::SeqCst) >= target) {
            inconclusive = Some(format!(
                "watchdog: accepted jobs not completed (running {}, accepted {}, completed {})",
                ctx.running.load(Ordering::SeqCst),
                target,
                ctx.completed.load(Ordering::SeqCst)
            ));
            break 'steps;
        }
    }
    ctx.set_gate(true);
    #[cfg(not(miri))]
    {
        *mon.stop.lock().unwrap() = true;
        mon.cv.notify_all();
        mon_thread.join().expect("monitor thread");
    }
    let rescued = mon.rescued.load(Ordering::SeqCst);
    if rescued > 0 {
        findings.push((
            "C17/pool/dispatch-blocks-forever/no-worker-alive".into(),
            format!(
                "{rescued} time(s) every caller was parked inside AsyncifyPool::dispatch (the blocking hand-off `sender.send(f)` after \
                 spawning a worker) while the process had no pool worker thread at all and no job was running: the worker spawned for \
                 the job had already given up (recv_timeout {:?}) — dispatch would never return; the harness unblocked it with one extra dispatch",
                timeout
            ),
        ));
    }
    // ---- accounting
    let max_running = ctx.max_running.load(Ordering::SeqCst);
    let panicked = ctx.panicked.load(Ordering::SeqCst);
    let workers_seen = ctx.tids.lock().unwrap().len();
    if inconclusive.is_none() {
        for id in &accepted_ids {
            let (r, d) = (ctx.ran[*id].load(Ordering::SeqCst), ctx.dropped_unrun[*id].load(Ordering::SeqCst));
            if r >= 100 {
                findings.push(("C17/pool/accepted-job-corrupted".into(), format!("job {id} ran with a damaged payload")));
            } else if r > 1 {
                findings.push(("C17/pool/accepted-job-ran-twice".into(), format!("job {id} ran {r} times")));
            } else if r == 0 {
                findings.push(("C17/pool/accepted-job-not-run".into(), format!("job {id} was accepted, everything completed, it never ran (dropped: {d})")));
            }
            if d != 0 {
                findings.push(("C17/pool/accepted-job-dropped".into(), format!("job {id} was accepted and also dropped without running")));
            }
        }
        for id in &abandoned_ids {
            let (r, d) = (ctx.ran[*id].load(Ordering::SeqCst), ctx.dropped_unrun[*id].load(Ordering::SeqCst));
            if r != 0 {
                findings.push(("C17/pool/refused-job-ran".into(), format!("job {id} was handed back and dropped by the caller, yet it ran")));
            }
            if d != 1 {
                findings.push(("C17/pool/handed-back-different-dispatchable".into(), format!("job {id} handed back: drop count {d}")));
            }
        }
    }
    if max_running > sc.limit {
        findings.push((
            format!("C17/pool/running-exceeds-limit/{who}"),
            format!("{max_running} jobs were running at once in a pool with thread_limit {} ({} caller thread(s))", sc.limit, sc.sharers),
        ));
    }
    if sc.timeout_us.is_none() && workers_seen > sc.limit + panicked {
        findings.push((
            format!("C17/pool/workers-exceed-limit/{who}"),
            format!(
                "{workers_seen} distinct worker threads ran jobs and none can have retired (idle timeout 1 h, {panicked} killed by panicking jobs) \
                 in a pool with thread_limit {} ({} caller thread(s))",
                sc.limit, sc.sharers
            ),
        ));
    }
    drop(pool);
    let sig = format!(
        "pool:l{}:s{}:{}:{}:{}:sat{}:ret{}:pan{}",
        sc.limit,
        sc.sharers,
        match sc.timeout_us {
            None => "noretire",
            Some(t) if t < 5000 => "t-tiny",
            Some(_) => "t-short",
        },
        if sc.closures { "closure" } else { "struct" },
        pattern,
        if exact_saturation { "X" } else if saturated { "y" } else { "n" },
        retire_seen as u8,
        (panicked > 0) as u8
    );
    Outcome {
        sig,
        saturated,
        findings,
        inconclusive,
        jobs: accepted_total,
        refusals,
        retire_seen,
        max_running,
        workers_seen,
        forced_gate: mon.forced_gate.load(Ordering::SeqCst),
    }
}

fn evaluate(sc: &Scenario, rep: &mut Report, watchdog: Duration) -> bool {
    let replay = || json!({"scenario": sc.to_json(), "reps": 500});
    match panics::catch(|| run_scenario(sc, watchdog)) {
        Ok(o) => {
            rep.count("jobs_accepted", o.jobs as i64);
            rep.count("refusals", o.refusals as i64);
            rep.count("gate_opened_early_by_monitor", o.forced_gate as i64);
            rep.max("max_running_minus_limit", o.max_running as i64 - sc.limit as i64);
            if sc.timeout_us.is_none() {
                rep.max("workers_seen_minus_limit_noretire", o.workers_seen as i64 - sc.limit as i64);
            }
            rep.floor("saw-saturation", o.saturated);
            rep.floor("saw-exact-saturation-at-gate", o.sig.contains(":satX"));
            rep.floor("saw-retirement", o.retire_seen);
            rep.eval(o.saturated.then(|| o.sig.clone()));
            if rep.want_sample() && o.saturated {
                rep.sample(json!({"scenario": sc.to_json(), "signature": o.sig, "jobs": o.jobs, "refusals": o.refusals,
                                  "max_running": o.max_running, "workers_seen": o.workers_seen}));
            }
            if let Some(r) = o.inconclusive {
                rep.inconclusive(&r);
            }
            let bad = !o.findings.is_empty();
            let mut seen = HashSet::new();
            for (sig, what) in o.findings {
                if seen.insert(sig.clone()) {
                    rep.violation(&sig, &what, replay());
                }
            }
            bad
        }
        Err(info) => {
            match info.origin() {
                panics::Origin::Repo(_) => rep.violation(&format!("C17/pool/{}", info.sig()), &format!("panic inside compio: {}", info.message), replay()),
                _ => rep.inconclusive(&format!("harness panic: {} at {}:{}", info.message, info.file, info.line)),
            }
            true
        }
    }
}

pub fn main(args: &Args) {
    let leg = args.str("leg", "native");
    let mut rep = Report::from_args("C17", &leg, args);
    let watchdog = Duration::from_secs(args.u64("watchdog-s", 60));
    // Baseline of permanent non-worker threads. Sanitizer runtimes start their
    // background thread lazily at the first thread creation: force it, then
    // wait until the thread list is stable (the probe thread has left /proc, so
    // no dead tid that a worker could reuse later enters the baseline).
    let mut base = list_tasks();
    if !cfg!(miri) {
        thread::spawn(|| {}).join().expect("probe thread");
        let mut stable = 0;
        for _ in 0..500 {
            thread::sleep(Duration::from_millis(1));
            let mut now = list_tasks();
            now.sort_unstable();
            if now == base {
                stable += 1;
                if stable >= 5 {
                    break;
                }
            } else {
                stable = 0;
                base = now;
            }
        }
    }
    let _ = BASE_TASKS.set(base);
    if let Some(path) = args.get("replay") {
        let text = std::fs::read_to_string(path).expect("replay file");
        let v: vcommon::Value = vcommon::serde_json::from_str(&text).expect("replay json");
        let Some(sc) = Scenario::from_json(&v["program"]["scenario"]) else {
            rep.inconclusive("replay file has no c17m scenario (crash replays carry only stderr)");
            rep.finish();
            return;
        };
        let reps = args.usize("reps", v["program"]["reps"].as_u64().unwrap_or(500) as usize);
        let reps = if cfg!(miri) { reps.min(60) } else { reps };
        for _ in 0..reps {
            if evaluate(&sc, &mut rep, watchdog) || rep.out_of_time() {
                break;
            }
        }
        rep.finish();
        return;
    }
    let small = cfg!(miri) || args.flag("small");
    let max_limit = args.usize("max-limit", if small { 3 } else { 8 }).max(1);
    let max_sharers = args.usize("max-sharers", if small { 2 } else { 4 }).max(1);
    let iters = args.iters(if small { 25 } else { 150 }, if small { 400 } else { 4000 });
    let base = Rng::new(args.seed()).fork(args.shard() + 1);
    // Shift Miri's own schedule stream per shard (its seed is per process).
    for _ in 0..(args.shard() * 3 + args.seed() % 11) {
        thread::yield_now();
    }
    for i in 0..iters {
        if rep.out_of_time() {
            break;
        }
        let mut rng = base.fork(i as u64);
        let sc = Scenario::gen_random(&mut rng, small, max_limit, max_sharers);
        evaluate(&sc, &mut rep, watchdog);
    }
    rep.finish();
}
