//! Choice sources: a program asks `choose(n)` at every decision; the same
//! program text is driven exhaustively (odometer over all choice sequences)
//! or randomly (seeded PRNG). The recorded choice sequence *is* the replay.

use vcommon::Rng;

pub trait Chooser {
    /// A value in `0..n` (n >= 1).
    fn choose(&mut self, n: usize) -> usize;
    fn trace(&self) -> Vec<usize>;
}

pub struct RandomChooser {
    rng: Rng,
    taken: Vec<usize>,
}

impl RandomChooser {
    pub fn new(rng: Rng) -> Self {
        Self {
            rng,
            taken: Vec::new(),
        }
    }
}

impl Chooser for RandomChooser {
    fn choose(&mut self, n: usize) -> usize {
        let v = self.rng.below(n.max(1));
        self.taken.push(v);
        v
    }

    fn trace(&self) -> Vec<usize> {
        self.taken.clone()
    }
}

/// Replays a fixed sequence (0 once exhausted).
pub struct ReplayChooser {
    seq: Vec<usize>,
    pos: usize,
}

impl ReplayChooser {
    pub fn new(seq: Vec<usize>) -> Self {
        Self { seq, pos: 0 }
    }
}

impl Chooser for ReplayChooser {
    fn choose(&mut self, n: usize) -> usize {
        let v = self.seq.get(self.pos).copied().unwrap_or(0);
        self.pos += 1;
        v.min(n.saturating_sub(1))
    }

    fn trace(&self) -> Vec<usize> {
        self.seq[..self.pos.min(self.seq.len())].to_vec()
    }
}

/// Enumerates every choice sequence of a terminating program.
#[derive(Default)]
pub struct Odometer {
    digits: Vec<(usize, usize)>,
    pos: usize,
    started: bool,
}

impl Odometer {
    pub fn new() -> Self {
        Self::default()
    }

    /// Advance to the next sequence. Returns false when the space is
    /// exhausted. Call before every run (including the first).
    pub fn advance(&mut self) -> bool {
        if !self.started {
            self.started = true;
            self.pos = 0;
            return true;
        }
        // Drop digits not reached in the last run (cannot happen for
        // deterministic programs, but keep the invariant).
        self.digits.truncate(self.pos);
        while let Some((v, n)) = self.digits.pop() {
            if v + 1 < n {
                self.digits.push((v + 1, n));
                self.pos = 0;
                return true;
            }
        }
        false
    }
}

impl Chooser for Odometer {
    fn choose(&mut self, n: usize) -> usize {
        let n = n.max(1);
        if self.pos == self.digits.len() {
            self.digits.push((0, n));
        }
        let (v, _) = self.digits[self.pos];
        self.pos += 1;
        v
    }

    fn trace(&self) -> Vec<usize> {
        self.digits[..self.pos].iter().map(|d| d.0).collect()
    }
}
