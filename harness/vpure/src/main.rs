//! Miri-able harness binary: pure crates (compio-buf, compio-io) and the
//! syscall-free multi-threaded code (executor, SharedFd, AsyncifyPool).

mod c10;
mod choose;

use vcommon::Args;

fn main() {
    vcommon::panics::install_hook();
    let args = Args::parse();
    match args.cmd.as_str() {
        "noop" => {}
        "c10" => c10::main(&args),
        other => {
            eprintln!("unknown subcommand {other:?}");
            std::process::exit(3);
        }
    }
}
