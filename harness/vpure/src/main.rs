//! Miri-able harness binary: pure crates (compio-buf, compio-io) and the
//! syscall-free multi-threaded code (executor, SharedFd, AsyncifyPool).

mod c03f;
mod c03x;
mod c04;
mod c06a;
mod c10;
mod c11;
mod c12;
mod c13;
mod c17m;
pub mod choose;

use vcommon::Args;

fn main() {
    vcommon::panics::install_hook();
    let args = Args::parse();
    match args.cmd.as_str() {
        "noop" => {}
        "c03f" => c03f::main(&args),
        "c03x" => c03x::main(&args),
        "c04" => c04::main(&args),
        "c06a" => c06a::main(&args),
        "c10" => c10::main(&args),
        "c11" => c11::main(&args),
        "c12" => c12::main(&args),
        "c13" => c13::main(&args),
        "c17m" => c17m::main(&args),
        other => {
            eprintln!("unknown subcommand {other:?}");
            std::process::exit(3);
        }
    }
}
