//! C01 in-flight operations keep memory and descriptors alive — not built yet.

use vcommon::Args;

pub fn main(_args: &Args) {
    eprintln!("c01: not implemented");
    std::process::exit(3);
}
