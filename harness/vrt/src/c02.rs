//! C02 every operation completes exactly once with its own result — not built yet.

use vcommon::Args;

pub fn main(_args: &Args) {
    eprintln!("c02: not implemented");
    std::process::exit(3);
}
