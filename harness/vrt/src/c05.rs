//! C05 cancellation is prompt, honest and local — not built yet.

use vcommon::Args;

pub fn main(_args: &Args) {
    eprintln!("c05: not implemented");
    std::process::exit(3);
}
