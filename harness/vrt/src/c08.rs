//! C08 — file and pipe I/O matches the OS, identically on every driver.
//!
//! Differential monitor. One seeded program of file / pipe / directory
//! operations is applied, step by step, to
//!   * `ref`     — libc / std::fs calls (the OS's own synchronous calls),
//!   * `iour`    — compio-fs on a runtime whose proactor is io_uring,
//!   * `poll`    — compio-fs on the polling driver (files go through the pool),
//!   * `iour-fb` — io_uring with every opcode that has a blocking fallback
//!                 forced unsupported (`compio_driver::verif::force_unsupported`),
//! each on its own copy of the same initial directory tree. After every step
//! the result (`Ok(n)` / error kind + errno), the returned buffers (length of
//! every member and the whole allocation: bytes outside the window the OS may
//! write must be untouched), metadata / data results, and after every mutating
//! step the whole tree (type, mode, nlink, length, content) are compared with
//! the reference. Steps that would block (empty pipe, FIFO open without peer)
//! are decided by the reference executor, which uses non-blocking descriptors,
//! and skipped for everyone, so a hang is never a legitimate outcome; the
//! watchdog reports one as inconclusive.

#[path = "c08_buf.rs"]
mod buf;
#[path = "c08_exec.rs"]
mod exec;

use std::{
    collections::HashSet,
    path::PathBuf,
    sync::{
        Arc, Mutex,
        atomic::{AtomicBool, AtomicU64, Ordering},
    },
    time::{Duration, Instant},
};

use buf::*;
use compio_driver::{DriverType, ProactorBuilder, verif};
use compio_runtime::Runtime;
use exec::*;
use vcommon::{Args, Report, Rng, Value, json, panics};

// IORING_OP_* codes (linux-raw-sys io_uring.rs / io-uring `opcode::X::CODE`);
// the io-uring crate is not a dependency of the harness.
const IORING_OP_OPENAT: u8 = 18;
const IORING_OP_CLOSE: u8 = 19;
const IORING_OP_STATX: u8 = 21;
const IORING_OP_SPLICE: u8 = 30;
const IORING_OP_RENAMEAT: u8 = 35;
const IORING_OP_UNLINKAT: u8 = 36;
const IORING_OP_MKDIRAT: u8 = 37;
const IORING_OP_SYMLINKAT: u8 = 38;
const IORING_OP_LINKAT: u8 = 39;
const IORING_OP_FTRUNCATE: u8 = 55;
const IORING_OP_PIPE: u8 = 62;
/// Every file-system opcode for which compio implements `call_blocking`.
/// READ(22)/WRITE(23)/READV(1)/WRITEV(2)/FSYNC(3) have no fallback: they are
/// in `OpCodeFlag::basic()`, without which the fusion driver never selects
/// io_uring, so forcing them would exercise a configuration compio excludes.
const FALLBACK_OPS: [u8; 11] = [
    IORING_OP_OPENAT,
    IORING_OP_CLOSE,
    IORING_OP_STATX,
    IORING_OP_SPLICE,
    IORING_OP_RENAMEAT,
    IORING_OP_UNLINKAT,
    IORING_OP_MKDIRAT,
    IORING_OP_SYMLINKAT,
    IORING_OP_LINKAT,
    IORING_OP_FTRUNCATE,
    IORING_OP_PIPE,
];

const VARIANTS: [&str; 3] = ["iour", "poll", "iour-fb"];

// ---------------------------------------------------------------------------
// watchdog
// ---------------------------------------------------------------------------

struct Shared {
    rep: Mutex<Report>,
    beat: AtomicU64,
    what: Mutex<String>,
    done: AtomicBool,
}

impl Shared {
    fn rep<T>(&self, f: impl FnOnce(&mut Report) -> T) -> T {
        f(&mut self.rep.lock().unwrap_or_else(|e| e.into_inner()))
    }

    fn beat(&self, what: impl FnOnce() -> String) {
        self.beat.fetch_add(1, Ordering::SeqCst);
        *self.what.lock().unwrap_or_else(|e| e.into_inner()) = what();
    }
}

fn start_watchdog(sh: Arc<Shared>, limit: Duration, cleanup: PathBuf) {
    std::thread::spawn(move || {
        let mut last = sh.beat.load(Ordering::SeqCst);
        let mut since = Instant::now();
        loop {
            std::thread::sleep(Duration::from_millis(250));
            if sh.done.load(Ordering::SeqCst) {
                return;
            }
            let now = sh.beat.load(Ordering::SeqCst);
            if now != last {
                last = now;
                since = Instant::now();
                continue;
            }
            if since.elapsed() >= limit {
                let what = sh.what.lock().unwrap_or_else(|e| e.into_inner()).clone();
                sh.rep(|r| {
                    r.inconclusive(&format!("watchdog: no progress for {}s in {what}", limit.as_secs()));
                    r.finish();
                });
                remove_tree(&cleanup);
                std::process::exit(0);
            }
        }
    });
}

// ---------------------------------------------------------------------------
// variants
// ---------------------------------------------------------------------------

struct Variant {
    name: &'static str,
    rt: Runtime,
    fallback: bool,
}

fn build_variants() -> std::io::Result<Vec<Variant>> {
    let mut out = Vec::new();
    for name in VARIANTS {
        let mut pb = ProactorBuilder::new();
        pb.driver_type(if name == "poll" { DriverType::Poll } else { DriverType::IoUring });
        pb.capacity(64);
        let rt = Runtime::builder().with_proactor(pb).build()?;
        let want_poll = name == "poll";
        if rt.driver_type().is_polling() != want_poll {
            return Err(std::io::Error::other(format!("variant {name} got driver {:?}", rt.driver_type())));
        }
        out.push(Variant {
            name,
            rt,
            fallback: name == "iour-fb",
        });
    }
    Ok(out)
}

fn force_fallback(ops: &[u8], on: bool) {
    for c in ops {
        verif::force_unsupported(*c, on);
    }
}

// ---------------------------------------------------------------------------
// generator
// ---------------------------------------------------------------------------

const PATHS: &[&str] = &[
    "a.txt",
    "b.bin",
    "empty",
    "ro.txt",
    "d",
    "d/inner.txt",
    "d/sub",
    "link",
    "dlink",
    "dlink/inner.txt",
    "dangling",
    "fifo",
    "new1",
    "new2",
    "d/new3",
    "d/sub/new4",
    "nodir/x",
    "d/sub/x/y/z",
    "a.txt/x",
    "",
    "nul\0x",
    "LONG",
];

fn long_name() -> String {
    "n".repeat(300)
}

fn pick_path(rng: &mut Rng, files_only: bool) -> String {
    let p = if files_only && rng.chance(3, 4) {
        *rng.pick(&["a.txt", "b.bin", "empty", "ro.txt", "d/inner.txt", "link", "new1", "new2", "d/new3"])
    } else if rng.chance(1, 12) {
        *rng.pick(&["", "nul\0x", "LONG", "a.txt/x", "nodir/x"])
    } else {
        *rng.pick(&PATHS[..19])
    };
    if p == "LONG" { long_name() } else { p.to_string() }
}

const CAPS: &[usize] = &[0, 1, 2, 3, 7, 8, 16, 33, 64, 100, 255, 256, 1000, 4096, 4097, 5000, 8192, 20000];

fn pick_cap(rng: &mut Rng, max: usize) -> usize {
    let c = if rng.chance(3, 4) { CAPS[rng.below(11)] } else { *rng.pick(CAPS) };
    c.min(max)
}

fn pick_member(rng: &mut Rng, max: usize) -> (usize, usize) {
    let mut cap = pick_cap(rng, max);
    if cap == 0 && rng.chance(2, 3) {
        cap = 1 + rng.below(40).min(max.saturating_sub(1));
    }
    let len = match rng.below(10) {
        0 => 0,
        1..=4 => cap,
        _ => rng.below(cap + 1),
    };
    (len, cap)
}

fn gen_members(rng: &mut Rng, k: usize, max: usize, for_read: bool) -> Vec<(usize, usize)> {
    let mut m: Vec<(usize, usize)> = (0..k).map(|_| pick_member(rng, max)).collect();
    if for_read && rng.chance(5, 6) {
        // prefix shaped: full members, at most one partial, then empty ones
        let cut = rng.below(k + 1);
        for (i, x) in m.iter_mut().enumerate() {
            if i < cut {
                x.0 = x.1;
            } else if i > cut {
                x.0 = 0;
            }
        }
    }
    if rng.chance(1, 3) && k > 0 {
        let i = rng.below(k);
        m[i] = (0, 0);
    }
    m
}

fn gen_buf(rng: &mut Rng, read: bool, vectored: bool, salt: u32, max: usize) -> BufSpec {
    let mut spec = BufSpec {
        kind: BK::Vec,
        m: Vec::new(),
        b: 0,
        e: None,
        salt,
    };
    if vectored {
        let kinds: &[BK] = if read {
            &[BK::VecVec, BK::VecVec, BK::Arr3, BK::Tuple, BK::VecBox]
        } else {
            &[BK::VecVec, BK::VecVec, BK::Arr3, BK::Tuple, BK::VecBox, BK::VecStatic, BK::VSlice]
        };
        spec.kind = *rng.pick(kinds);
        let k = match spec.kind {
            BK::Arr3 => 3,
            BK::Tuple => 2,
            _ => rng.below(5),
        };
        spec.m = gen_members(rng, k, max.min(4200), read);
        if spec.kind == BK::VSlice {
            let total: usize = spec.m.iter().map(|x| x.0).sum();
            spec.b = rng.size(total);
        }
    } else {
        let kinds: &[BK] = if read {
            &[BK::Vec, BK::Vec, BK::Vec, BK::Arr, BK::Box, BK::Slice, BK::Slice, BK::Uninit, BK::Uninit, BK::BytesMut]
        } else {
            &[
                BK::Vec,
                BK::Vec,
                BK::Vec,
                BK::Arr,
                BK::Box,
                BK::Slice,
                BK::Slice,
                BK::BytesMut,
                BK::Static,
                BK::Str,
                BK::String,
                BK::Bytes,
                BK::Uninit,
            ]
        };
        spec.kind = *rng.pick(kinds);
        spec.m = vec![pick_member(rng, max)];
        match spec.kind {
            BK::Uninit if read && rng.chance(4, 5) => {
                // leave spare capacity to read into
                let (len, cap) = spec.m[0];
                if len == cap && cap > 0 {
                    spec.m[0].0 = rng.below(cap);
                }
            }
            BK::Slice => {
                let (len, cap) = spec.m[0];
                spec.b = if len > 0 && rng.chance(3, 4) { rng.below(len) } else { rng.size(len) };
                spec.e = match rng.below(5) {
                    0 | 1 => None,
                    2 => Some(rng.range(spec.b, len.max(spec.b))),
                    3 => Some(rng.range(spec.b, cap.max(spec.b))),
                    _ => Some(cap + rng.below(9)),
                };
            }
            BK::Static | BK::Str => spec.b = rng.below(64),
            _ => {}
        }
    }
    spec.normalise();
    spec
}

fn gen_offset(rng: &mut Rng, size: u64, write: bool) -> u64 {
    match rng.below(20) {
        0..=4 => 0,
        5..=9 => {
            if size > 0 {
                rng.below(size.min(1 << 30) as usize) as u64
            } else {
                0
            }
        }
        10..=12 => size,
        13 => size.saturating_sub(1),
        14 | 15 => size + 1 + rng.below(100) as u64,
        16 => {
            if size < 200_000 {
                size + 4096 + rng.below(66_000) as u64
            } else {
                size
            }
        }
        17 => {
            if write {
                // at the edge of what the file system accepts
                *rng.pick(&[i64::MAX as u64, i64::MAX as u64 - 1, (i64::MAX as u64) - 4096])
            } else {
                *rng.pick(&[1u64 << 40, 1u64 << 62, i64::MAX as u64])
            }
        }
        18 => {
            if rng.chance(1, 4) {
                // not representable as off_t
                *rng.pick(&[1u64 << 63, u64::MAX, u64::MAX - 1])
            } else {
                size
            }
        }
        _ => size / 2,
    }
}

fn offset_class(off: u64, size: u64) -> &'static str {
    if off >= 1 << 63 {
        "neg"
    } else if off >= 1 << 40 {
        "huge"
    } else if off == 0 {
        "0"
    } else if off < size {
        "mid"
    } else if off == size {
        "eof"
    } else if off < size + 4096 {
        "beyond"
    } else {
        "far"
    }
}

fn len_class(n: usize) -> &'static str {
    match n {
        0 => "0",
        1 => "1",
        2..=64 => "small",
        65..=4095 => "mid",
        _ => "big",
    }
}

const OPEN_COMBOS: &[u32] = &[
    O_READ,
    O_READ,
    O_WRITE,
    O_READ | O_WRITE,
    O_READ | O_WRITE,
    O_READ | O_WRITE,
    O_READ | O_WRITE,
    O_READ | O_WRITE | O_CREATE,
    O_READ | O_WRITE | O_CREATE,
    O_WRITE | O_CREATE,
    O_READ | O_WRITE | O_CREATE,
    O_WRITE | O_CREATE | O_TRUNC,
    O_WRITE | O_TRUNC,
    O_READ | O_WRITE | O_TRUNC,
    O_WRITE | O_CREATE_NEW,
    O_READ | O_WRITE | O_CREATE_NEW,
    O_WRITE | O_CREATE | O_CREATE_NEW | O_TRUNC,
];

fn gen_open(rng: &mut Rng, h: usize) -> Op {
    let mut op = Op::new(OK::Open);
    op.h = h;
    op.p = pick_path(rng, true);
    op.fl = if rng.chance(4, 5) { *rng.pick(OPEN_COMBOS) } else { rng.below(32) as u32 };
    op.c = match rng.below(16) {
        0..=8 => 0,
        9 | 10 => libc::O_APPEND,
        11 => libc::O_NOFOLLOW,
        12 => libc::O_DIRECTORY,
        13 => libc::O_APPEND | libc::O_NOFOLLOW,
        14 => *rng.pick(&[libc::O_TRUNC, libc::O_EXCL | libc::O_CREAT, libc::O_SYNC, libc::O_NOATIME, libc::O_WRONLY]),
        _ => libc::O_APPEND | libc::O_SYNC,
    };
    if rng.chance(1, 3) {
        op.fl |= O_HAS_MODE;
        op.n = *rng.pick(&[0o600, 0o644, 0o400, 0o000, 0o777, 0o4755, 0o640, 0o200]) as u64;
    }
    op
}

fn gen_mode(rng: &mut Rng) -> u64 {
    *rng.pick(&[0o600, 0o644, 0o444, 0o000, 0o777, 0o755, 0o700, 0o1777, 0o4755, 0o2750, 0o200]) as u64
}

/// Paths the kernel rejects while copying the name in (empty, too long).
/// Where a second error condition can coexist (open flags, a second path),
/// io_uring and the system call report them in a different order; which of
/// two simultaneous errors wins is not part of the property, so such paths
/// are only used where they are the only possible error.
fn name_level_error(p: &str) -> bool {
    p.is_empty() || p.len() > 255
}

fn gen_op(rng: &mut Rng, w: &RefWorld, salt: u32) -> Op {
    let mut op = gen_op_raw(rng, w, salt);
    match op.k {
        OK::Open | OK::PipeOpen | OK::FsWrite => {
            if name_level_error(&op.p) {
                op.p = "nodir/x".into();
            }
        }
        OK::Rename | OK::HardLink | OK::Symlink => {
            if name_level_error(&op.q) {
                op.q = "nodir/x".into();
            }
        }
        _ => {}
    }
    op.normalise();
    op
}

fn gen_op_raw(rng: &mut Rng, w: &RefWorld, salt: u32) -> Op {
    let open_slots: Vec<usize> = (0..NH).filter(|h| w.slot_info(*h).is_some()).collect();
    let cat = rng.below(100);
    if (cat < 38 || (40..52).contains(&cat)) && open_slots.is_empty() {
        let h = rng.below(NH);
        return gen_open(rng, h);
    }
    match cat {
        // positional file I/O
        0..=37 => {
            let h = *rng.pick(&open_slots);
            let (size, _) = w.slot_info(h).unwrap();
            let which = rng.below(10);
            let (k, read, vect) = match which {
                0..=2 => (OK::ReadAt, true, false),
                3 | 4 => (OK::ReadVAt, true, true),
                5..=7 => (OK::WriteAt, false, false),
                _ => (OK::WriteVAt, false, true),
            };
            let mut op = Op::new(k);
            op.h = h;
            op.off = gen_offset(rng, size, !read);
            op.buf = Some(gen_buf(rng, read, vect, salt, 20000));
            op
        }
        38 | 39 => {
            let mut op = Op::new(OK::Close);
            op.h = if open_slots.is_empty() { 0 } else { *rng.pick(&open_slots) };
            op.fl = rng.below(2) as u32;
            op
        }
        // handle ops
        40..=51 => {
            let h = *rng.pick(&open_slots);
            let (size, _) = w.slot_info(h).unwrap();
            let mut op = Op::new(*rng.pick(&[
                OK::SetLen,
                OK::SetLen,
                OK::SetLen,
                OK::SyncAll,
                OK::SyncData,
                OK::Meta,
                OK::Meta,
                OK::SetPerm,
            ]));
            op.h = h;
            op.n = match op.k {
                OK::SetLen => match rng.below(10) {
                    0 | 1 => 0,
                    2 | 3 => size / 2,
                    4 => size,
                    5 | 6 => size + 1 + rng.below(5000) as u64,
                    7 => 1 << 20,
                    8 => *rng.pick(&[1u64 << 40, i64::MAX as u64, 1 << 63, u64::MAX]),
                    _ => rng.below(10000) as u64,
                },
                OK::SetPerm => gen_mode(rng),
                _ => 0,
            };
            op
        }
        52..=62 => {
            let h = rng.below(NH);
            gen_open(rng, h)
        }
        // path ops
        63..=79 => {
            let k = *rng.pick(&[
                OK::PMeta,
                OK::PMeta,
                OK::PSymMeta,
                OK::PSymMeta,
                OK::PSetPerm,
                OK::MkDir,
                OK::MkDir,
                OK::MkDirAll,
                OK::MkDirAll,
                OK::MkDirMode,
                OK::RmFile,
                OK::RmFile,
                OK::RmDir,
                OK::RmDir,
                OK::Rename,
                OK::Rename,
                OK::Symlink,
                OK::HardLink,
                OK::HardLink,
            ]);
            let mut op = Op::new(k);
            op.p = pick_path(rng, false);
            match k {
                OK::Rename | OK::HardLink => op.q = pick_path(rng, false),
                OK::Symlink => {
                    op.p = rng.pick(&["a.txt", "d", "nope", "../x", "", "d/inner.txt", "/nonexistent"]).to_string();
                    op.q = pick_path(rng, false);
                }
                OK::PSetPerm | OK::MkDirMode => op.n = gen_mode(rng),
                _ => {}
            }
            op
        }
        80..=82 => {
            if rng.chance(1, 2) {
                let mut op = Op::new(OK::FsRead);
                op.p = pick_path(rng, true);
                op
            } else {
                let mut op = Op::new(OK::FsWrite);
                op.p = pick_path(rng, true);
                op.buf = Some(gen_buf(rng, false, false, salt, 20000));
                op
            }
        }
        // pipes
        _ => {
            let mut k = rng.below(NP);
            if w.pipe_info(k) == (false, false) && rng.chance(3, 4) {
                k = (0..NP).find(|k| w.pipe_info(*k) != (false, false)).unwrap_or(k);
            }
            let (rx, tx) = w.pipe_info(k);
            let mut op = Op::new(OK::PipeNew);
            op.h = k;
            if !rx && !tx {
                if rng.chance(1, 3) {
                    op.k = OK::PipeOpen;
                    op.p = if rng.chance(4, 5) { "fifo".to_string() } else { pick_path(rng, false) };
                    op.fl = rng.below(2) as u32 | P_RW | if rng.chance(1, 4) { P_UNCHECKED } else { 0 };
                }
                return op;
            }
            let avail = w.pipe_avail(k);
            let mut c = rng.below(100);
            if rx && tx && c < 65 {
                // read what is there, write when there is nothing to read
                c = if avail > 0 && rng.chance(2, 3) { 30 } else { 0 };
            }
            match c {
                0..=29 if tx => {
                    op.k = if rng.chance(3, 5) { OK::PipeWrite } else { OK::PipeWriteV };
                    op.buf = Some(gen_buf(rng, false, op.k == OK::PipeWriteV, salt, 1400));
                }
                30..=64 if rx => {
                    op.k = *rng.pick(&[OK::PipeRead, OK::PipeRead, OK::PipeReadV, OK::PipeReadV, OK::PipeAppend]);
                    op.buf = Some(gen_buf(rng, true, op.k == OK::PipeReadV, salt, 5000));
                }
                65..=69 => {
                    op.k = if rng.chance(1, 2) { OK::PipeCloseRx } else { OK::PipeCloseTx };
                    op.fl = rng.below(2) as u32;
                }
                70..=79 => {
                    op.k = OK::PipeOpen;
                    op.p = if rng.chance(4, 5) { "fifo".to_string() } else { pick_path(rng, false) };
                    op.fl = rng.below(8) as u32;
                }
                80..=83 if !open_slots.is_empty() => {
                    let h = *rng.pick(&open_slots);
                    let (size, _) = w.slot_info(h).unwrap();
                    op.k = if rng.chance(1, 2) { OK::SpliceIn } else { OK::SpliceOut };
                    op.h = h;
                    op.h2 = k;
                    op.n = *rng.pick(&[0usize, 1, 10, 100, 1000, 4096]) as u64;
                    op.off = match rng.below(4) {
                        0 => 0,
                        1 => size,
                        2 => size / 2,
                        _ => size + 10,
                    };
                }
                84..=94 => {}
                _ => {
                    op.k = if tx { OK::PipeWrite } else { OK::PipeRead };
                    op.buf = Some(gen_buf(rng, !tx, false, salt, 1400));
                }
            }
            op
        }
    }
}

// ---------------------------------------------------------------------------
// the differential run of one program
// ---------------------------------------------------------------------------

#[derive(Clone, Debug)]
struct Violation {
    sig: String,
    what: String,
    step: usize,
}

enum Source<'a> {
    /// Generate on the fly (needs the reference state), up to `n` steps.
    Gen { rng: &'a mut Rng, n: usize },
    Fixed(&'a [Op]),
}

struct RunOut {
    prog: Vec<Op>,
    /// At most one per driver variant: a variant that disagreed once is left
    /// out of the rest of the program (its state is no longer comparable).
    violations: Vec<Violation>,
    /// Harness problem description — never a violation.
    trouble: Option<String>,
    /// The process cannot go on (descriptor table no longer trustworthy).
    fatal: bool,
}

struct Ctx<'a> {
    sh: &'a Arc<Shared>,
    variants: &'a [Variant],
    base: &'a PathBuf,
    /// Report signatures / counters (false while minimising).
    record: bool,
    trace: bool,
}

/// (rule, variant index, explanation): at most one per variant and step.
type Fails = Vec<(&'static str, usize, String)>;

fn add(fails: &mut Fails, rule: &'static str, v: usize, what: String) {
    if !fails.iter().any(|f| f.1 == v) {
        fails.push((rule, v, what));
    }
}

fn run_program(ctx: &Ctx<'_>, mut src: Source<'_>, fb_ops: &[u8], tag: &str) -> RunOut {
    let dir = ctx.base.join(tag);
    remove_tree(&dir);
    let mut out = RunOut {
        prog: Vec::new(),
        violations: Vec::new(),
        trouble: None,
        fatal: false,
    };
    let roots: Vec<PathBuf> = std::iter::once("ref").chain(VARIANTS).map(|n| dir.join(n)).collect();
    for r in &roots {
        if let Err(e) = make_tree(r) {
            out.trouble = Some(format!("cannot create the initial tree: {e}"));
            remove_tree(&dir);
            return out;
        }
    }
    let mut rw = RefWorld::new(roots[0].clone());
    let mut cws: Vec<Option<CWorld>> = roots[1..].iter().map(|r| Some(CWorld::new(r.clone()))).collect();
    let mut step = 0usize;
    let fd0 = fd_identity(0);
    'steps: loop {
        let n_alive = cws.iter().filter(|c| c.is_some()).count();
        if n_alive == 0 {
            break;
        }
        let op = match &mut src {
            Source::Gen { rng, n } => {
                if step >= *n {
                    break;
                }
                let salt = (rng.next_u64() & 0xffff) as u32;
                gen_op(rng, &rw, salt)
            }
            Source::Fixed(ops) => match ops.get(step) {
                Some(o) => o.clone(),
                None => break,
            },
        };
        out.prog.push(op.clone());
        let label = rw.op_label(&op);
        if ctx.trace {
            eprintln!("[{tag}] step {step}: {}", op.to_json());
        }
        // classes for the evaluation signature, from the state before the step
        let size_before = match op.k {
            OK::ReadAt | OK::ReadVAt | OK::WriteAt | OK::WriteVAt | OK::SpliceIn | OK::SpliceOut | OK::SetLen => {
                rw.slot_info(op.h).map(|x| x.0).unwrap_or(0)
            }
            _ => 0,
        };
        ctx.sh.beat(|| format!("{label} on ref"));
        let want = match panics::catch(|| rw.exec(&op)) {
            Ok(Outcome::Done(o)) => o,
            Ok(Outcome::Skip(why)) => {
                if ctx.record {
                    ctx.sh.rep(|r| {
                        r.eval(None);
                        r.count(&format!("skipped: {why}"), 1);
                    });
                }
                step += 1;
                continue;
            }
            Ok(Outcome::Broken { what, .. }) => {
                out.trouble = Some(format!("reference executor: {what}"));
                break;
            }
            Err(p) => {
                out.trouble = Some(format!("reference executor panicked at {}:{}: {}", p.file, p.line, p.message));
                break;
            }
        };
        let is_read = matches!(op.k, OK::ReadAt | OK::ReadVAt | OK::PipeRead | OK::PipeReadV | OK::PipeAppend);
        let shape = match &op.buf {
            // the buffer is irrelevant for the offset classes compio cannot express
            Some(_) if label.ends_with("2^63)") => "-".into(),
            // and its layout is irrelevant when the I/O window is empty
            Some(b) if (if is_read { b.read_capacity() } else { b.write_len() }) == 0 && op.k != OK::PipeAppend => {
                "zero-window".into()
            }
            Some(b) => b.class(),
            None => "-".into(),
        };
        let mut fails: Fails = Vec::new();
        let mut got: Vec<Option<StepObs>> = Vec::new();
        let mut fb_routes = 0u64;
        for (vi, v) in ctx.variants.iter().enumerate() {
            let Some(cw) = cws[vi].as_mut() else {
                got.push(None);
                continue;
            };
            ctx.sh.beat(|| format!("{label} on {}", v.name));
            if ctx.trace {
                eprintln!("[{tag}]   -> {}", v.name);
            }
            if v.fallback {
                force_fallback(fb_ops, true);
                verif::enable(true);
            }
            let r = panics::catch(|| v.rt.block_on(cw.exec(&op)));
            if v.fallback {
                verif::enable(false);
                force_fallback(fb_ops, false);
                fb_routes += verif::drain().iter().filter(|e| e.kind == verif::Kind::Submit && e.b == 2).count() as u64;
            }
            // compio must not have closed or replaced a descriptor it does
            // not own (descriptor 0 is the harness's /dev/null)
            let fd0_now = fd_identity(0);
            if fd0_now != fd0 {
                if fd0_now.is_none() {
                    unsafe { libc::open(c"/dev/null".as_ptr(), libc::O_RDWR) };
                }
                if fd_identity(0) != fd0 {
                    out.trouble = Some(format!(
                        "descriptor table corrupted during {label} on {} (descriptor 0 replaced); stopping this process",
                        v.name
                    ));
                    out.fatal = true;
                    break 'steps;
                }
                let r = match r {
                    Ok(Outcome::Done(o)) => format!("{}", o.res.show()),
                    Ok(_) => "no result".to_string(),
                    Err(p) => format!("panic: {}", p.message),
                };
                got.push(None);
                add(
                    &mut fails,
                    "foreign-descriptor-closed",
                    vi,
                    format!("{} closed descriptor 0, which it never opened, during this step (result {r})", v.name),
                );
                continue;
            }
            match r {
                Ok(Outcome::Done(o)) => got.push(Some(o)),
                Ok(Outcome::Skip(why)) => {
                    got.push(None);
                    add(&mut fails, "handle-state", vi, format!("the reference executed the step, {} skipped it: {why}", v.name));
                }
                Ok(Outcome::Broken { rule, what }) => {
                    got.push(None);
                    add(&mut fails, rule, vi, format!("{}: {what}", v.name));
                }
                Err(p) => {
                    got.push(None);
                    match p.origin() {
                        panics::Origin::Repo(loc) => {
                            // a panic is its own class: report right away
                            out.violations.push(Violation {
                                sig: format!("C08/{}/{label}/{}/{shape}", p.sig(), v.name),
                                what: format!(
                                    "step {step} {}: panic in compio at {loc} on {}: {}",
                                    op.to_json(),
                                    v.name,
                                    p.message
                                ),
                                step,
                            });
                            let w = cws[vi].take();
                            std::mem::forget(w);
                        }
                        o => {
                            out.trouble =
                                Some(format!("harness panic {o:?} during {label} on {}: {}", v.name, p.message));
                            break 'steps;
                        }
                    }
                }
            }
        }
        // ---- compare this step
        let mut cmp_spec = op.buf.clone();
        if op.k == OK::PipeAppend && let Some(s) = cmp_spec.as_mut() {
            s.kind = BK::Uninit;
        }
        for (vi, v) in ctx.variants.iter().enumerate() {
            let Some(g) = &got[vi] else { continue };
            if !want.res.matches(&g.res) {
                add(
                    &mut fails,
                    "result",
                    vi,
                    format!("reference {} but {} returned {}", want.res.show(), v.name, g.res.show()),
                );
                continue;
            }
            if let (Some(spec), Some(wb), Some(gb)) = (&cmp_spec, &want.bufs, &g.bufs)
                && let Some((rule, what)) = compare_bufs(spec, is_read, want.res.ok().map(|n| n as usize), wb, gb)
            {
                add(&mut fails, rule, vi, format!("{}: {what}", v.name));
                continue;
            }
            if want.meta != g.meta {
                add(
                    &mut fails,
                    "metadata",
                    vi,
                    format!("reference {:?} but {} returned {:?}", want.meta, v.name, g.meta),
                );
                continue;
            }
            if want.data != g.data {
                add(
                    &mut fails,
                    "data",
                    vi,
                    format!(
                        "{} returned {} bytes that differ from the reference's {} bytes",
                        v.name,
                        g.data.as_ref().map_or(0, |d| d.len()),
                        want.data.as_ref().map_or(0, |d| d.len())
                    ),
                );
            }
        }
        // member lengths that the documented semantics leave open must still
        // agree between the drivers
        if is_read
            && let Some(spec) = &cmp_spec
            && !spec.read_len_exact()
        {
            let lens: Vec<Option<Vec<usize>>> = got
                .iter()
                .enumerate()
                .map(|(vi, g)| {
                    if fails.iter().any(|f| f.1 == vi) {
                        return None;
                    }
                    g.as_ref().and_then(|g| g.bufs.as_ref()).map(|b| b.iter().map(|m| m.len).collect())
                })
                .collect();
            if let Some((first, l0)) = lens.iter().enumerate().find_map(|(i, l)| l.as_ref().map(|l| (i, l.clone()))) {
                for (vi, l) in lens.iter().enumerate().skip(first + 1) {
                    if let Some(l) = l
                        && *l != l0
                    {
                        add(
                            &mut fails,
                            "buffer-len-between-drivers",
                            vi,
                            format!("member lengths {:?} on {} but {:?} on {}", l, VARIANTS[vi], l0, VARIANTS[first]),
                        );
                    }
                }
            }
        }
        if op.mutating() {
            ctx.sh.beat(|| format!("snapshot after {label}"));
            let want_snap = snapshot(&roots[0]);
            for (vi, v) in ctx.variants.iter().enumerate() {
                if got[vi].is_none() || fails.iter().any(|f| f.1 == vi) {
                    continue;
                }
                if let Some(d) = diff_snapshots(&want_snap, &snapshot(&roots[vi + 1])) {
                    add(&mut fails, "fs-state", vi, format!("tree of {} after the step: {d}", v.name));
                }
            }
        }
        let clean = fails.is_empty();
        // A disagreement on a step that changes nothing (neither the tree nor
        // a pipe nor the handle table) leaves the variant comparable.
        let stateless = matches!(
            op.k,
            OK::ReadAt | OK::ReadVAt | OK::Meta | OK::PMeta | OK::PSymMeta | OK::FsRead | OK::SyncAll | OK::SyncData
        );
        for (rule, vi, what) in fails {
            {
                // one signature per driver variant: stable whichever other
                // variants are still part of this program
                out.violations.push(Violation {
                    sig: format!("C08/{rule}/{label}/{}/{shape}", VARIANTS[vi]),
                    what: format!("step {step} {}: {what}", op.to_json()),
                    step,
                });
                let mut keep = stateless && got[vi].is_some();
                if !keep
                    && rule == "result"
                    && let (Some(g), Some(cw)) = (&got[vi], cws[vi].as_ref())
                {
                    // try to bring the variant's files and pipes back in line
                    // with the reference (harness-side syscalls only)
                    ctx.sh.beat(|| format!("resync after {label} on {}", VARIANTS[vi]));
                    let done = match op.k {
                        OK::SpliceIn | OK::SpliceOut if g.res.ok().is_none() => {
                            let (prx, ptx) = cw.pipe_fds(op.h2);
                            let pfd = if op.k == OK::SpliceIn { ptx } else { prx };
                            match (cw.file_fd(op.h), pfd, want.res.ok()) {
                                (Some(f), Some(p), Some(n)) => redo_splice(&op, f, p).ok() == Some(n as usize),
                                _ => false,
                            }
                        }
                        OK::WriteAt | OK::WriteVAt | OK::SetLen => match (rw.file_fd(op.h), cw.file_fd(op.h)) {
                            (Some(a), Some(b)) => copy_fd_content(a, b),
                            _ => false,
                        },
                        _ => false,
                    };
                    if done
                        && diff_snapshots(&snapshot(&roots[0]), &snapshot(&roots[vi + 1])).is_none()
                        && (0..NP).all(|k| {
                            let a = cw.pipe_avail(k);
                            a.is_none() || a == Some(rw.pipe_avail(k))
                        })
                    {
                        keep = true;
                        if ctx.record {
                            ctx.sh.rep(|r| r.count("variant-resynchronised-after-violation", 1));
                        }
                    }
                }
                if !keep {
                    // the variant's state is no longer comparable
                    if ctx.record {
                        ctx.sh.rep(|r| r.count("variant-dropped-after-violation", 1));
                    }
                    let w = cws[vi].take();
                    if matches!(rule, "open-wrong-file" | "pipe-wrong-descriptors" | "foreign-descriptor-closed") {
                        // its handles may own descriptors they should not: leak, not close
                        std::mem::forget(w);
                    } else {
                        ctx.variants[vi].rt.enter(|| drop(w));
                    }
                }
            }
        }
        if ctx.record && clean {
            let full = op.buf.as_ref().map(|b| if is_read { b.read_capacity() } else { b.write_len() });
            let offc = match op.k {
                OK::ReadAt | OK::ReadVAt | OK::WriteAt | OK::WriteVAt | OK::SpliceIn | OK::SpliceOut => {
                    offset_class(op.off, size_before)
                }
                OK::SetLen => offset_class(op.n, size_before),
                _ => "-",
            };
            let extra = match op.k {
                OK::Open => format!("{:02x}/{}", op.fl & 0x3f, custom_name(op.c)),
                OK::PipeOpen => format!("{:x}", op.fl),
                _ => String::new(),
            };
            let sig = format!(
                "{label}|{shape}{extra}|{offc}|{}|{}",
                full.map_or("-", len_class),
                want.res.class(full)
            );
            ctx.sh.rep(|r| {
                r.eval(Some(sig));
                match (&want.res, full) {
                    (Res::Ok(0), Some(f)) if is_read && f > 0 => r.floor("read-returned-0-at-eof", true),
                    (Res::Ok(n), Some(f)) if is_read && (*n as usize) < f => r.floor("short-read", true),
                    (Res::Err { .. }, _) => r.floor("error-outcome-compared", true),
                    _ => {}
                }
                r.count(&format!("compared-with-{n_alive}-drivers"), 1);
                if op.mutating() {
                    r.count("tree-snapshots-compared", 1);
                }
                if fb_routes > 0 {
                    r.floor("fallback-route-taken", true);
                    r.count(&format!("fallback-route: {}", op.k.name()), fb_routes as i64);
                }
                if let Some(b) = &op.buf {
                    r.max("max-buffer-bytes", b.m.iter().map(|m| m.1).sum::<usize>() as i64);
                }
            });
        }
        step += 1;
    }
    drop(rw);
    // drop compio handles inside their runtime
    for (v, cw) in ctx.variants.iter().zip(cws.into_iter()) {
        v.rt.enter(|| drop(cw));
    }
    remove_tree(&dir);
    out
}

fn prog_json(prog: &[Op], fb_ops: &[u8]) -> Value {
    json!({"tree": 1, "fb": fb_ops, "ops": prog.iter().map(|o| o.to_json()).collect::<Vec<_>>()})
}

fn prog_from_json(v: &Value) -> (Vec<Op>, Vec<u8>) {
    let ops = v["ops"].as_array().map(|a| a.iter().filter_map(Op::from_json).collect()).unwrap_or_default();
    let fb = v["fb"]
        .as_array()
        .map(|a| a.iter().filter_map(|x| x.as_u64().map(|x| x as u8)).filter(|c| FALLBACK_OPS.contains(c)).collect())
        .unwrap_or_else(|| FALLBACK_OPS.to_vec());
    (ops, fb)
}

/// Do two steps touch the same handle slot, pipe slot or path?
fn related(a: &Op, b: &Op) -> bool {
    let slots = |o: &Op| -> (Option<usize>, Option<usize>) {
        // (file slot, pipe slot)
        match o.k {
            OK::SpliceIn | OK::SpliceOut => (Some(o.h), Some(o.h2)),
            _ if o.is_pipe_op() => (None, Some(o.h)),
            OK::Open
            | OK::Close
            | OK::ReadAt
            | OK::ReadVAt
            | OK::WriteAt
            | OK::WriteVAt
            | OK::SetLen
            | OK::SyncAll
            | OK::SyncData
            | OK::Meta
            | OK::SetPerm => (Some(o.h), None),
            _ => (None, None),
        }
    };
    let (fa, pa) = slots(a);
    let (fb, pb) = slots(b);
    if (fa.is_some() && fa == fb) || (pa.is_some() && pa == pb) {
        return true;
    }
    let paths = |o: &Op| -> Vec<String> {
        [&o.p, &o.q]
            .into_iter()
            .filter(|s| !s.is_empty())
            .map(|s| s.split('/').next().unwrap_or("").to_string())
            .collect()
    };
    let pa = paths(a);
    paths(b).iter().any(|x| pa.contains(x))
}

/// Shrink the program, keeping the violation signature: first one trial
/// with only the steps related to the failing one (transitively, backwards),
/// then greedy one-step removal.
fn minimise(ctx: &Ctx<'_>, prog: &[Op], fb_ops: &[u8], viol: &Violation, budget: usize) -> Vec<Op> {
    let quiet = Ctx {
        sh: ctx.sh,
        variants: ctx.variants,
        base: ctx.base,
        record: false,
        trace: false,
    };
    let mut cur: Vec<Op> = prog[..=viol.step.min(prog.len() - 1)].to_vec();
    if budget == 0 || cur.len() < 2 {
        return cur;
    }
    let reproduces = |cand: &[Op]| -> Option<bool> {
        let r = run_program(&quiet, Source::Fixed(cand), fb_ops, "min");
        if r.fatal {
            return None;
        }
        Some(r.trouble.is_none() && r.violations.iter().any(|v| v.sig == viol.sig))
    };
    let mut trials = 0;
    // dependency slice
    let last = cur.len() - 1;
    let mut keep = vec![false; cur.len()];
    keep[last] = true;
    for i in (0..last).rev() {
        if (i + 1..=last).any(|j| keep[j] && related(&cur[i], &cur[j])) {
            keep[i] = true;
        }
    }
    if keep.iter().any(|k| !k) {
        let cand: Vec<Op> = cur.iter().zip(keep.iter()).filter(|x| *x.1).map(|x| x.0.clone()).collect();
        trials += 1;
        match reproduces(&cand) {
            None => return cur,
            Some(true) => cur = cand,
            Some(false) => {}
        }
    }
    let mut i = cur.len().saturating_sub(1);
    while i > 0 && trials < budget {
        if ctx.sh.rep(|r| r.out_of_time()) {
            break;
        }
        i -= 1;
        let mut cand = cur.clone();
        cand.remove(i);
        trials += 1;
        match reproduces(&cand) {
            None => break,
            Some(true) => cur = cand,
            Some(false) => {}
        }
    }
    cur
}

// ---------------------------------------------------------------------------
// entry
// ---------------------------------------------------------------------------

pub fn main(args: &Args) {
    // descriptors 0..2 must be taken, so that a descriptor mix-up inside
    // compio shows up deterministically instead of hitting a random file
    // (stdin is not needed: make it /dev/null so that it can be restored).
    unsafe {
        let n = libc::open(c"/dev/null".as_ptr(), libc::O_RDWR);
        if n != 0 {
            libc::dup2(n, 0);
            libc::close(n);
        }
        for fd in 1..3 {
            if libc::fcntl(fd, libc::F_GETFD) == -1 {
                libc::open(c"/dev/null".as_ptr(), libc::O_RDWR);
            }
        }
    }
    let leg = args.str("leg", "plain");
    let sh = Arc::new(Shared {
        rep: Mutex::new(Report::from_args("C08", &leg, args)),
        beat: AtomicU64::new(0),
        what: Mutex::new(String::from("start")),
        done: AtomicBool::new(false),
    });
    unsafe {
        libc::umask(0o022);
        // descriptors of abandoned variants are leaked on purpose in rare cases
        let mut rl: libc::rlimit = std::mem::zeroed();
        if libc::getrlimit(libc::RLIMIT_NOFILE, &mut rl) == 0 && rl.rlim_cur < rl.rlim_max {
            rl.rlim_cur = rl.rlim_max.min(65536);
            libc::setrlimit(libc::RLIMIT_NOFILE, &rl);
        }
    }
    let tmp_root = if std::path::Path::new("/dev/shm").is_dir() { "/dev/shm" } else { "/tmp" };
    let base = PathBuf::from(tmp_root).join(format!("c08-{}-{}", std::process::id(), args.shard()));
    remove_tree(&base);
    // work directories of killed predecessors (process no longer exists)
    if let Ok(rd) = std::fs::read_dir(tmp_root) {
        for e in rd.flatten() {
            let name = e.file_name().to_string_lossy().into_owned();
            if let Some(rest) = name.strip_prefix("c08-")
                && let Some(pid) = rest.split('-').next().and_then(|p| p.parse::<u32>().ok())
                && !std::path::Path::new(&format!("/proc/{pid}")).exists()
            {
                remove_tree(&e.path());
            }
        }
    }
    if let Err(e) = std::fs::create_dir_all(&base) {
        sh.rep(|r| {
            r.inconclusive(&format!("cannot create work directory under {tmp_root}: {}", e.kind()));
            r.finish();
        });
        return;
    }
    start_watchdog(sh.clone(), Duration::from_secs(args.u64("watchdog-s", 20)), base.clone());

    let variants = match build_variants() {
        Ok(v) => v,
        Err(e) => {
            sh.rep(|r| {
                r.inconclusive(&format!("cannot build the driver variants here: {e}"));
                r.finish();
            });
            remove_tree(&base);
            return;
        }
    };
    let ctx = Ctx {
        sh: &sh,
        variants: &variants,
        base: &base,
        record: true,
        trace: args.flag("trace"),
    };
    sh.rep(|r| {
        r.note(format!(
            "executors: ref (libc/std::fs), iour, poll, iour-fb (forced unsupported per program: random subset of {FALLBACK_OPS:?}); trees under {tmp_root}; euid {}",
            unsafe { libc::geteuid() }
        ));
        r.floor("fallback-route-taken", false);
        r.floor("short-read", false);
        r.floor("read-returned-0-at-eof", false);
        r.floor("error-outcome-compared", false);
    });

    if let Some(path) = args.get("replay") {
        let text = std::fs::read_to_string(path).expect("replay file");
        let v: Value = vcommon::serde_json::from_str(&text).expect("replay json");
        let (prog, fb) = prog_from_json(&v["program"]);
        let out = run_program(&ctx, Source::Fixed(&prog), &fb, "replay");
        sh.rep(|r| {
            if let Some(t) = &out.trouble {
                r.inconclusive(t);
            }
            for v in &out.violations {
                r.violation(&v.sig, &v.what, prog_json(&out.prog[..=v.step.min(out.prog.len() - 1)], &fb));
            }
        });
    } else {
        let iters = args.iters(400, 4000);
        let max_steps = args.usize("steps", 40);
        let min_budget = args.usize("min-trials", 24);
        let base_rng = Rng::new(args.seed()).fork(args.shard() + 1);
        let mut seen: HashSet<String> = HashSet::new();
        for i in 0..iters {
            if sh.rep(|r| r.out_of_time()) {
                break;
            }
            let mut rng = base_rng.fork(i as u64);
            let n = 6 + rng.below(max_steps.max(7) - 6);
            let fb: Vec<u8> = match rng.below(4) {
                0 => FALLBACK_OPS.to_vec(),
                1 => FALLBACK_OPS.iter().copied().filter(|c| *c != IORING_OP_OPENAT).collect(),
                _ => FALLBACK_OPS.iter().copied().filter(|_| rng.chance(2, 3)).collect(),
            };
            let out = run_program(&ctx, Source::Gen { rng: &mut rng, n }, &fb, "p");
            sh.rep(|r| r.count("programs", 1));
            if let Some(t) = &out.trouble {
                sh.rep(|r| r.inconclusive(t));
            }
            if out.fatal {
                // leak everything; closing descriptors now could hit foreign ones
                sh.done.store(true, Ordering::SeqCst);
                sh.rep(|r| r.finish());
                std::process::exit(0);
            }
            for v in &out.violations {
                let first = seen.insert(v.sig.clone());
                let prog = if first {
                    minimise(&ctx, &out.prog, &fb, v, min_budget)
                } else {
                    out.prog[..=v.step].to_vec()
                };
                sh.rep(|r| {
                    r.eval(None);
                    r.violation(&v.sig, &v.what, prog_json(&prog, &fb));
                });
            }
            if out.violations.is_empty() && sh.rep(|r| r.want_sample()) && out.prog.len() >= 8 {
                sh.rep(|r| r.sample(prog_json(&out.prog[..8], &fb)));
            }
        }
    }
    sh.done.store(true, Ordering::SeqCst);
    drop(variants);
    remove_tree(&base);
    sh.rep(|r| r.finish());
}
