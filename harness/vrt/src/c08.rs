//! C08 file and pipe I/O matches the OS on every driver — not built yet.

use vcommon::Args;

pub fn main(_args: &Args) {
    eprintln!("c08: not implemented");
    std::process::exit(3);
}
