//! C08 buffers: shape specifications, the independent shadow model of what an
//! I/O operation may touch (documented semantics of `IoBuf`/`IoBufMut`:
//! writes take `as_init()`, reads fill `as_uninit()` from its start and are
//! recorded with `advance_to(n)` / `advance_vec_to(n)`), and constructors of
//! the real compio-buf objects with fully patterned stores so that every byte
//! outside the I/O window is checkable.

use compio_buf::{
    IntoInner, IoBufExt, IoBufMutExt, IoVectoredBuf, Slice, Uninit, VectoredSlice,
    bytes::{Bytes, BytesMut},
};
use vcommon::{Value, json};

/// Static source for `&'static [u8]` / `&'static str` write buffers.
pub const PAT_LEN: usize = 8192;
pub static STATIC_PAT: [u8; PAT_LEN] = {
    let mut a = [0u8; PAT_LEN];
    let mut i = 0;
    while i < PAT_LEN {
        a[i] = ((i * 131 + (i >> 8) * 17 + 5) & 0xff) as u8;
        i += 1;
    }
    a
};
pub static STATIC_STR: &str = "The quick brown fox jumps over the lazy dog. 0123456789 ABCDEFGHIJKLMNOPQRSTUVWXYZ \
    Sphinx of black quartz, judge my vow! Pack my box with five dozen liquor jugs; how vexingly quick daft zebras jump. \
    abcdefghijklmnopqrstuvwxyz ~!@#$%^&*()_+ the five boxing wizards jump quickly -- end of the static text pattern....";

#[derive(Clone, Copy, Debug, PartialEq, Eq)]
pub enum BK {
    // scalar
    Vec,
    Arr,
    Box,
    Slice,
    Uninit,
    BytesMut,
    // scalar, write only
    Static,
    Str,
    String,
    Bytes,
    // vectored
    VecVec,
    Arr3,
    Tuple,
    VecBox,
    // vectored, write only
    VecStatic,
    VSlice,
}

const BK_NAMES: &[(BK, &str)] = &[
    (BK::Vec, "vec"),
    (BK::Arr, "arr"),
    (BK::Box, "box"),
    (BK::Slice, "slice"),
    (BK::Uninit, "uninit"),
    (BK::BytesMut, "bytesmut"),
    (BK::Static, "static"),
    (BK::Str, "str"),
    (BK::String, "string"),
    (BK::Bytes, "bytes"),
    (BK::VecVec, "vecvec"),
    (BK::Arr3, "arr3"),
    (BK::Tuple, "tuple"),
    (BK::VecBox, "vecbox"),
    (BK::VecStatic, "vecstatic"),
    (BK::VSlice, "vslice"),
];

impl BK {
    pub fn name(self) -> &'static str {
        BK_NAMES.iter().find(|x| x.0 == self).map(|x| x.1).unwrap_or("?")
    }

    pub fn parse(s: &str) -> Option<BK> {
        BK_NAMES.iter().find(|x| x.1 == s).map(|x| x.0)
    }

    pub fn vectored(self) -> bool {
        matches!(self, BK::VecVec | BK::Arr3 | BK::Tuple | BK::VecBox | BK::VecStatic | BK::VSlice)
    }
}

/// Sizes for which `[u8; N]` buffers are instantiated.
pub const ARR_SIZES: [usize; 4] = [1, 16, 64, 4096];
/// Size of the array member of the tuple shape `(Vec<u8>, ([u8; 8],))`.
pub const TUPLE_ARR: usize = 8;

#[derive(Clone, Debug, PartialEq, Eq)]
pub struct BufSpec {
    pub kind: BK,
    /// Members as (len, cap). Fixed-size kinds have len == cap.
    pub m: Vec<(usize, usize)>,
    /// `slice(b..e)` / `slice(b)` / offset into the static pattern.
    pub b: usize,
    pub e: Option<usize>,
    pub salt: u32,
}

#[derive(Clone, Debug, PartialEq, Eq)]
pub struct MemObs {
    pub len: usize,
    /// All `cap` bytes of the member's allocation.
    pub store: Vec<u8>,
}

pub type BufObs = Vec<MemObs>;

pub fn pat(salt: u32, mi: usize, j: usize) -> u8 {
    let x = (salt as usize).wrapping_mul(0x9E37) ^ mi.wrapping_mul(0x3D) ^ j.wrapping_mul(7) ^ (j >> 8).wrapping_mul(0x55);
    (x as u8) | 0x80 // file seed content has the high bit clear, buffer patterns have it set
}

fn ascii(salt: u32, j: usize) -> u8 {
    b'a' + ((salt as usize + j * 3 + (j >> 5)) % 26) as u8
}

impl BufSpec {
    pub fn to_json(&self) -> Value {
        json!({"kind": self.kind.name(), "m": self.m.iter().map(|x| json!([x.0, x.1])).collect::<Vec<_>>(),
               "b": self.b, "e": self.e, "salt": self.salt})
    }

    pub fn from_json(v: &Value) -> Option<BufSpec> {
        let kind = BK::parse(v["kind"].as_str()?)?;
        let m = v["m"]
            .as_array()?
            .iter()
            .map(|x| (x[0].as_u64().unwrap_or(0) as usize, x[1].as_u64().unwrap_or(0) as usize))
            .collect();
        Some(BufSpec {
            kind,
            m,
            b: v["b"].as_u64().unwrap_or(0) as usize,
            e: v["e"].as_u64().map(|x| x as usize),
            salt: v["salt"].as_u64().unwrap_or(0) as u32,
        })
    }

    /// Bring a specification into the domain the constructors support
    /// (needed because replay files and the minimiser may hand in anything).
    pub fn normalise(&mut self) {
        for x in self.m.iter_mut() {
            x.1 = x.1.min(1 << 20);
            x.0 = x.0.min(x.1);
        }
        let one = |m: &mut Vec<(usize, usize)>| {
            if m.is_empty() {
                m.push((0, 0));
            }
            m.truncate(1);
        };
        match self.kind {
            BK::Vec | BK::Uninit | BK::BytesMut | BK::String => one(&mut self.m),
            BK::Bytes => {
                // `Bytes` exposes its initialised part only
                one(&mut self.m);
                self.m[0].1 = self.m[0].0;
            }
            BK::Arr => {
                one(&mut self.m);
                let n = ARR_SIZES.iter().copied().find(|n| *n >= self.m[0].1).unwrap_or(ARR_SIZES[ARR_SIZES.len() - 1]);
                self.m[0] = (n, n);
            }
            BK::Box => {
                one(&mut self.m);
                self.m[0].0 = self.m[0].1;
            }
            BK::Static => {
                one(&mut self.m);
                let n = self.m[0].1.min(PAT_LEN);
                self.m[0] = (n, n);
                self.b = self.b.min(PAT_LEN - n);
            }
            BK::Str => {
                one(&mut self.m);
                let n = self.m[0].1.min(STATIC_STR.len());
                self.m[0] = (n, n);
                self.b = self.b.min(STATIC_STR.len() - n);
            }
            BK::Slice => {
                one(&mut self.m);
                // `slice` panics if begin > buf_len or end < begin
                self.b = self.b.min(self.m[0].0);
                if let Some(e) = self.e {
                    self.e = Some(e.max(self.b));
                }
            }
            BK::VecVec => self.m.truncate(6),
            BK::Arr3 => self.m.resize(3, (0, 0)),
            BK::Tuple => {
                self.m.resize(2, (0, 0));
                self.m[1] = (TUPLE_ARR, TUPLE_ARR);
            }
            BK::VecBox => {
                self.m.truncate(6);
                for x in self.m.iter_mut() {
                    x.0 = x.1;
                }
            }
            BK::VecStatic => {
                self.m.truncate(6);
                for x in self.m.iter_mut() {
                    let n = x.1.min(256);
                    *x = (n, n);
                }
            }
            BK::VSlice => {
                self.m.truncate(6);
                let total: usize = self.m.iter().map(|x| x.0).sum();
                self.b = self.b.min(total);
            }
        }
    }

    pub fn vectored(&self) -> bool {
        self.kind.vectored()
    }

    /// Initial content of every member's allocation.
    pub fn model(&self) -> BufObs {
        self.m
            .iter()
            .enumerate()
            .map(|(mi, (len, cap))| MemObs {
                len: *len,
                store: match self.kind {
                    BK::Static => STATIC_PAT[self.b..self.b + cap].to_vec(),
                    BK::VecStatic => STATIC_PAT[mi * 300..mi * 300 + cap].to_vec(),
                    BK::Str => STATIC_STR.as_bytes()[self.b..self.b + cap].to_vec(),
                    BK::String => (0..*cap).map(|j| ascii(self.salt, j)).collect(),
                    _ => (0..*cap).map(|j| pat(self.salt, mi, j)).collect(),
                },
            })
            .collect()
    }

    /// Where a read lands: (member, start, end) in `as_uninit()` order.
    pub fn read_regions(&self) -> Vec<(usize, usize, usize)> {
        match self.kind {
            BK::Slice => {
                let (_, cap) = self.m[0];
                let end = self.e.unwrap_or(cap).min(cap);
                vec![(0, self.b.min(end), end)]
            }
            BK::Uninit => vec![(0, self.m[0].0, self.m[0].1)],
            _ => self.m.iter().enumerate().map(|(i, (_, cap))| (i, 0, *cap)).collect(),
        }
    }

    /// What a write sends: (member, start, end) in `as_init()` order.
    pub fn write_regions(&self) -> Vec<(usize, usize, usize)> {
        match self.kind {
            BK::Slice => {
                let (len, _) = self.m[0];
                let end = self.e.unwrap_or(len).min(len);
                vec![(0, self.b.min(end), end)]
            }
            BK::Uninit => vec![(0, self.m[0].0, self.m[0].0)],
            BK::VSlice => {
                let mut skip = self.b;
                let mut out = Vec::new();
                let mut started = false;
                for (i, (len, _)) in self.m.iter().enumerate() {
                    if !started {
                        if *len > skip {
                            started = true;
                            out.push((i, skip, *len));
                        } else {
                            skip -= len;
                        }
                    } else {
                        out.push((i, 0, *len));
                    }
                }
                out
            }
            _ => self.m.iter().enumerate().map(|(i, (len, _))| (i, 0, *len)).collect(),
        }
    }

    /// Initialised bytes come before all spare capacity in iteration order.
    /// Only then does "set the total length to n" have one meaning; for other
    /// layouts the member lengths are compared between drivers only.
    pub fn prefix_shaped(&self) -> bool {
        let mut seen_spare = false;
        for (len, cap) in &self.m {
            if seen_spare && *len > 0 {
                return false;
            }
            if len < cap {
                seen_spare = true;
            }
        }
        true
    }

    /// Are the member lengths after a read fully determined by the documented
    /// semantics?
    pub fn read_len_exact(&self) -> bool {
        !self.vectored() || self.prefix_shaped()
    }

    /// Record `n` bytes read into the model's lengths.
    pub fn apply_read(&self, model: &mut BufObs, n: usize) {
        if !self.vectored() {
            let (mi, start, _) = self.read_regions()[0];
            let fixed = matches!(self.kind, BK::Arr | BK::Box);
            if !fixed {
                // advance_to(n): grows, never shrinks
                model[mi].len = model[mi].len.max(start + n);
            }
            return;
        }
        // vectored: total length becomes max(total, n), filled front to back
        let total: usize = self.m.iter().map(|x| x.0).sum();
        if n <= total {
            return;
        }
        let mut left = n;
        for (i, (_, cap)) in self.m.iter().enumerate() {
            if left == 0 {
                break;
            }
            let k = left.min(*cap);
            if !matches!(self.kind, BK::VecBox) && !(self.kind == BK::Tuple && i == 1) {
                model[i].len = model[i].len.max(k);
            }
            left -= k;
        }
    }

    /// Class string used in signatures.
    pub fn class(&self) -> String {
        let rel = |len: usize, cap: usize| {
            if cap == 0 {
                "empty"
            } else if len == 0 {
                "len0"
            } else if len < cap {
                "len<cap"
            } else {
                "len=cap"
            }
        };
        match self.kind {
            BK::Vec | BK::BytesMut | BK::Uninit | BK::String | BK::Bytes => {
                format!("{}:{}", self.kind.name(), rel(self.m[0].0, self.m[0].1))
            }
            BK::Slice => format!(
                "slice:{}:{}{}",
                rel(self.m[0].0, self.m[0].1),
                if self.b == 0 { "0" } else { "b" },
                match self.e {
                    None => "..",
                    Some(e) if e <= self.m[0].0 => "..e<=len",
                    Some(e) if e <= self.m[0].1 => "..e<=cap",
                    Some(_) => "..e>cap",
                }
            ),
            BK::Arr | BK::Box | BK::Static | BK::Str => {
                format!("{}:{}", self.kind.name(), if self.m[0].1 == 0 { "empty" } else { "full" })
            }
            _ => {
                let zero = self.m.iter().any(|x| x.1 == 0);
                let shape = if self.m.is_empty() {
                    "none"
                } else if self.m.iter().all(|x| x.0 == x.1) {
                    "allfull"
                } else if self.m.iter().all(|x| x.0 == 0) {
                    "alllen0"
                } else if self.prefix_shaped() {
                    "prefix"
                } else {
                    "mixed"
                };
                format!(
                    "{}:{}{}{}",
                    self.kind.name(),
                    shape,
                    if zero { "+zero" } else { "" },
                    if self.kind == BK::VSlice && self.b > 0 { "+b" } else { "" }
                )
            }
        }
    }

    pub fn read_capacity(&self) -> usize {
        self.read_regions().iter().map(|r| r.2 - r.1).sum()
    }

    pub fn write_len(&self) -> usize {
        self.write_regions().iter().map(|r| r.2 - r.1).sum()
    }
}

// ---------------------------------------------------------------------------
// real buffers
// ---------------------------------------------------------------------------

pub fn mk_vec(spec: &BufSpec, mi: usize) -> Vec<u8> {
    let (len, cap) = spec.m[mi];
    let mut v: Vec<u8> = Vec::with_capacity(cap);
    assert_eq!(v.capacity(), cap, "Vec::with_capacity is not exact");
    if spec.kind == BK::String {
        v.extend((0..cap).map(|j| ascii(spec.salt, j)));
    } else {
        v.extend((0..cap).map(|j| pat(spec.salt, mi, j)));
    }
    assert_eq!(v.capacity(), cap);
    // shrinking keeps the bytes in the spare capacity
    unsafe { v.set_len(len) };
    v
}

pub fn obs_vec(v: &Vec<u8>) -> MemObs {
    MemObs {
        len: v.len(),
        // all bytes up to the capacity were initialised by `mk_vec`
        store: unsafe { std::slice::from_raw_parts(v.as_ptr(), v.capacity()) }.to_vec(),
    }
}

pub fn mk_bytesmut(spec: &BufSpec) -> BytesMut {
    let (len, cap) = spec.m[0];
    let mut b = BytesMut::with_capacity(cap);
    assert_eq!(b.capacity(), cap, "BytesMut::with_capacity is not exact");
    b.extend((0..cap).map(|j| pat(spec.salt, 0, j)));
    assert_eq!(b.capacity(), cap);
    unsafe { b.set_len(len) };
    b
}

pub fn obs_bytesmut(b: &BytesMut) -> MemObs {
    MemObs {
        len: b.len(),
        store: unsafe { std::slice::from_raw_parts(b.as_ptr(), b.capacity()) }.to_vec(),
    }
}

pub fn mk_arr<const N: usize>(spec: &BufSpec, mi: usize) -> [u8; N] {
    let mut a = [0u8; N];
    for (j, x) in a.iter_mut().enumerate() {
        *x = pat(spec.salt, mi, j);
    }
    a
}

pub fn obs_fixed(s: &[u8]) -> MemObs {
    MemObs {
        len: s.len(),
        store: s.to_vec(),
    }
}

pub fn mk_box(spec: &BufSpec, mi: usize) -> Box<[u8]> {
    let (_, cap) = spec.m[mi];
    (0..cap).map(|j| pat(spec.salt, mi, j)).collect::<Vec<u8>>().into_boxed_slice()
}

pub fn mk_slice(spec: &BufSpec) -> Slice<Vec<u8>> {
    let v = mk_vec(spec, 0);
    match spec.e {
        Some(e) => v.slice(spec.b..e),
        None => v.slice(spec.b..),
    }
}

pub fn mk_uninit(spec: &BufSpec) -> Uninit<Vec<u8>> {
    mk_vec(spec, 0).uninit()
}

pub fn mk_static(spec: &BufSpec) -> &'static [u8] {
    &STATIC_PAT[spec.b..spec.b + spec.m[0].1]
}

pub fn mk_str(spec: &BufSpec) -> &'static str {
    &STATIC_STR[spec.b..spec.b + spec.m[0].1]
}

pub fn mk_string(spec: &BufSpec) -> String {
    String::from_utf8(mk_vec(spec, 0)).expect("ascii")
}

pub fn obs_string(s: &String) -> MemObs {
    MemObs {
        len: s.len(),
        store: unsafe { std::slice::from_raw_parts(s.as_ptr(), s.capacity()) }.to_vec(),
    }
}

pub fn mk_bytes(spec: &BufSpec) -> Bytes {
    // `Bytes` exposes only its initialised part: len == cap in the model
    Bytes::from(mk_vec(spec, 0))
}

pub fn mk_vecvec(spec: &BufSpec) -> Vec<Vec<u8>> {
    (0..spec.m.len()).map(|i| mk_vec(spec, i)).collect()
}

pub fn mk_arr3(spec: &BufSpec) -> [Vec<u8>; 3] {
    [mk_vec(spec, 0), mk_vec(spec, 1), mk_vec(spec, 2)]
}

pub type TupleBuf = (Vec<u8>, ([u8; TUPLE_ARR],));

pub fn mk_tuple(spec: &BufSpec) -> TupleBuf {
    (mk_vec(spec, 0), (mk_arr::<TUPLE_ARR>(spec, 1),))
}

pub fn obs_tuple(t: &TupleBuf) -> BufObs {
    vec![obs_vec(&t.0), obs_fixed(&t.1.0)]
}

pub fn mk_vecbox(spec: &BufSpec) -> Vec<Box<[u8]>> {
    (0..spec.m.len()).map(|i| mk_box(spec, i)).collect()
}

pub fn mk_vecstatic(spec: &BufSpec) -> Vec<&'static [u8]> {
    spec.m
        .iter()
        .enumerate()
        .map(|(mi, (_, cap))| &STATIC_PAT[mi * 300..mi * 300 + cap])
        .collect()
}

pub fn mk_vslice(spec: &BufSpec) -> VectoredSlice<Vec<Vec<u8>>> {
    mk_vecvec(spec).slice(spec.b)
}

pub fn obs_vslice(v: VectoredSlice<Vec<Vec<u8>>>) -> BufObs {
    v.into_inner().iter().map(obs_vec).collect()
}

/// Compare a buffer observed after a compio operation with the model.
/// Returns (rule, explanation).
pub fn compare_bufs(
    spec: &BufSpec,
    is_read: bool,
    n: Option<usize>,
    want: &BufObs,
    got: &BufObs,
) -> Option<(&'static str, String)> {
    if want.len() != got.len() {
        return Some(("buffer-members", format!("{} members expected, {} returned", want.len(), got.len())));
    }
    // window the OS was allowed to write, per member
    let mut window: Vec<(usize, usize)> = vec![(0, 0); want.len()];
    if is_read && let Some(n) = n {
        let mut left = n;
        for (mi, s, e) in spec.read_regions() {
            let k = left.min(e - s);
            if k > 0 {
                window[mi] = (s, s + k);
            }
            left -= k;
        }
    }
    for (i, (w, g)) in want.iter().zip(got.iter()).enumerate() {
        if w.store.len() != g.store.len() {
            return Some((
                "buffer-capacity",
                format!("member {i}: capacity {} expected, {} returned (buffer reallocated?)", w.store.len(), g.store.len()),
            ));
        }
        if let Some(j) = (0..w.store.len()).find(|j| w.store[*j] != g.store[*j]) {
            let (a, b) = window[i];
            let inside = j >= a && j < b;
            return Some((
                if inside { "buffer-content" } else { "buffer-outside-window" },
                format!(
                    "member {i} byte {j}: expected {:#04x}, found {:#04x}; the operation may write bytes {a}..{b} of this member{}",
                    w.store[j],
                    g.store[j],
                    if inside { "" } else { " (this byte must be untouched)" }
                ),
            ));
        }
    }
    let exact = !is_read || spec.read_len_exact();
    for (i, (w, g)) in want.iter().zip(got.iter()).enumerate() {
        if exact && w.len != g.len {
            return Some(("buffer-len", format!("member {i}: length {} expected, {} returned (n = {n:?})", w.len, g.len)));
        }
        if g.len > g.store.len() {
            return Some(("buffer-len", format!("member {i}: length {} exceeds capacity {}", g.len, g.store.len())));
        }
    }
    None
}
