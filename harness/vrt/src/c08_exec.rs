//! C08 executors: the operation vocabulary, the reference executor (libc /
//! std::fs on its own tree) and the compio executor (compio-fs on a runtime
//! whose proactor is io_uring, polling, or io_uring with fallback-forcing).

use std::{
    ffi::CString,
    fs,
    io,
    os::{
        fd::{AsRawFd, FromRawFd, RawFd},
        unix::{
            ffi::OsStrExt,
            fs::{DirBuilderExt, FileTypeExt, MetadataExt, OpenOptionsExt, PermissionsExt},
        },
    },
    path::{Path, PathBuf},
};

use compio_buf::{BufResult, IntoInner, IoBuf, IoBufMut, IoVectoredBuf, IoVectoredBufMut};
use compio_fs::{File, pipe};
use compio_io::{AsyncRead, AsyncReadAt, AsyncReadExt, AsyncWrite, AsyncWriteAt};
use vcommon::{Value, json};

use super::buf::*;

pub const NH: usize = 4;
pub const NP: usize = 2;

// ---------------------------------------------------------------------------
// operations
// ---------------------------------------------------------------------------

macro_rules! op_kinds {
    ($($v:ident = $s:expr,)*) => {
        #[derive(Clone, Copy, Debug, PartialEq, Eq, Hash)]
        pub enum OK { $($v,)* }
        impl OK {
            pub fn name(self) -> &'static str { match self { $(OK::$v => $s,)* } }
            pub fn parse(s: &str) -> Option<OK> { match s { $($s => Some(OK::$v),)* _ => None } }
        }
    };
}

op_kinds! {
    Open = "open",
    Close = "close",
    ReadAt = "read_at",
    ReadVAt = "read_vectored_at",
    WriteAt = "write_at",
    WriteVAt = "write_vectored_at",
    SetLen = "set_len",
    SyncAll = "sync_all",
    SyncData = "sync_data",
    Meta = "file.metadata",
    SetPerm = "file.set_permissions",
    PMeta = "metadata",
    PSymMeta = "symlink_metadata",
    PSetPerm = "set_permissions",
    MkDir = "create_dir",
    MkDirAll = "create_dir_all",
    MkDirMode = "DirBuilder.mode.create",
    RmFile = "remove_file",
    RmDir = "remove_dir",
    Rename = "rename",
    Symlink = "symlink",
    HardLink = "hard_link",
    FsRead = "fs::read",
    FsWrite = "fs::write",
    PipeNew = "pipe::anonymous",
    PipeOpen = "pipe::OpenOptions.open",
    PipeRead = "pipe.read",
    PipeReadV = "pipe.read_vectored",
    PipeAppend = "pipe.append",
    PipeWrite = "pipe.write",
    PipeWriteV = "pipe.write_vectored",
    PipeCloseRx = "pipe.close_rx",
    PipeCloseTx = "pipe.close_tx",
    SpliceIn = "splice(file->pipe)",
    SpliceOut = "splice(pipe->file)",
}

/// Open option bits in `Op::fl`.
pub const O_READ: u32 = 1;
pub const O_WRITE: u32 = 2;
pub const O_TRUNC: u32 = 4;
pub const O_CREATE: u32 = 8;
pub const O_CREATE_NEW: u32 = 16;
pub const O_HAS_MODE: u32 = 32;
/// Named pipe option bits in `Op::fl`.
pub const P_RECEIVER: u32 = 1;
pub const P_RW: u32 = 2;
pub const P_UNCHECKED: u32 = 4;
/// Close by `close().await` (else by drop).
pub const F_EXPLICIT: u32 = 1;

#[derive(Clone, Debug, PartialEq)]
pub struct Op {
    pub k: OK,
    /// File slot / pipe slot.
    pub h: usize,
    /// Second slot (splice).
    pub h2: usize,
    pub p: String,
    pub q: String,
    pub off: u64,
    /// Size, mode or length.
    pub n: u64,
    pub fl: u32,
    /// `custom_flags` of open.
    pub c: i32,
    pub buf: Option<BufSpec>,
}

impl Op {
    pub fn new(k: OK) -> Op {
        Op {
            k,
            h: 0,
            h2: 0,
            p: String::new(),
            q: String::new(),
            off: 0,
            n: 0,
            fl: 0,
            c: 0,
            buf: None,
        }
    }

    pub fn to_json(&self) -> Value {
        let mut v = json!({"op": self.k.name()});
        let o = v.as_object_mut().unwrap();
        let uses_h = !matches!(
            self.k,
            OK::PMeta | OK::PSymMeta | OK::PSetPerm | OK::MkDir | OK::MkDirAll | OK::MkDirMode | OK::RmFile
                | OK::RmDir | OK::Rename | OK::Symlink | OK::HardLink | OK::FsRead | OK::FsWrite
        );
        if uses_h {
            o.insert("h".into(), json!(self.h));
        }
        if matches!(self.k, OK::SpliceIn | OK::SpliceOut) {
            o.insert("h2".into(), json!(self.h2));
        }
        if !self.p.is_empty() || matches!(self.k, OK::PMeta | OK::PSymMeta) {
            o.insert("p".into(), json!(self.p));
        }
        if !self.q.is_empty() {
            o.insert("q".into(), json!(self.q));
        }
        if matches!(self.k, OK::ReadAt | OK::ReadVAt | OK::WriteAt | OK::WriteVAt | OK::SpliceIn | OK::SpliceOut) {
            o.insert("off".into(), json!(self.off));
        }
        if matches!(
            self.k,
            OK::SetLen | OK::SetPerm | OK::PSetPerm | OK::MkDirMode | OK::SpliceIn | OK::SpliceOut
        ) || (self.k == OK::Open && self.fl & O_HAS_MODE != 0)
        {
            o.insert("n".into(), json!(self.n));
        }
        if self.fl != 0 {
            o.insert("fl".into(), json!(self.fl));
        }
        if self.k == OK::Open {
            o.insert("c".into(), json!(self.c));
            let mut d = Vec::new();
            for (b, s) in [
                (O_READ, "read"),
                (O_WRITE, "write"),
                (O_TRUNC, "truncate"),
                (O_CREATE, "create"),
                (O_CREATE_NEW, "create_new"),
            ] {
                if self.fl & b != 0 {
                    d.push(s.to_string());
                }
            }
            if self.fl & O_HAS_MODE != 0 {
                d.push(format!("mode({:#o})", self.n));
            }
            if self.c != 0 {
                d.push(format!("custom_flags({})", custom_name(self.c)));
            }
            o.insert("desc".into(), json!(d.join(",")));
        }
        if let Some(b) = &self.buf {
            o.insert("buf".into(), b.to_json());
        }
        v
    }

    pub fn from_json(v: &Value) -> Option<Op> {
        let mut op = Op::new(OK::parse(v["op"].as_str()?)?);
        op.h = v["h"].as_u64().unwrap_or(0) as usize;
        op.h2 = v["h2"].as_u64().unwrap_or(0) as usize;
        op.p = v["p"].as_str().unwrap_or("").to_string();
        op.q = v["q"].as_str().unwrap_or("").to_string();
        op.off = v["off"].as_u64().unwrap_or(0);
        op.n = v["n"].as_u64().unwrap_or(0);
        op.fl = v["fl"].as_u64().unwrap_or(0) as u32;
        op.c = v["c"].as_i64().unwrap_or(0) as i32;
        op.buf = BufSpec::from_json(&v["buf"]);
        op.normalise();
        Some(op)
    }

    pub fn normalise(&mut self) {
        self.h %= if self.is_pipe_op() { NP } else { NH };
        self.h2 %= if matches!(self.k, OK::SpliceIn | OK::SpliceOut) { NP } else { NH };
        let need_vec = matches!(self.k, OK::ReadVAt | OK::WriteVAt | OK::PipeReadV | OK::PipeWriteV);
        let need_scalar = matches!(
            self.k,
            OK::ReadAt | OK::WriteAt | OK::PipeRead | OK::PipeWrite | OK::PipeAppend | OK::FsWrite
        );
        if need_vec || need_scalar {
            let mut b = self.buf.take().unwrap_or(BufSpec {
                kind: if need_vec { BK::VecVec } else { BK::Vec },
                m: vec![(0, 8)],
                b: 0,
                e: None,
                salt: 1,
            });
            let is_read = matches!(self.k, OK::ReadAt | OK::ReadVAt | OK::PipeRead | OK::PipeReadV | OK::PipeAppend);
            if need_vec != b.kind.vectored() {
                b.kind = if need_vec { BK::VecVec } else { BK::Vec };
            }
            if is_read && matches!(b.kind, BK::Static | BK::Str | BK::String | BK::Bytes) {
                b.kind = BK::Vec;
            }
            if is_read && matches!(b.kind, BK::VecStatic | BK::VSlice) {
                b.kind = BK::VecVec;
            }
            if self.k == OK::PipeAppend && !matches!(b.kind, BK::Vec | BK::BytesMut) {
                b.kind = BK::Vec;
            }
            b.normalise();
            self.buf = Some(b);
        } else {
            self.buf = None;
        }
        if matches!(self.k, OK::SpliceIn | OK::SpliceOut) {
            self.n = self.n.min(4096);
            // the splice API takes i64 offsets (negative = file position)
            self.off = self.off.min(1 << 62);
        }
    }

    pub fn is_pipe_op(&self) -> bool {
        matches!(
            self.k,
            OK::PipeNew
                | OK::PipeOpen
                | OK::PipeRead
                | OK::PipeReadV
                | OK::PipeAppend
                | OK::PipeWrite
                | OK::PipeWriteV
                | OK::PipeCloseRx
                | OK::PipeCloseTx
        )
    }

    /// Does the step possibly change the directory tree or file contents?
    pub fn mutating(&self) -> bool {
        !matches!(
            self.k,
            OK::ReadAt
                | OK::ReadVAt
                | OK::Meta
                | OK::PMeta
                | OK::PSymMeta
                | OK::FsRead
                | OK::PipeNew
                | OK::PipeRead
                | OK::PipeReadV
                | OK::PipeAppend
                | OK::PipeWrite
                | OK::PipeWriteV
                | OK::PipeCloseRx
                | OK::PipeCloseTx
                | OK::SyncAll
                | OK::SyncData
                | OK::Close
                | OK::SpliceIn
        )
    }
}

pub fn custom_name(c: i32) -> String {
    let mut v = Vec::new();
    for (b, s) in [
        (libc::O_APPEND, "O_APPEND"),
        (libc::O_NOFOLLOW, "O_NOFOLLOW"),
        (libc::O_DIRECTORY, "O_DIRECTORY"),
        (libc::O_TRUNC, "O_TRUNC"),
        (libc::O_SYNC, "O_SYNC"),
        (libc::O_EXCL, "O_EXCL"),
        (libc::O_CREAT, "O_CREAT"),
        (libc::O_NONBLOCK, "O_NONBLOCK"),
        (libc::O_NOATIME, "O_NOATIME"),
    ] {
        if c & b == b {
            v.push(s);
        }
    }
    if v.is_empty() { format!("{c:#x}") } else { v.join("|") }
}

// ---------------------------------------------------------------------------
// observations
// ---------------------------------------------------------------------------

#[derive(Clone, Debug, PartialEq, Eq)]
pub enum Res {
    Ok(u64),
    Err { kind: String, errno: Option<i32> },
}

impl Res {
    pub fn from_io<T>(r: &io::Result<T>, f: impl FnOnce(&T) -> u64) -> Res {
        match r {
            Ok(v) => Res::Ok(f(v)),
            Err(e) => Res::Err {
                kind: format!("{:?}", e.kind()),
                errno: e.raw_os_error(),
            },
        }
    }

    /// Equality as far as the reference determines the result: an error
    /// the reference raised without reaching the OS (invalid option
    /// combination, NUL in a path, "not a pipe") carries no errno, and then
    /// only the kind is specified.
    pub fn matches(&self, got: &Res) -> bool {
        match (self, got) {
            (Res::Err { kind, errno: None }, Res::Err { kind: k2, .. }) => kind == k2,
            (a, b) => a == b,
        }
    }

    pub fn ok(&self) -> Option<u64> {
        match self {
            Res::Ok(n) => Some(*n),
            _ => None,
        }
    }

    pub fn class(&self, full: Option<usize>) -> String {
        match self {
            Res::Ok(0) => "ok0".into(),
            Res::Ok(n) => match full {
                Some(f) if (*n as usize) < f => "ok-short".into(),
                Some(_) => "ok-full".into(),
                None => "ok".into(),
            },
            Res::Err { kind, errno } => match errno {
                Some(e) => format!("err:{}", errno_name(*e)),
                None => format!("err:{kind}"),
            },
        }
    }

    pub fn show(&self) -> String {
        match self {
            Res::Ok(n) => format!("Ok({n})"),
            Res::Err { kind, errno } => match errno {
                Some(e) => format!("Err({kind}, os error {e} {})", errno_name(*e)),
                None => format!("Err({kind}, no os error)"),
            },
        }
    }
}

pub fn errno_name(e: i32) -> String {
    let t: &[(i32, &str)] = &[
        (libc::EPERM, "EPERM"),
        (libc::ENOENT, "ENOENT"),
        (libc::EIO, "EIO"),
        (libc::ENXIO, "ENXIO"),
        (libc::EBADF, "EBADF"),
        (libc::EAGAIN, "EAGAIN"),
        (libc::ENOMEM, "ENOMEM"),
        (libc::EACCES, "EACCES"),
        (libc::EFAULT, "EFAULT"),
        (libc::EBUSY, "EBUSY"),
        (libc::EEXIST, "EEXIST"),
        (libc::EXDEV, "EXDEV"),
        (libc::ENOTDIR, "ENOTDIR"),
        (libc::EISDIR, "EISDIR"),
        (libc::EINVAL, "EINVAL"),
        (libc::EMFILE, "EMFILE"),
        (libc::EFBIG, "EFBIG"),
        (libc::ENOSPC, "ENOSPC"),
        (libc::ESPIPE, "ESPIPE"),
        (libc::EROFS, "EROFS"),
        (libc::EMLINK, "EMLINK"),
        (libc::EPIPE, "EPIPE"),
        (libc::ENAMETOOLONG, "ENAMETOOLONG"),
        (libc::ENOTEMPTY, "ENOTEMPTY"),
        (libc::ELOOP, "ELOOP"),
        (libc::EOVERFLOW, "EOVERFLOW"),
        (libc::EOPNOTSUPP, "EOPNOTSUPP"),
        (libc::ENOSYS, "ENOSYS"),
        (libc::ETXTBSY, "ETXTBSY"),
    ];
    t.iter().find(|x| x.0 == e).map(|x| x.1.to_string()).unwrap_or_else(|| format!("E{e}"))
}

#[derive(Clone, Debug, PartialEq, Eq)]
pub struct MetaObs {
    pub len: u64,
    pub size: u64,
    pub mode: u32,
    pub nlink: u64,
    pub uid: u32,
    pub gid: u32,
    pub dev: u64,
    pub rdev: u64,
    pub blksize: u64,
    pub blocks: u64,
    pub is_dir: bool,
    pub is_file: bool,
    pub is_symlink: bool,
    pub is_fifo: bool,
    pub perm_mode: u32,
    pub readonly: bool,
}

macro_rules! meta_obs {
    ($m:expr) => {{
        let m = $m;
        MetaObs {
            len: m.len(),
            size: m.size(),
            mode: m.mode(),
            nlink: m.nlink(),
            uid: m.uid(),
            gid: m.gid(),
            dev: m.dev(),
            rdev: m.rdev(),
            blksize: m.blksize(),
            blocks: m.blocks(),
            is_dir: m.is_dir(),
            is_file: m.is_file(),
            is_symlink: m.is_symlink(),
            is_fifo: m.file_type().is_fifo(),
            perm_mode: m.permissions().mode(),
            readonly: m.permissions().readonly(),
        }
    }};
}

#[derive(Clone, Debug, PartialEq, Eq)]
pub struct StepObs {
    pub res: Res,
    pub bufs: Option<BufObs>,
    pub meta: Option<MetaObs>,
    pub data: Option<Vec<u8>>,
}

impl StepObs {
    fn plain(res: Res) -> Self {
        StepObs {
            res,
            bufs: None,
            meta: None,
            data: None,
        }
    }

    fn unit<T>(r: &io::Result<T>) -> Self {
        Self::plain(Res::from_io(r, |_| 0))
    }
}

#[derive(Clone, Debug, PartialEq, Eq)]
pub enum Outcome {
    /// Not executed (empty slot, or the step would block); `String` says why.
    Skip(String),
    Done(StepObs),
    /// The executor's own state is inconsistent (e.g. the handle returned by
    /// `open` is not the file at that path).
    Broken { rule: &'static str, what: String },
}

pub fn fd_identity(fd: RawFd) -> Option<(u64, u64, u32)> {
    let mut st: libc::stat64 = unsafe { std::mem::zeroed() };
    if unsafe { libc::fstat64(fd, &mut st) } != 0 {
        return None;
    }
    Some((st.st_dev as u64, st.st_ino as u64, st.st_mode as u32))
}

pub fn resolve(root: &Path, rel: &str) -> PathBuf {
    if rel.is_empty() {
        // the empty path stays empty: no executor can resolve it to a file
        return PathBuf::new();
    }
    root.join(rel)
}

// ---------------------------------------------------------------------------
// initial tree and snapshots
// ---------------------------------------------------------------------------

pub fn seed_byte(file: usize, i: usize) -> u8 {
    ((file * 37 + i * 11 + (i >> 7)) & 0x7f) as u8
}

pub fn make_tree(root: &Path) -> io::Result<()> {
    fs::create_dir_all(root)?;
    let file = |rel: &str, idx: usize, len: usize, mode: u32| -> io::Result<()> {
        let p = root.join(rel);
        fs::write(&p, (0..len).map(|i| seed_byte(idx, i)).collect::<Vec<u8>>())?;
        fs::set_permissions(&p, fs::Permissions::from_mode(mode))
    };
    file("a.txt", 1, 100, 0o644)?;
    file("b.bin", 2, 5000, 0o644)?;
    file("empty", 3, 0, 0o600)?;
    file("ro.txt", 4, 10, 0o444)?;
    fs::create_dir(root.join("d"))?;
    file("d/inner.txt", 5, 33, 0o640)?;
    fs::DirBuilder::new().mode(0o700).create(root.join("d/sub"))?;
    std::os::unix::fs::symlink("a.txt", root.join("link"))?;
    std::os::unix::fs::symlink("d", root.join("dlink"))?;
    std::os::unix::fs::symlink("nope", root.join("dangling"))?;
    let c = CString::new(root.join("fifo").as_os_str().as_bytes()).unwrap();
    if unsafe { libc::mkfifo(c.as_ptr(), 0o644) } != 0 {
        return Err(io::Error::last_os_error());
    }
    Ok(())
}

pub fn remove_tree(root: &Path) {
    // make everything removable first (matters when not running as root)
    fn fix(p: &Path) {
        if let Ok(rd) = fs::read_dir(p) {
            for e in rd.flatten() {
                if let Ok(t) = e.file_type()
                    && t.is_dir()
                {
                    let _ = fs::set_permissions(e.path(), fs::Permissions::from_mode(0o700));
                    fix(&e.path());
                }
            }
        }
    }
    fix(root);
    let _ = fs::remove_dir_all(root);
}

#[derive(Clone, Debug, PartialEq, Eq)]
pub struct Entry {
    pub rel: String,
    pub ftype: char,
    pub mode: u32,
    pub nlink: u64,
    pub len: u64,
    /// File content (up to 4 MiB) or link target.
    pub content: Vec<u8>,
}

const SNAP_CONTENT_LIMIT: u64 = 4 << 20;

pub fn snapshot(root: &Path) -> Vec<Entry> {
    fn walk(root: &Path, dir: &Path, out: &mut Vec<Entry>) {
        let mut names: Vec<_> = match fs::read_dir(dir) {
            Ok(rd) => rd.flatten().map(|e| e.file_name()).collect(),
            Err(_) => return,
        };
        names.sort();
        for n in names {
            let p = dir.join(&n);
            let Ok(m) = fs::symlink_metadata(&p) else { continue };
            let t = m.file_type();
            let ftype = if t.is_dir() {
                'd'
            } else if t.is_symlink() {
                'l'
            } else if t.is_fifo() {
                'p'
            } else if t.is_file() {
                'f'
            } else {
                '?'
            };
            let content = match ftype {
                'f' if m.len() <= SNAP_CONTENT_LIMIT => fs::read(&p).unwrap_or_default(),
                'l' => fs::read_link(&p).map(|t| t.as_os_str().as_bytes().to_vec()).unwrap_or_default(),
                _ => Vec::new(),
            };
            out.push(Entry {
                rel: p.strip_prefix(root).unwrap_or(&p).to_string_lossy().into_owned(),
                ftype,
                mode: m.mode() & 0o7777,
                nlink: m.nlink(),
                // directory sizes are a file system detail
                len: if ftype == 'd' { 0 } else { m.len() },
                content,
            });
            if ftype == 'd' {
                walk(root, &p, out);
            }
        }
    }
    let mut out = Vec::new();
    walk(root, root, &mut out);
    out
}

pub fn diff_snapshots(want: &[Entry], got: &[Entry]) -> Option<String> {
    let mut i = 0;
    let mut j = 0;
    while i < want.len() || j < got.len() {
        match (want.get(i), got.get(j)) {
            (Some(w), Some(g)) if w.rel == g.rel => {
                if w.ftype != g.ftype {
                    return Some(format!("{}: type {} expected, found {}", w.rel, w.ftype, g.ftype));
                }
                if w.mode != g.mode {
                    return Some(format!("{}: mode {:#o} expected, found {:#o}", w.rel, w.mode, g.mode));
                }
                if w.nlink != g.nlink {
                    return Some(format!("{}: nlink {} expected, found {}", w.rel, w.nlink, g.nlink));
                }
                if w.len != g.len {
                    return Some(format!("{}: length {} expected, found {}", w.rel, w.len, g.len));
                }
                if w.content != g.content {
                    let at = w.content.iter().zip(g.content.iter()).position(|(a, b)| a != b).unwrap_or(0);
                    return Some(format!(
                        "{}: content differs at byte {at}: expected {:#04x}, found {:#04x}",
                        w.rel,
                        w.content.get(at).copied().unwrap_or(0),
                        g.content.get(at).copied().unwrap_or(0)
                    ));
                }
                i += 1;
                j += 1;
            }
            (Some(w), Some(g)) if w.rel < g.rel => return Some(format!("{}: missing", w.rel)),
            (Some(_), Some(g)) => return Some(format!("{}: unexpected entry", g.rel)),
            (Some(w), None) => return Some(format!("{}: missing", w.rel)),
            (None, Some(g)) => return Some(format!("{}: unexpected entry", g.rel)),
            (None, None) => break,
        }
    }
    None
}

// ---------------------------------------------------------------------------
// reference executor
// ---------------------------------------------------------------------------

pub struct RefPipeEnd {
    f: fs::File,
    ino: u64,
    rd: bool,
    wr: bool,
}

pub struct RefWorld {
    pub root: PathBuf,
    files: Vec<Option<fs::File>>,
    rx: Vec<Option<RefPipeEnd>>,
    tx: Vec<Option<RefPipeEnd>>,
}

fn cvt(r: isize) -> io::Result<usize> {
    if r < 0 { Err(io::Error::last_os_error()) } else { Ok(r as usize) }
}

fn would_block<T>(r: &io::Result<T>) -> bool {
    matches!(r, Err(e) if e.raw_os_error() == Some(libc::EAGAIN))
}

fn ftype_of(f: &fs::File) -> char {
    match f.metadata() {
        Ok(m) if m.file_type().is_fifo() => 'p',
        Ok(m) if m.is_dir() => 'd',
        Ok(_) => 'f',
        Err(_) => '?',
    }
}

fn std_open_options(op: &Op) -> fs::OpenOptions {
    let mut o = fs::OpenOptions::new();
    o.read(op.fl & O_READ != 0)
        .write(op.fl & O_WRITE != 0)
        .truncate(op.fl & O_TRUNC != 0)
        .create(op.fl & O_CREATE != 0)
        .create_new(op.fl & O_CREATE_NEW != 0);
    if op.c != 0 {
        o.custom_flags(op.c);
    }
    if op.fl & O_HAS_MODE != 0 {
        o.mode(op.n as u32);
    }
    o
}

impl RefWorld {
    pub fn new(root: PathBuf) -> Self {
        RefWorld {
            root,
            files: (0..NH).map(|_| None).collect(),
            rx: (0..NP).map(|_| None).collect(),
            tx: (0..NP).map(|_| None).collect(),
        }
    }

    pub fn file_fd(&self, h: usize) -> Option<RawFd> {
        self.files[h].as_ref().map(|f| f.as_raw_fd())
    }

    /// (size, type) of the file in slot `h`.
    pub fn slot_info(&self, h: usize) -> Option<(u64, char)> {
        self.files[h].as_ref().map(|f| (f.metadata().map(|m| m.len()).unwrap_or(0), ftype_of(f)))
    }

    pub fn pipe_info(&self, k: usize) -> (bool, bool) {
        (self.rx[k].is_some(), self.tx[k].is_some())
    }

    /// Bytes a non-blocking read of pipe slot `k` would see.
    pub fn pipe_avail(&self, k: usize) -> usize {
        let Some(e) = &self.rx[k] else { return 0 };
        let mut n: libc::c_int = 0;
        unsafe { libc::ioctl(e.f.as_raw_fd(), libc::FIONREAD, &mut n) };
        n.max(0) as usize
    }

    /// Is another end of the FIFO `ino` open? `skip` = (is_rx, slot) of a
    /// handle that is about to be replaced and therefore does not count.
    fn fifo_peer_open(&self, ino: u64, need_writer: bool, skip: Option<(bool, usize)>) -> bool {
        let rx = self.rx.iter().enumerate().map(|(i, e)| (true, i, e));
        let tx = self.tx.iter().enumerate().map(|(i, e)| (false, i, e));
        rx.chain(tx).any(|(is_rx, i, e)| {
            skip != Some((is_rx, i))
                && e.as_ref().is_some_and(|e| e.ino == ino && if need_writer { e.wr } else { e.rd })
        })
    }

    /// Name of the op with the target class appended (for signatures).
    pub fn op_label(&self, op: &Op) -> String {
        let t = match op.k {
            OK::ReadAt | OK::ReadVAt | OK::WriteAt | OK::WriteVAt | OK::SetLen | OK::SyncAll | OK::SyncData
            | OK::Meta | OK::SetPerm => self.slot_info(op.h).map(|x| x.1),
            _ => None,
        };
        let positional = matches!(op.k, OK::ReadAt | OK::ReadVAt | OK::WriteAt | OK::WriteVAt);
        let path_op = matches!(
            op.k,
            OK::Open | OK::PMeta | OK::PSymMeta | OK::PSetPerm | OK::MkDir | OK::MkDirAll | OK::MkDirMode | OK::RmFile
                | OK::RmDir | OK::Rename | OK::HardLink | OK::FsRead | OK::FsWrite | OK::PipeOpen
        );
        if positional && op.off >= 1 << 63 {
            // one class: the offset is not representable as off_t
            return "positional-io(off>=2^63)".to_string();
        }
        let suffix = if op.k == OK::SetLen && op.n >= 1 << 63 {
            "(size>=2^63)"
        } else if path_op && op.p.is_empty() {
            "(empty-path)"
        } else {
            ""
        };
        match t {
            Some('p') => format!("{}@fifo{suffix}", op.k.name()),
            Some('d') => format!("{}@dir{suffix}", op.k.name()),
            _ => format!("{}{suffix}", op.k.name()),
        }
    }

    fn read_model(fd: RawFd, pos: Option<u64>, spec: &BufSpec) -> (io::Result<usize>, BufObs) {
        let mut model = spec.model();
        let regions = spec.read_regions();
        let r = if !spec.vectored() {
            let (mi, s, e) = regions[0];
            let ptr = model[mi].store[s..e].as_mut_ptr();
            match pos {
                Some(p) => cvt(unsafe { libc::pread64(fd, ptr.cast(), e - s, p as i64) }),
                None => cvt(unsafe { libc::read(fd, ptr.cast(), e - s) }),
            }
        } else {
            let iov: Vec<libc::iovec> = regions
                .iter()
                .map(|(mi, s, e)| libc::iovec {
                    iov_base: model[*mi].store[*s..*e].as_mut_ptr().cast(),
                    iov_len: e - s,
                })
                .collect();
            match pos {
                Some(p) => cvt(unsafe { libc::preadv64(fd, iov.as_ptr(), iov.len() as _, p as i64) }),
                None => cvt(unsafe { libc::readv(fd, iov.as_ptr(), iov.len() as _) }),
            }
        };
        if let Ok(n) = r {
            spec.apply_read(&mut model, n);
        }
        (r, model)
    }

    fn write_model(fd: RawFd, pos: Option<u64>, spec: &BufSpec) -> (io::Result<usize>, BufObs) {
        let model = spec.model();
        let regions = spec.write_regions();
        let r = if !spec.vectored() {
            let (mi, s, e) = regions[0];
            let ptr = model[mi].store[s..e].as_ptr();
            match pos {
                Some(p) => cvt(unsafe { libc::pwrite64(fd, ptr.cast(), e - s, p as i64) }),
                None => cvt(unsafe { libc::write(fd, ptr.cast(), e - s) }),
            }
        } else {
            let iov: Vec<libc::iovec> = regions
                .iter()
                .map(|(mi, s, e)| libc::iovec {
                    iov_base: model[*mi].store[*s..*e].as_ptr() as *mut libc::c_void,
                    iov_len: e - s,
                })
                .collect();
            match pos {
                Some(p) => cvt(unsafe { libc::pwritev64(fd, iov.as_ptr(), iov.len() as _, p as i64) }),
                None => cvt(unsafe { libc::writev(fd, iov.as_ptr(), iov.len() as _) }),
            }
        };
        (r, model)
    }

    pub fn exec(&mut self, op: &Op) -> Outcome {
        let skip = |s: &str| Outcome::Skip(s.to_string());
        let root = self.root.clone();
        let p = resolve(&root, &op.p);
        let q = resolve(&root, &op.q);
        let done = |o: StepObs| Outcome::Done(o);
        match op.k {
            OK::Open => {
                if let Ok(m) = fs::metadata(&p)
                    && m.file_type().is_fifo()
                    && !(op.fl & O_READ != 0 && op.fl & O_WRITE != 0)
                    && op.c & libc::O_NONBLOCK == 0
                {
                    return skip("open of a FIFO would block");
                }
                self.files[op.h] = None;
                let r = std_open_options(op).open(&p);
                let o = StepObs::unit(&r);
                if let Ok(f) = r {
                    self.files[op.h] = Some(f);
                }
                done(o)
            }
            OK::Close => match self.files[op.h].take() {
                None => skip("empty slot"),
                Some(f) => {
                    drop(f);
                    done(StepObs::plain(Res::Ok(0)))
                }
            },
            OK::ReadAt | OK::ReadVAt => {
                let Some(f) = &self.files[op.h] else { return skip("empty slot") };
                if ftype_of(f) == 'p' {
                    // io_uring ignores the offset on a stream and would wait for data
                    return skip("positional read on a FIFO handle");
                }
                let spec = op.buf.as_ref().unwrap();
                let (r, m) = Self::read_model(f.as_raw_fd(), Some(op.off), spec);
                done(StepObs {
                    res: Res::from_io(&r, |n| *n as u64),
                    bufs: Some(m),
                    meta: None,
                    data: None,
                })
            }
            OK::WriteAt | OK::WriteVAt => {
                let Some(f) = &self.files[op.h] else { return skip("empty slot") };
                if ftype_of(f) == 'p' {
                    return skip("positional write on a FIFO handle");
                }
                let spec = op.buf.as_ref().unwrap();
                let (r, m) = Self::write_model(f.as_raw_fd(), Some(op.off), spec);
                done(StepObs {
                    res: Res::from_io(&r, |n| *n as u64),
                    bufs: Some(m),
                    meta: None,
                    data: None,
                })
            }
            OK::SetLen => {
                let Some(f) = &self.files[op.h] else { return skip("empty slot") };
                let r = cvt(unsafe { libc::ftruncate64(f.as_raw_fd(), op.n as i64) } as isize);
                done(StepObs::unit(&r))
            }
            OK::SyncAll | OK::SyncData => {
                let Some(f) = &self.files[op.h] else { return skip("empty slot") };
                let fd = f.as_raw_fd();
                let r = cvt(unsafe { if op.k == OK::SyncAll { libc::fsync(fd) } else { libc::fdatasync(fd) } } as isize);
                done(StepObs::unit(&r))
            }
            OK::Meta => {
                let Some(f) = &self.files[op.h] else { return skip("empty slot") };
                let r = f.metadata();
                let mut o = StepObs::unit(&r);
                o.meta = r.ok().map(|m| meta_obs!(m));
                done(o)
            }
            OK::SetPerm => {
                let Some(f) = &self.files[op.h] else { return skip("empty slot") };
                done(StepObs::unit(&f.set_permissions(fs::Permissions::from_mode(op.n as u32))))
            }
            OK::PMeta | OK::PSymMeta => {
                let r = if op.k == OK::PMeta { fs::metadata(&p) } else { fs::symlink_metadata(&p) };
                let mut o = StepObs::unit(&r);
                o.meta = r.ok().map(|m| meta_obs!(m));
                done(o)
            }
            OK::PSetPerm => done(StepObs::unit(&fs::set_permissions(&p, fs::Permissions::from_mode(op.n as u32)))),
            OK::MkDir => done(StepObs::unit(&fs::create_dir(&p))),
            OK::MkDirAll => done(StepObs::unit(&fs::create_dir_all(&p))),
            OK::MkDirMode => done(StepObs::unit(&fs::DirBuilder::new().mode(op.n as u32).create(&p))),
            OK::RmFile => done(StepObs::unit(&fs::remove_file(&p))),
            OK::RmDir => done(StepObs::unit(&fs::remove_dir(&p))),
            OK::Rename => done(StepObs::unit(&fs::rename(&p, &q))),
            // the link content is the raw string, not resolved against the tree
            OK::Symlink => done(StepObs::unit(&std::os::unix::fs::symlink(&op.p, &q))),
            OK::HardLink => done(StepObs::unit(&fs::hard_link(&p, &q))),
            OK::FsRead => {
                if let Ok(m) = fs::metadata(&p) {
                    if m.file_type().is_fifo() {
                        return skip("fs::read of a FIFO would block");
                    }
                    if m.len() > (1 << 20) {
                        return skip("fs::read of a huge sparse file");
                    }
                }
                let r = fs::read(&p);
                let mut o = StepObs::plain(Res::from_io(&r, |v| v.len() as u64));
                o.data = r.ok();
                done(o)
            }
            OK::FsWrite => {
                if let Ok(m) = fs::metadata(&p)
                    && m.file_type().is_fifo()
                {
                    return skip("fs::write to a FIFO would block");
                }
                let spec = op.buf.as_ref().unwrap();
                let model = spec.model();
                let (mi, s, e) = spec.write_regions()[0];
                let r = fs::write(&p, &model[mi].store[s..e]);
                let mut o = StepObs::unit(&r);
                o.bufs = Some(model);
                done(o)
            }
            OK::PipeNew => {
                self.rx[op.h] = None;
                self.tx[op.h] = None;
                let mut fds = [0 as RawFd; 2];
                let r = cvt(unsafe { libc::pipe2(fds.as_mut_ptr(), libc::O_CLOEXEC | libc::O_NONBLOCK) } as isize);
                if r.is_ok() {
                    let a = unsafe { fs::File::from_raw_fd(fds[0]) };
                    let b = unsafe { fs::File::from_raw_fd(fds[1]) };
                    let ino = a.metadata().map(|m| m.ino()).unwrap_or(0);
                    self.rx[op.h] = Some(RefPipeEnd { f: a, ino, rd: true, wr: false });
                    self.tx[op.h] = Some(RefPipeEnd { f: b, ino, rd: false, wr: true });
                }
                done(StepObs::unit(&r))
            }
            OK::PipeOpen => {
                let receiver = op.fl & P_RECEIVER != 0;
                let rw = op.fl & P_RW != 0;
                let unchecked = op.fl & P_UNCHECKED != 0;
                let meta = fs::metadata(&p);
                let is_fifo = meta.as_ref().map(|m| m.file_type().is_fifo()).unwrap_or(false);
                if unchecked && meta.is_ok() && !is_fifo {
                    return skip("unchecked(true) is only for files known to be FIFOs");
                }
                if is_fifo && !rw {
                    let ino = meta.as_ref().map(|m| m.ino()).unwrap_or(0);
                    if !self.fifo_peer_open(ino, receiver, Some((receiver, op.h))) {
                        return skip("open of a FIFO end without peer would block");
                    }
                }
                if let Ok(m) = &meta
                    && !is_fifo
                    && !m.is_file()
                    && !m.is_dir()
                {
                    return skip("special file");
                }
                if receiver {
                    self.rx[op.h] = None;
                } else {
                    self.tx[op.h] = None;
                }
                let mut o = fs::OpenOptions::new();
                o.read(receiver || rw).write(!receiver || rw).custom_flags(libc::O_NONBLOCK);
                let r = o.open(&p).and_then(|f| {
                    if !unchecked && !f.metadata()?.file_type().is_fifo() {
                        return Err(io::Error::new(io::ErrorKind::InvalidInput, "not a pipe"));
                    }
                    Ok(f)
                });
                let obs = StepObs::unit(&r);
                if let Ok(f) = r {
                    let ino = f.metadata().map(|m| m.ino()).unwrap_or(0);
                    let e = RefPipeEnd {
                        f,
                        ino,
                        rd: receiver || rw,
                        wr: !receiver || rw,
                    };
                    if receiver {
                        self.rx[op.h] = Some(e);
                    } else {
                        self.tx[op.h] = Some(e);
                    }
                }
                done(obs)
            }
            OK::PipeRead | OK::PipeReadV | OK::PipeAppend => {
                let Some(e) = &self.rx[op.h] else { return skip("empty slot") };
                let mut spec = op.buf.clone().unwrap();
                if op.k == OK::PipeAppend {
                    // `append` reads into the spare capacity: same window and
                    // recording as the documented `uninit()` view
                    spec.kind = BK::Uninit;
                }
                if spec.read_capacity() == 0 && self.pipe_avail(op.h) == 0 {
                    // zero-length read on an empty pipe: poll(2)-style
                    // readiness never comes, the polling driver would wait
                    let writer_open = self.fifo_peer_open(e.ino, true, None);
                    if writer_open {
                        return skip("zero-length read on an empty pipe waits for readiness");
                    }
                }
                let (r, m) = Self::read_model(e.f.as_raw_fd(), None, &spec);
                if would_block(&r) {
                    return skip("pipe read would block");
                }
                done(StepObs {
                    res: Res::from_io(&r, |n| *n as u64),
                    bufs: Some(m),
                    meta: None,
                    data: None,
                })
            }
            OK::PipeWrite | OK::PipeWriteV => {
                let Some(e) = &self.tx[op.h] else { return skip("empty slot") };
                let spec = op.buf.as_ref().unwrap();
                if spec.write_len() > 4096 {
                    return skip("pipe write larger than PIPE_BUF may be partial");
                }
                // never fill the pipe: a full pipe never becomes writable here
                let mut queued: libc::c_int = 0;
                unsafe { libc::ioctl(e.f.as_raw_fd(), libc::FIONREAD, &mut queued) };
                if queued as usize + spec.write_len() > 32768 {
                    return skip("pipe nearly full");
                }
                let (r, m) = Self::write_model(e.f.as_raw_fd(), None, spec);
                if would_block(&r) {
                    return skip("pipe write would block");
                }
                done(StepObs {
                    res: Res::from_io(&r, |n| *n as u64),
                    bufs: Some(m),
                    meta: None,
                    data: None,
                })
            }
            OK::PipeCloseRx => match self.rx[op.h].take() {
                None => skip("empty slot"),
                Some(_) => done(StepObs::plain(Res::Ok(0))),
            },
            OK::PipeCloseTx => match self.tx[op.h].take() {
                None => skip("empty slot"),
                Some(_) => done(StepObs::plain(Res::Ok(0))),
            },
            OK::SpliceIn => {
                // file slot h -> pipe slot h2 (sender)
                let (Some(f), Some(e)) = (&self.files[op.h], &self.tx[op.h2]) else { return skip("empty slot") };
                if ftype_of(f) != 'f' {
                    return skip("splice source is not a regular file");
                }
                let mut queued: libc::c_int = 0;
                unsafe { libc::ioctl(e.f.as_raw_fd(), libc::FIONREAD, &mut queued) };
                if queued as usize + op.n as usize > 32768 {
                    return skip("pipe nearly full");
                }
                let mut off = op.off as i64;
                let r = cvt(unsafe {
                    libc::splice(f.as_raw_fd(), &mut off, e.f.as_raw_fd(), std::ptr::null_mut(), op.n as usize, 0)
                });
                if would_block(&r) {
                    return skip("splice would block");
                }
                done(StepObs::plain(Res::from_io(&r, |n| *n as u64)))
            }
            OK::SpliceOut => {
                // pipe slot h2 (receiver) -> file slot h
                let (Some(f), Some(e)) = (&self.files[op.h], &self.rx[op.h2]) else { return skip("empty slot") };
                if ftype_of(f) != 'f' {
                    return skip("splice target is not a regular file");
                }
                if self.pipe_avail(op.h2) == 0 && self.fifo_peer_open(e.ino, true, None) {
                    return skip("splice from an empty pipe would block");
                }
                let mut off = op.off as i64;
                let r = cvt(unsafe {
                    libc::splice(e.f.as_raw_fd(), std::ptr::null_mut(), f.as_raw_fd(), &mut off, op.n as usize, 0)
                });
                if would_block(&r) {
                    return skip("splice would block");
                }
                done(StepObs::plain(Res::from_io(&r, |n| *n as u64)))
            }
        }
    }
}

// ---------------------------------------------------------------------------
// resynchronisation after a reported disagreement (harness-side syscalls
// only): lets the variant stay in the program instead of losing coverage
// ---------------------------------------------------------------------------

/// Make the file behind `to` have the content *and allocation* (holes stay
/// holes) of the file behind `from`.
pub fn copy_fd_content(from: RawFd, to: RawFd) -> bool {
    use std::os::unix::fs::FileExt;
    let Ok(src) = fs::File::open(format!("/proc/self/fd/{from}")) else { return false };
    let Ok(m) = src.metadata() else { return false };
    if !m.is_file() || m.len() > (64 << 20) {
        return false;
    }
    let Ok(dst) = fs::OpenOptions::new().write(true).truncate(true).open(format!("/proc/self/fd/{to}")) else {
        return false;
    };
    if dst.set_len(m.len()).is_err() {
        return false;
    }
    let len = m.len() as i64;
    let mut pos: i64 = 0;
    let mut copied: u64 = 0;
    while pos < len {
        let data = unsafe { libc::lseek64(src.as_raw_fd(), pos, libc::SEEK_DATA) };
        if data < 0 {
            break; // ENXIO: only a hole is left
        }
        let mut hole = unsafe { libc::lseek64(src.as_raw_fd(), data, libc::SEEK_HOLE) };
        if hole < 0 || hole > len {
            hole = len;
        }
        let n = (hole - data) as usize;
        copied += n as u64;
        if copied > (8 << 20) {
            return false;
        }
        let mut buf = vec![0u8; n];
        if src.read_exact_at(&mut buf, data as u64).is_err() || dst.write_all_at(&buf, data as u64).is_err() {
            return false;
        }
        pos = hole;
    }
    match (src.metadata(), dst.metadata()) {
        (Ok(a), Ok(b)) => a.len() == b.len() && a.blocks() == b.blocks(),
        _ => false,
    }
}

/// Perform the splice of `op` on the variant's descriptors.
pub fn redo_splice(op: &Op, file_fd: RawFd, pipe_fd: RawFd) -> io::Result<usize> {
    let mut off = op.off as i64;
    cvt(unsafe {
        if op.k == OK::SpliceIn {
            libc::splice(file_fd, &mut off, pipe_fd, std::ptr::null_mut(), op.n as usize, libc::SPLICE_F_NONBLOCK)
        } else {
            libc::splice(pipe_fd, std::ptr::null_mut(), file_fd, &mut off, op.n as usize, libc::SPLICE_F_NONBLOCK)
        }
    })
}

// ---------------------------------------------------------------------------
// compio executor
// ---------------------------------------------------------------------------

pub struct CWorld {
    pub root: PathBuf,
    files: Vec<Option<File>>,
    rx: Vec<Option<pipe::Receiver>>,
    tx: Vec<Option<pipe::Sender>>,
}

enum RSrc<'a> {
    File(&'a File, u64),
    Pipe(&'a pipe::Receiver),
    Append(&'a pipe::Receiver),
}

enum WDst<'a> {
    File(&'a File, u64),
    Pipe(&'a pipe::Sender),
    FsWrite(&'a Path),
}

async fn c_read<B: IoBufMut>(src: &RSrc<'_>, b: B) -> BufResult<usize, B> {
    match src {
        RSrc::File(f, pos) => f.read_at(b, *pos).await,
        RSrc::Pipe(r) => {
            let mut r: &pipe::Receiver = r;
            r.read(b).await
        }
        RSrc::Append(r) => {
            let mut r: &pipe::Receiver = r;
            r.append(b).await
        }
    }
}

async fn c_readv<B: IoVectoredBufMut>(src: &RSrc<'_>, b: B) -> BufResult<usize, B> {
    match src {
        RSrc::File(f, pos) => f.read_vectored_at(b, *pos).await,
        RSrc::Pipe(r) | RSrc::Append(r) => {
            let mut r: &pipe::Receiver = r;
            r.read_vectored(b).await
        }
    }
}

async fn c_write<B: IoBuf>(dst: &WDst<'_>, b: B) -> BufResult<usize, B> {
    match dst {
        WDst::File(f, pos) => {
            let mut f: &File = f;
            f.write_at(b, *pos).await
        }
        WDst::Pipe(s) => {
            let mut s: &pipe::Sender = s;
            s.write(b).await
        }
        WDst::FsWrite(p) => {
            let BufResult(r, b) = compio_fs::write(p, b).await;
            BufResult(r.map(|_| 0), b)
        }
    }
}

async fn c_writev<B: IoVectoredBuf>(dst: &WDst<'_>, b: B) -> BufResult<usize, B> {
    match dst {
        WDst::File(f, pos) => {
            let mut f: &File = f;
            f.write_vectored_at(b, *pos).await
        }
        WDst::Pipe(s) => {
            let mut s: &pipe::Sender = s;
            s.write_vectored(b).await
        }
        WDst::FsWrite(_) => unreachable!("fs::write is scalar"),
    }
}

async fn c_read_spec(src: &RSrc<'_>, spec: &BufSpec) -> (io::Result<usize>, BufObs) {
    macro_rules! arr {
        ($n:expr) => {{
            let BufResult(r, a) = c_read(src, mk_arr::<$n>(spec, 0)).await;
            (r, vec![obs_fixed(&a)])
        }};
    }
    match spec.kind {
        BK::Arr => match spec.m[0].1 {
            1 => arr!(1),
            16 => arr!(16),
            64 => arr!(64),
            _ => arr!(4096),
        },
        BK::Box => {
            let BufResult(r, b) = c_read(src, mk_box(spec, 0)).await;
            (r, vec![obs_fixed(&b)])
        }
        BK::Slice => {
            let BufResult(r, s) = c_read(src, mk_slice(spec)).await;
            (r, vec![obs_vec(&s.into_inner())])
        }
        BK::Uninit => {
            let BufResult(r, s) = c_read(src, mk_uninit(spec)).await;
            (r, vec![obs_vec(&s.into_inner())])
        }
        BK::BytesMut => {
            let BufResult(r, b) = c_read(src, mk_bytesmut(spec)).await;
            (r, vec![obs_bytesmut(&b)])
        }
        BK::VecVec => {
            let BufResult(r, v) = c_readv(src, mk_vecvec(spec)).await;
            (r, v.iter().map(obs_vec).collect())
        }
        BK::Arr3 => {
            let BufResult(r, v) = c_readv(src, mk_arr3(spec)).await;
            (r, v.iter().map(obs_vec).collect())
        }
        BK::Tuple => {
            let BufResult(r, v) = c_readv(src, mk_tuple(spec)).await;
            (r, obs_tuple(&v))
        }
        BK::VecBox => {
            let BufResult(r, v) = c_readv(src, mk_vecbox(spec)).await;
            (r, v.iter().map(|b| obs_fixed(b)).collect())
        }
        _ => {
            let BufResult(r, v) = c_read(src, mk_vec(spec, 0)).await;
            (r, vec![obs_vec(&v)])
        }
    }
}

async fn c_write_spec(dst: &WDst<'_>, spec: &BufSpec) -> (io::Result<usize>, BufObs) {
    macro_rules! arr {
        ($n:expr) => {{
            let BufResult(r, a) = c_write(dst, mk_arr::<$n>(spec, 0)).await;
            (r, vec![obs_fixed(&a)])
        }};
    }
    match spec.kind {
        BK::Arr => match spec.m[0].1 {
            1 => arr!(1),
            16 => arr!(16),
            64 => arr!(64),
            _ => arr!(4096),
        },
        BK::Box => {
            let BufResult(r, b) = c_write(dst, mk_box(spec, 0)).await;
            (r, vec![obs_fixed(&b)])
        }
        BK::Slice => {
            let BufResult(r, s) = c_write(dst, mk_slice(spec)).await;
            (r, vec![obs_vec(&s.into_inner())])
        }
        BK::Uninit => {
            let BufResult(r, s) = c_write(dst, mk_uninit(spec)).await;
            (r, vec![obs_vec(&s.into_inner())])
        }
        BK::BytesMut => {
            let BufResult(r, b) = c_write(dst, mk_bytesmut(spec)).await;
            (r, vec![obs_bytesmut(&b)])
        }
        BK::Static => {
            let BufResult(r, b) = c_write(dst, mk_static(spec)).await;
            (r, vec![obs_fixed(b)])
        }
        BK::Str => {
            let BufResult(r, b) = c_write(dst, mk_str(spec)).await;
            (r, vec![obs_fixed(b.as_bytes())])
        }
        BK::String => {
            let BufResult(r, b) = c_write(dst, mk_string(spec)).await;
            (r, vec![obs_string(&b)])
        }
        BK::Bytes => {
            let BufResult(r, b) = c_write(dst, mk_bytes(spec)).await;
            (r, vec![obs_fixed(&b)])
        }
        BK::VecVec => {
            let BufResult(r, v) = c_writev(dst, mk_vecvec(spec)).await;
            (r, v.iter().map(obs_vec).collect())
        }
        BK::Arr3 => {
            let BufResult(r, v) = c_writev(dst, mk_arr3(spec)).await;
            (r, v.iter().map(obs_vec).collect())
        }
        BK::Tuple => {
            let BufResult(r, v) = c_writev(dst, mk_tuple(spec)).await;
            (r, obs_tuple(&v))
        }
        BK::VecBox => {
            let BufResult(r, v) = c_writev(dst, mk_vecbox(spec)).await;
            (r, v.iter().map(|b| obs_fixed(b)).collect())
        }
        BK::VecStatic => {
            let BufResult(r, v) = c_writev(dst, mk_vecstatic(spec)).await;
            (r, v.iter().map(|b| obs_fixed(b)).collect())
        }
        BK::VSlice => {
            let BufResult(r, v) = c_writev(dst, mk_vslice(spec)).await;
            (r, obs_vslice(v))
        }
        BK::Vec => {
            let BufResult(r, v) = c_write(dst, mk_vec(spec, 0)).await;
            (r, vec![obs_vec(&v)])
        }
    }
}

fn io_obs(r: io::Result<usize>, bufs: BufObs) -> Outcome {
    Outcome::Done(StepObs {
        res: Res::from_io(&r, |n| *n as u64),
        bufs: Some(bufs),
        meta: None,
        data: None,
    })
}

impl CWorld {
    pub fn new(root: PathBuf) -> Self {
        CWorld {
            root,
            files: (0..NH).map(|_| None).collect(),
            rx: (0..NP).map(|_| None).collect(),
            tx: (0..NP).map(|_| None).collect(),
        }
    }

    pub fn file_fd(&self, h: usize) -> Option<RawFd> {
        self.files[h].as_ref().map(|f| f.as_raw_fd())
    }

    pub fn pipe_fds(&self, k: usize) -> (Option<RawFd>, Option<RawFd>) {
        (self.rx[k].as_ref().map(|f| f.as_raw_fd()), self.tx[k].as_ref().map(|f| f.as_raw_fd()))
    }

    /// Bytes queued in pipe slot `k` (None when the receiver is closed).
    pub fn pipe_avail(&self, k: usize) -> Option<usize> {
        let fd = self.rx[k].as_ref()?.as_raw_fd();
        let mut n: libc::c_int = 0;
        unsafe { libc::ioctl(fd, libc::FIONREAD, &mut n) };
        Some(n.max(0) as usize)
    }

    /// Execute one step; must run inside the variant's runtime.
    pub async fn exec(&mut self, op: &Op) -> Outcome {
        let skip = |s: &str| Outcome::Skip(s.to_string());
        let done = |o: StepObs| Outcome::Done(o);
        let root = self.root.clone();
        let p = resolve(&root, &op.p);
        let q = resolve(&root, &op.q);
        match op.k {
            OK::Open => {
                self.files[op.h] = None;
                let mut o = compio_fs::OpenOptions::new();
                o.read(op.fl & O_READ != 0)
                    .write(op.fl & O_WRITE != 0)
                    .truncate(op.fl & O_TRUNC != 0)
                    .create(op.fl & O_CREATE != 0)
                    .create_new(op.fl & O_CREATE_NEW != 0);
                if op.c != 0 {
                    o.custom_flags(op.c);
                }
                if op.fl & O_HAS_MODE != 0 {
                    o.mode(op.n as u32);
                }
                let r = o.open(&p).await;
                let obs = StepObs::unit(&r);
                if let Ok(f) = r {
                    // the handle must be the file at `p` (harness-side fstat/stat)
                    let have = fd_identity(f.as_raw_fd());
                    let want = fs::metadata(&p).ok().map(|m| (m.dev(), m.ino()));
                    if have.map(|x| (x.0, x.1)) != want || want.is_none() {
                        let fd = f.as_raw_fd();
                        // do not close a descriptor that is not this file's
                        std::mem::forget(f);
                        return Outcome::Broken {
                            rule: "open-wrong-file",
                            what: format!(
                                "open succeeded but the returned handle (fd {fd}) is {}, not the file at the path (dev,ino) = {want:?}",
                                match have {
                                    Some((d, i, m)) => format!("(dev,ino) = ({d}, {i}), st_mode {m:#o}"),
                                    None => "a closed descriptor".to_string(),
                                }
                            ),
                        };
                    }
                    self.files[op.h] = Some(f);
                }
                done(obs)
            }
            OK::Close => match self.files[op.h].take() {
                None => skip("empty slot"),
                Some(f) => {
                    if op.fl & F_EXPLICIT != 0 {
                        done(StepObs::unit(&f.close().await))
                    } else {
                        drop(f);
                        done(StepObs::plain(Res::Ok(0)))
                    }
                }
            },
            OK::ReadAt | OK::ReadVAt => {
                let Some(f) = &self.files[op.h] else { return skip("empty slot") };
                let (r, b) = c_read_spec(&RSrc::File(f, op.off), op.buf.as_ref().unwrap()).await;
                io_obs(r, b)
            }
            OK::WriteAt | OK::WriteVAt => {
                let Some(f) = &self.files[op.h] else { return skip("empty slot") };
                let (r, b) = c_write_spec(&WDst::File(f, op.off), op.buf.as_ref().unwrap()).await;
                io_obs(r, b)
            }
            OK::SetLen => {
                let Some(f) = &self.files[op.h] else { return skip("empty slot") };
                done(StepObs::unit(&f.set_len(op.n).await))
            }
            OK::SyncAll => {
                let Some(f) = &self.files[op.h] else { return skip("empty slot") };
                done(StepObs::unit(&f.sync_all().await))
            }
            OK::SyncData => {
                let Some(f) = &self.files[op.h] else { return skip("empty slot") };
                done(StepObs::unit(&f.sync_data().await))
            }
            OK::Meta => {
                let Some(f) = &self.files[op.h] else { return skip("empty slot") };
                let r = f.metadata().await;
                let mut o = StepObs::unit(&r);
                o.meta = r.ok().map(|m| meta_obs!(m));
                done(o)
            }
            OK::SetPerm => {
                let Some(f) = &self.files[op.h] else { return skip("empty slot") };
                done(StepObs::unit(&f.set_permissions(compio_fs::Permissions::from_mode(op.n as u32)).await))
            }
            OK::PMeta | OK::PSymMeta => {
                let r = if op.k == OK::PMeta {
                    compio_fs::metadata(&p).await
                } else {
                    compio_fs::symlink_metadata(&p).await
                };
                let mut o = StepObs::unit(&r);
                o.meta = r.ok().map(|m| meta_obs!(m));
                done(o)
            }
            OK::PSetPerm => done(StepObs::unit(
                &compio_fs::set_permissions(&p, compio_fs::Permissions::from_mode(op.n as u32)).await,
            )),
            OK::MkDir => done(StepObs::unit(&compio_fs::create_dir(&p).await)),
            OK::MkDirAll => done(StepObs::unit(&compio_fs::create_dir_all(&p).await)),
            OK::MkDirMode => {
                let mut b = compio_fs::DirBuilder::new();
                b.mode(op.n as u32);
                done(StepObs::unit(&b.create(&p).await))
            }
            OK::RmFile => done(StepObs::unit(&compio_fs::remove_file(&p).await)),
            OK::RmDir => done(StepObs::unit(&compio_fs::remove_dir(&p).await)),
            OK::Rename => done(StepObs::unit(&compio_fs::rename(&p, &q).await)),
            OK::Symlink => done(StepObs::unit(&compio_fs::symlink(&op.p, &q).await)),
            OK::HardLink => done(StepObs::unit(&compio_fs::hard_link(&p, &q).await)),
            OK::FsRead => {
                let r = compio_fs::read(&p).await;
                let mut o = StepObs::plain(Res::from_io(&r, |v| v.len() as u64));
                o.data = r.ok();
                done(o)
            }
            OK::FsWrite => {
                let (r, b) = c_write_spec(&WDst::FsWrite(&p), op.buf.as_ref().unwrap()).await;
                io_obs(r, b)
            }
            OK::PipeNew => {
                self.rx[op.h] = None;
                self.tx[op.h] = None;
                let r = pipe::anonymous().await;
                let o = StepObs::unit(&r);
                if let Ok((rx, tx)) = r {
                    let a = fd_identity(rx.as_raw_fd());
                    let b = fd_identity(tx.as_raw_fd());
                    let fifo = |x: Option<(u64, u64, u32)>| x.is_some_and(|x| x.2 & libc::S_IFMT == libc::S_IFIFO);
                    if !fifo(a) || !fifo(b) || a.map(|x| x.1) != b.map(|x| x.1) {
                        let what = format!("anonymous() returned descriptors that are not the two ends of one pipe: {a:?} / {b:?}");
                        std::mem::forget((rx, tx));
                        return Outcome::Broken { rule: "pipe-wrong-descriptors", what };
                    }
                    self.rx[op.h] = Some(rx);
                    self.tx[op.h] = Some(tx);
                }
                done(o)
            }
            OK::PipeOpen => {
                let receiver = op.fl & P_RECEIVER != 0;
                let mut o = pipe::OpenOptions::new();
                o.read_write(op.fl & P_RW != 0).unchecked(op.fl & P_UNCHECKED != 0);
                if receiver {
                    self.rx[op.h] = None;
                    let r = o.open_receiver(&p).await;
                    let obs = StepObs::unit(&r);
                    if let Ok(x) = r {
                        self.rx[op.h] = Some(x);
                    }
                    done(obs)
                } else {
                    self.tx[op.h] = None;
                    let r = o.open_sender(&p).await;
                    let obs = StepObs::unit(&r);
                    if let Ok(x) = r {
                        self.tx[op.h] = Some(x);
                    }
                    done(obs)
                }
            }
            OK::PipeRead | OK::PipeReadV => {
                let Some(r) = &self.rx[op.h] else { return skip("empty slot") };
                let (res, b) = c_read_spec(&RSrc::Pipe(r), op.buf.as_ref().unwrap()).await;
                io_obs(res, b)
            }
            OK::PipeAppend => {
                let Some(r) = &self.rx[op.h] else { return skip("empty slot") };
                let (res, b) = c_read_spec(&RSrc::Append(r), op.buf.as_ref().unwrap()).await;
                io_obs(res, b)
            }
            OK::PipeWrite | OK::PipeWriteV => {
                let Some(s) = &self.tx[op.h] else { return skip("empty slot") };
                let (res, b) = c_write_spec(&WDst::Pipe(s), op.buf.as_ref().unwrap()).await;
                io_obs(res, b)
            }
            OK::PipeCloseRx => match self.rx[op.h].take() {
                None => skip("empty slot"),
                Some(r) => {
                    if op.fl & F_EXPLICIT != 0 {
                        done(StepObs::unit(&r.close().await))
                    } else {
                        drop(r);
                        done(StepObs::plain(Res::Ok(0)))
                    }
                }
            },
            OK::PipeCloseTx => match self.tx[op.h].take() {
                None => skip("empty slot"),
                Some(s) => {
                    if op.fl & F_EXPLICIT != 0 {
                        done(StepObs::unit(&s.close().await))
                    } else {
                        drop(s);
                        done(StepObs::plain(Res::Ok(0)))
                    }
                }
            },
            OK::SpliceIn => {
                let (Some(f), Some(s)) = (&self.files[op.h], &self.tx[op.h2]) else { return skip("empty slot") };
                let r = pipe::splice(f, s, op.n as usize).offset_in(op.off as i64).await;
                done(StepObs::plain(Res::from_io(&r, |n| *n as u64)))
            }
            OK::SpliceOut => {
                let (Some(f), Some(rx)) = (&self.files[op.h], &self.rx[op.h2]) else { return skip("empty slot") };
                let r = pipe::splice(rx, f, op.n as usize).offset_out(op.off as i64).await;
                done(StepObs::plain(Res::from_io(&r, |n| *n as u64)))
            }
        }
    }
}
