//! C09 — timers never fire early and always fire.
//!
//! Seeded programs over the real `compio_runtime::time` API on a real clock
//! (small durations), on both drivers, each in a fresh `Runtime`:
//!
//! * deadline sets of 1..64 `sleep` / `sleep_until` / `timeout` /
//!   `timeout_at` futures {past, now, equal, 1 ns / 1 us apart, ms apart,
//!   clusters >= 300 ms apart, far}, spread over the main future and spawned
//!   tasks, created at start / lazily / from other timers' completions,
//!   awaited / polled once and parked / never polled / held after firing,
//!   dropped from other timers' tasks, racing pipe reads completed from
//!   another thread and cross-thread wakes;
//! * timeouts around scripted inner futures (ready at poll k, ready once an
//!   instant has passed, ready on a cross-thread flag, a real pipe read);
//! * intervals with async gaps, blocking gaps (missed ticks) and abandoned
//!   tick futures;
//! * re-entrant programs: a timer's waker drops / creates another timer from
//!   inside `wake()`.
//!
//! The oracle is the online monitor in `c09_mon.rs`; this file holds the
//! program model, the generator, the executor and the reporting.

#[path = "c09_mon.rs"]
mod mon;

use std::{
    cell::{Cell, RefCell},
    future::Future,
    os::fd::{FromRawFd, OwnedFd},
    pin::Pin,
    rc::Rc,
    sync::{
        Arc, Mutex,
        atomic::{AtomicBool, AtomicI64, AtomicU64, Ordering},
        mpsc,
    },
    task::{Context, Poll, Waker},
    time::{Duration, Instant},
};

use compio_buf::BufResult;
use compio_driver::{DriverType, ProactorBuilder, verif};
use compio_io::AsyncRead;
use compio_runtime::{Runtime, fd::AsyncFd, time};
use mon::{Mon, Out, Probe, TickSrc, Track, Tracked, aborted, base, ns, now_ns, touch, with_mon};
use vcommon::{Args, Report, Rng, Value, json, panics};

// ---------------------------------------------------------------------------
// Program model
// ---------------------------------------------------------------------------

#[derive(Clone, Copy, PartialEq, Eq, Debug)]
enum Drv {
    Iour,
    Poll,
}

impl Drv {
    fn name(self) -> &'static str {
        match self {
            Drv::Iour => "iour",
            Drv::Poll => "poll",
        }
    }
}

#[derive(Clone, Copy, PartialEq, Eq, Debug)]
enum Api {
    Sleep,
    SleepUntil,
    Timeout,
    TimeoutAt,
}

impl Api {
    fn name(self) -> &'static str {
        match self {
            Api::Sleep => "sleep",
            Api::SleepUntil => "sleep_until",
            Api::Timeout => "timeout",
            Api::TimeoutAt => "timeout_at",
        }
    }

    fn is_timeout(self) -> bool {
        matches!(self, Api::Timeout | Api::TimeoutAt)
    }
}

/// Deadline: before the creation instant, the creation instant, or program
/// start + offset (ns).
#[derive(Clone, Copy, Debug)]
enum When {
    Past(u64),
    Now,
    At(i64),
}

const FAR_NS: i64 = 2_000_000_000;

impl When {
    fn off(self) -> i64 {
        match self {
            When::At(o) => o,
            _ => 0,
        }
    }

    fn is_far(self) -> bool {
        self.off() >= FAR_NS
    }
}

#[derive(Clone, Copy, PartialEq, Eq, Debug)]
enum Fate {
    /// Polled until ready.
    Await,
    /// Polled once, then kept (waiting) until dropped.
    Park,
    /// Created, never polled.
    NoPoll,
}

/// Inner future of a timeout.
#[derive(Clone, Copy, Debug)]
enum Script {
    Never,
    /// Ready at its k-th poll; re-arms itself (wake_by_ref) or not.
    AtPoll { k: u32, selfwake: bool },
    /// Ready when polled at or after start + off; never wakes.
    WhenPast(i64),
    /// Ready once another thread set a flag (and woke) at start + off.
    XWake(i64),
    /// A pipe read; another thread writes at start + off.
    Io(i64),
}

#[derive(Clone, Copy, Debug)]
enum Act {
    Drop(usize),
    Create(usize),
}

#[derive(Clone, Debug)]
struct TSpec {
    api: Api,
    when: When,
    host: usize,
    by_act: bool,
    fate: Fate,
    hold: bool,
    fresh: bool,
    script: Script,
    on_done: Vec<Act>,
    on_wake: Vec<Act>,
}

#[derive(Clone, Copy, Debug)]
enum Gap {
    None,
    Yield,
    Async(u64),
    Block(u64),
}

#[derive(Clone, Debug)]
struct IvSpec {
    start: When,
    /// `interval(period)` instead of `interval_at(start, period)`.
    plain: bool,
    period: u64,
    ticks: Vec<(Gap, bool)>,
}

#[derive(Clone, Debug)]
struct Prog {
    family: &'static str,
    shape: String,
    drv: Drv,
    ev_int: usize,
    lazy: bool,
    nhosts: usize,
    timers: Vec<TSpec>,
    order: Vec<usize>,
    end_order: Vec<usize>,
    ios: Vec<i64>,
    xws: Vec<i64>,
    ivs: Vec<IvSpec>,
    idle_ms: u64,
    ct_prob: usize,
}

fn when_json(w: When) -> Value {
    match w {
        When::Past(n) => json!({"past_ns": n}),
        When::Now => json!("now"),
        When::At(o) => json!({"start_plus_ns": o}),
    }
}

fn acts_json(a: &[Act]) -> Value {
    Value::Array(
        a.iter()
            .map(|a| match a {
                Act::Drop(i) => json!({"drop": i}),
                Act::Create(i) => json!({"create": i}),
            })
            .collect(),
    )
}

impl Prog {
    fn to_json(&self) -> Value {
        let timers: Vec<Value> = self
            .timers
            .iter()
            .enumerate()
            .map(|(i, t)| {
                let mut v = json!({
                    "id": i, "api": t.api.name(), "deadline": when_json(t.when), "host": t.host,
                    "fate": format!("{:?}", t.fate),
                });
                let o = v.as_object_mut().unwrap();
                if t.by_act {
                    o.insert("created_by_action".into(), json!(true));
                }
                if t.hold {
                    o.insert("held_after_completion".into(), json!(true));
                }
                if t.fresh {
                    o.insert("fresh_waker_each_poll".into(), json!(true));
                }
                if t.api.is_timeout() {
                    o.insert("inner".into(), json!(format!("{:?}", t.script)));
                }
                if !t.on_done.is_empty() {
                    o.insert("on_done".into(), acts_json(&t.on_done));
                }
                if !t.on_wake.is_empty() {
                    o.insert("in_waker".into(), acts_json(&t.on_wake));
                }
                v
            })
            .collect();
        let ivs: Vec<Value> = self
            .ivs
            .iter()
            .map(|i| json!({"start": when_json(i.start), "plain_interval": i.plain, "period_ns": i.period, "ticks": format!("{:?}", i.ticks)}))
            .collect();
        json!({
            "family": self.family, "shape": self.shape, "driver": self.drv.name(), "event_interval": self.ev_int,
            "lazy_create": self.lazy, "hosts": self.nhosts, "timers": timers, "create_order": self.order,
            "end_drop_order": self.end_order, "pipe_writes_at_ns": self.ios, "cross_wakes_at_ns": self.xws,
            "intervals": ivs, "idle_ms": self.idle_ms,
        })
    }

    fn events(&self) -> String {
        let mut ev: Vec<&str> = Vec::new();
        let mut add = |c: bool, s: &'static str| {
            if c && !ev.contains(&s) {
                ev.push(s)
            }
        };
        for t in &self.timers {
            add(t.on_done.iter().any(|a| matches!(a, Act::Drop(_))), "drop");
            add(t.on_done.iter().any(|a| matches!(a, Act::Create(_))), "create");
            add(t.on_wake.iter().any(|a| matches!(a, Act::Drop(_))), "dropw");
            add(t.on_wake.iter().any(|a| matches!(a, Act::Create(_))), "createw");
            add(t.fate == Fate::Park, "park");
            add(t.fate == Fate::NoPoll, "nopoll");
            add(t.hold, "hold");
            add(t.api.is_timeout(), "tmo");
            add(matches!(t.script, Script::Io(_)) && t.api.is_timeout(), "tmo-io");
            add(matches!(t.script, Script::XWake(_)) && t.api.is_timeout(), "tmo-xwake");
        }
        add(self.nhosts > 1, "tasks");
        add(!self.ios.is_empty(), "io");
        add(!self.xws.is_empty(), "xwake");
        for i in &self.ivs {
            add(i.plain, "iv-plain");
            add(!i.plain, "iv-at");
            add(i.ticks.iter().any(|t| matches!(t.0, Gap::Block(_))), "iv-block");
            add(i.ticks.iter().any(|t| matches!(t.0, Gap::Async(_))), "iv-async");
            add(i.ticks.iter().any(|t| t.1), "iv-abandon");
        }
        ev.sort();
        ev.join(",")
    }

    fn sig(&self) -> String {
        let n = self.timers.len();
        let b = match n {
            0 => "n0",
            1 => "n1",
            2..=4 => "n2-4",
            5..=16 => "n5-16",
            _ => "n17-64",
        };
        format!("{}/{}/{}/{}/{}", self.family, self.shape, b, self.events(), self.drv.name())
    }

    /// Latest instant (ns after start) anything awaited in the program is
    /// scheduled for.
    fn horizon(&self) -> i64 {
        let mut h = 0i64;
        for t in &self.timers {
            if !t.when.is_far() {
                h = h.max(t.when.off());
            }
        }
        for o in self.ios.iter().chain(self.xws.iter()) {
            h = h.max(*o);
        }
        for i in &self.ivs {
            let mut tot = i.start.off().min(FAR_NS);
            for (g, _) in &i.ticks {
                tot += i.period as i64;
                if let Gap::Async(x) | Gap::Block(x) = g {
                    tot += *x as i64;
                }
            }
            h = h.max(tot);
        }
        h
    }
}

// ---------------------------------------------------------------------------
// Helper threads: kicker (pipe writes / cross-thread wakes) and heartbeat
// ---------------------------------------------------------------------------

struct XFlag {
    set: AtomicBool,
    waker: Mutex<Option<Waker>>,
}

impl XFlag {
    fn new() -> Arc<Self> {
        Arc::new(Self {
            set: AtomicBool::new(false),
            waker: Mutex::new(None),
        })
    }
}

struct XWait(Arc<XFlag>);

impl Future for XWait {
    type Output = ();

    fn poll(self: Pin<&mut Self>, cx: &mut Context<'_>) -> Poll<()> {
        if self.0.set.load(Ordering::SeqCst) {
            return Poll::Ready(());
        }
        *self.0.waker.lock().unwrap() = Some(cx.waker().clone());
        if self.0.set.load(Ordering::SeqCst) {
            Poll::Ready(())
        } else {
            Poll::Pending
        }
    }
}

enum Cmd {
    Write(Instant, OwnedFd),
    Flag(Instant, Arc<XFlag>),
}

impl Cmd {
    fn at(&self) -> Instant {
        match self {
            Cmd::Write(a, _) | Cmd::Flag(a, _) => *a,
        }
    }

    fn fire(self) {
        match self {
            Cmd::Write(_, fd) => {
                use std::os::fd::AsRawFd;
                let b = [0x5au8];
                unsafe { libc::write(fd.as_raw_fd(), b.as_ptr().cast(), 1) };
            }
            Cmd::Flag(_, f) => {
                f.set.store(true, Ordering::SeqCst);
                let w = f.waker.lock().unwrap().take();
                if let Some(w) = w {
                    w.wake();
                }
            }
        }
    }
}

fn kicker(rx: mpsc::Receiver<Cmd>) {
    let mut q: Vec<Cmd> = Vec::new();
    loop {
        let next = q.iter().map(|c| c.at()).min();
        match next {
            None => match rx.recv() {
                Ok(c) => q.push(c),
                Err(_) => return,
            },
            Some(at) => {
                let now = Instant::now();
                if at <= now + Duration::from_micros(150) {
                    while Instant::now() < at {
                        std::hint::spin_loop();
                    }
                    let now = Instant::now();
                    let mut i = 0;
                    while i < q.len() {
                        if q[i].at() <= now {
                            q.swap_remove(i).fire();
                        } else {
                            i += 1;
                        }
                    }
                } else {
                    match rx.recv_timeout(at - now - Duration::from_micros(100)) {
                        Ok(c) => q.push(c),
                        Err(mpsc::RecvTimeoutError::Timeout) => {}
                        Err(mpsc::RecvTimeoutError::Disconnected) => return,
                    }
                }
            }
        }
    }
}

static STALLS: AtomicU64 = AtomicU64::new(0);
static MAX_HB_GAP_NS: AtomicI64 = AtomicI64::new(0);
static WD_DEADLINE: AtomicI64 = AtomicI64::new(0);
static MAIN_WAKER: Mutex<Option<Waker>> = Mutex::new(None);
const HB_STALL: Duration = Duration::from_millis(40);

fn heartbeat(rep: Arc<Mutex<Report>>) {
    let tick = Duration::from_millis(2);
    let mut last = Instant::now();
    loop {
        std::thread::sleep(tick);
        let now = Instant::now();
        let gap = now - last;
        MAX_HB_GAP_NS.fetch_max(gap.as_nanos() as i64, Ordering::Relaxed);
        if gap > tick + HB_STALL {
            STALLS.fetch_add(1, Ordering::SeqCst);
        }
        last = now;
        let wd = WD_DEADLINE.load(Ordering::SeqCst);
        if wd != 0 && ns(now) > wd {
            mon::abort("watchdog");
            let w = MAIN_WAKER.lock().unwrap_or_else(|e| e.into_inner()).clone();
            if let Some(w) = w {
                w.wake();
            }
            if ns(now) > wd + 15_000_000_000 {
                // the runtime thread does not even react to a wake-up
                let mut r = rep.lock().unwrap_or_else(|e| e.into_inner());
                r.inconclusive("hard hang: runtime thread did not return 15 s after the watchdog woke it");
                r.finish();
                std::process::exit(0);
            }
        }
    }
}

// ---------------------------------------------------------------------------
// Small futures
// ---------------------------------------------------------------------------

struct PollCount {
    n: u32,
    k: u32,
    selfwake: bool,
}

impl Future for PollCount {
    type Output = ();

    fn poll(mut self: Pin<&mut Self>, cx: &mut Context<'_>) -> Poll<()> {
        self.n += 1;
        if self.n >= self.k {
            Poll::Ready(())
        } else {
            if self.selfwake {
                cx.waker().wake_by_ref();
            }
            Poll::Pending
        }
    }
}

struct WhenPastFut(Instant);

impl Future for WhenPastFut {
    type Output = ();

    fn poll(self: Pin<&mut Self>, _: &mut Context<'_>) -> Poll<()> {
        if Instant::now() >= self.0 { Poll::Ready(()) } else { Poll::Pending }
    }
}

struct YieldOnce(bool);

impl Future for YieldOnce {
    type Output = ();

    fn poll(mut self: Pin<&mut Self>, cx: &mut Context<'_>) -> Poll<()> {
        if self.0 {
            Poll::Ready(())
        } else {
            self.0 = true;
            cx.waker().wake_by_ref();
            Poll::Pending
        }
    }
}

/// `Sleep` mapped to `Out`; unlike an async block it keeps the compio future
/// alive after completion, until the wrapper itself is dropped.
struct KeepSleep(time::Sleep);

impl Future for KeepSleep {
    type Output = Out;

    fn poll(mut self: Pin<&mut Self>, cx: &mut Context<'_>) -> Poll<Out> {
        Pin::new(&mut self.0).poll(cx).map(|()| Out::Unit)
    }
}

/// Same for `Timeout`: after `Ok` its `Sleep` stays registered until drop.
struct KeepTimeout(time::Timeout<Tracked>);

impl Future for KeepTimeout {
    type Output = Out;

    fn poll(mut self: Pin<&mut Self>, cx: &mut Context<'_>) -> Poll<Out> {
        Pin::new(&mut self.0).poll(cx).map(|r| Out::Tmo(r.map_err(|_| ())))
    }
}

/// Poll a probe exactly once.
struct PollOnce<'a, 'b>(&'a mut Probe<'b>);

impl Future for PollOnce<'_, '_> {
    type Output = Option<Out>;

    fn poll(mut self: Pin<&mut Self>, cx: &mut Context<'_>) -> Poll<Option<Out>> {
        match Pin::new(&mut *self.0).poll(cx) {
            Poll::Ready(o) => Poll::Ready(Some(o)),
            Poll::Pending => Poll::Ready(None),
        }
    }
}

/// The future handed to `block_on`: publishes its waker for the watchdog and
/// gives up when the program was aborted.
struct MainFut<F>(Pin<Box<F>>);

impl<F: Future<Output = ()>> Future for MainFut<F> {
    type Output = bool;

    fn poll(mut self: Pin<&mut Self>, cx: &mut Context<'_>) -> Poll<bool> {
        {
            let mut g = MAIN_WAKER.lock().unwrap_or_else(|e| e.into_inner());
            if !g.as_ref().is_some_and(|w| w.will_wake(cx.waker())) {
                *g = Some(cx.waker().clone());
            }
        }
        if aborted() {
            return Poll::Ready(false);
        }
        touch();
        let r = self.0.as_mut().poll(cx).map(|()| true);
        touch();
        r
    }
}

// ---------------------------------------------------------------------------
// World: the shared state of one running program
// ---------------------------------------------------------------------------

#[derive(Default)]
struct Slot {
    fut: RefCell<Option<Probe<'static>>>,
    created: Cell<bool>,
    cancelled: Cell<bool>,
    settled: Cell<bool>,
    polled: Cell<bool>,
    done: Cell<bool>,
}

#[derive(Default)]
struct Counters {
    tmo_ok: Cell<u64>,
    tmo_err: Cell<u64>,
    tmo_ok_at_expiry: Cell<u64>,
    ticks: Cell<u64>,
    missed_ticks: Cell<u64>,
    tick_model_mismatch: Cell<u64>,
    io_done: Cell<u64>,
    io_err: Cell<u64>,
    xw_done: Cell<u64>,
    acts_drop: Cell<u64>,
    acts_drop_in_other_task: Cell<u64>,
    acts_create: Cell<u64>,
    created_past: Cell<u64>,
    waker_drops: Cell<u64>,
    waker_creates: Cell<u64>,
}

fn bump(c: &Cell<u64>) {
    c.set(c.get() + 1)
}

struct World {
    prog: Prog,
    slots: Vec<Slot>,
    wakers: RefCell<Vec<Option<Waker>>>,
    dirty: Vec<Cell<bool>>,
    cur_host: Cell<usize>,
    t0: Cell<Instant>,
    kick: mpsc::Sender<Cmd>,
    last_cmd: Cell<Instant>,
    rng: RefCell<Rng>,
    cnt: Counters,
    next_value: Cell<u64>,
}

fn nb_pipe() -> Option<(OwnedFd, OwnedFd)> {
    let mut fds = [0i32; 2];
    let r = unsafe { libc::pipe2(fds.as_mut_ptr(), libc::O_CLOEXEC | libc::O_NONBLOCK) };
    if r != 0 {
        return None;
    }
    Some(unsafe { (OwnedFd::from_raw_fd(fds[0]), OwnedFd::from_raw_fd(fds[1])) })
}

fn add_ns(t: Instant, off: i64) -> Instant {
    t.checked_add(Duration::from_nanos(off.max(0) as u64))
        .unwrap_or_else(|| t + Duration::from_secs(86_400 * 365))
}

impl World {
    fn new(prog: Prog, kick: mpsc::Sender<Cmd>, rng: Rng) -> Rc<Self> {
        let n = prog.timers.len();
        let nh = prog.nhosts;
        Rc::new(Self {
            prog,
            slots: (0..n).map(|_| Slot::default()).collect(),
            wakers: RefCell::new(vec![None; nh]),
            dirty: (0..nh).map(|_| Cell::new(false)).collect(),
            cur_host: Cell::new(usize::MAX),
            t0: Cell::new(Instant::now()),
            kick,
            last_cmd: Cell::new(Instant::now()),
            rng: RefCell::new(rng),
            cnt: Counters::default(),
            next_value: Cell::new(1000),
        })
    }

    fn send(&self, c: Cmd) {
        if c.at() > self.last_cmd.get() {
            self.last_cmd.set(c.at());
        }
        let _ = self.kick.send(c);
    }

    fn resolve(&self, when: When, c0: Instant) -> Instant {
        match when {
            When::Past(n) => c0.checked_sub(Duration::from_nanos(n)).unwrap_or_else(base),
            When::Now => c0,
            When::At(off) => add_ns(self.t0.get(), off),
        }
    }

    fn script_fut(self: &Rc<Self>, s: Script, t: &Rc<Track>) -> Pin<Box<dyn Future<Output = ()>>> {
        match s {
            Script::Never => Box::pin(std::future::pending::<()>()),
            Script::AtPoll { k, selfwake } => {
                *t.would_be_ready.borrow_mut() = Some(Box::new(move |t: &Track| t.polls.get() + 1 >= k));
                Box::pin(PollCount { n: 0, k, selfwake })
            }
            Script::WhenPast(off) => {
                let at = add_ns(self.t0.get(), off);
                *t.would_be_ready.borrow_mut() = Some(Box::new(move |_: &Track| Instant::now() >= at));
                Box::pin(WhenPastFut(at))
            }
            Script::XWake(off) => {
                let f = XFlag::new();
                let f2 = f.clone();
                *t.would_be_ready.borrow_mut() = Some(Box::new(move |_: &Track| f2.set.load(Ordering::SeqCst)));
                self.send(Cmd::Flag(add_ns(self.t0.get(), off), f.clone()));
                Box::pin(XWait(f))
            }
            Script::Io(off) => {
                let w = self.clone();
                match nb_pipe() {
                    Some((r, wr)) => {
                        self.send(Cmd::Write(add_ns(self.t0.get(), off), wr));
                        Box::pin(async move {
                            if !pipe_read(r).await {
                                bump(&w.cnt.io_err);
                                std::future::pending::<()>().await;
                            }
                            bump(&w.cnt.io_done);
                        })
                    }
                    None => Box::pin(std::future::pending::<()>()),
                }
            }
        }
    }

    /// Create spec timer `id` (the compio future is built right here).
    fn create(self: &Rc<Self>, id: usize) {
        let s = &self.slots[id];
        if s.created.get() || s.cancelled.get() {
            return;
        }
        let spec = &self.prog.timers[id];
        let api = spec.api.name();
        let track = spec.api.is_timeout().then(|| {
            let v = self.next_value.get();
            self.next_value.set(v + 1);
            Track::new(v)
        });
        let inner = track.as_ref().map(|t| Tracked::new(self.script_fut(spec.script, t), t.clone()));
        let c0 = Instant::now();
        let target = self.resolve(spec.when, c0);
        let dur = target.saturating_duration_since(c0);
        let (fut, d_lo, d_hi, c1): (Pin<Box<dyn Future<Output = Out>>>, Instant, Instant, Instant) = match spec.api {
            Api::Sleep => {
                let f = time::sleep(dur);
                let c1 = Instant::now();
                (Box::pin(KeepSleep(f)), c0 + dur, c1 + dur, c1)
            }
            Api::SleepUntil => {
                let f = time::sleep_until(target);
                let c1 = Instant::now();
                (Box::pin(KeepSleep(f)), target, target, c1)
            }
            Api::Timeout => {
                let f = time::timeout(dur, inner.unwrap());
                let c1 = Instant::now();
                (Box::pin(KeepTimeout(f)), c0 + dur, c1 + dur, c1)
            }
            Api::TimeoutAt => {
                let f = time::timeout_at(target, inner.unwrap());
                let c1 = Instant::now();
                (Box::pin(KeepTimeout(f)), target, target, c1)
            }
        };
        if d_hi <= c1 {
            bump(&self.cnt.created_past);
        }
        let mut p = Probe::new(api, fut)
            .with_track(track)
            .with_fresh(spec.fresh)
            .with_token((!spec.on_wake.is_empty()).then_some(id));
        let woken = p.woken.clone();
        p.rec = with_mon(|m| m.create(api, ns(d_lo), ns(d_hi), ns(c0), ns(c1), woken));
        *s.fut.borrow_mut() = Some(p);
        s.created.set(true);
        self.poke(spec.host);
    }

    /// Mark the host of a timer dirty and wake it.
    fn poke(&self, host: usize) {
        self.dirty[host].set(true);
        if self.cur_host.get() != host {
            let w = self.wakers.borrow()[host].clone();
            if let Some(w) = w {
                w.wake();
            }
        }
    }

    fn act(self: &Rc<Self>, a: Act) {
        match a {
            Act::Drop(v) => {
                let s = &self.slots[v];
                bump(&self.cnt.acts_drop);
                if self.cur_host.get() != self.prog.timers[v].host {
                    bump(&self.cnt.acts_drop_in_other_task);
                }
                let f = s.fut.borrow_mut().take();
                if !s.created.get() {
                    s.cancelled.set(true);
                }
                s.settled.set(true);
                self.poke(self.prog.timers[v].host);
                drop(f);
            }
            Act::Create(c) => {
                bump(&self.cnt.acts_create);
                self.create(c);
            }
        }
    }

    fn probe_ct(&self) {
        let t0 = now_ns();
        let ct = Runtime::with_current(|r| r.current_timeout());
        let t1 = now_ns();
        with_mon(|m| m.probe_ct(t0, ct, t1));
    }

    fn maybe_probe_ct(&self) {
        let p = self.prog.ct_prob;
        if p > 0 && self.rng.borrow_mut().chance(p, 100) {
            self.probe_ct();
        }
    }

    /// Poll spec timer `id` once. Returns true when it is settled.
    fn poll_slot(self: &Rc<Self>, id: usize, cx: &mut Context<'_>) -> bool {
        let s = &self.slots[id];
        let spec = &self.prog.timers[id];
        let (r, d_hi) = {
            let mut g = s.fut.borrow_mut();
            let Some(p) = g.as_mut() else {
                s.settled.set(true);
                return true;
            };
            let d_hi = p.rec.and_then(|r| with_mon(|m| m.recs[r].d_hi)).unwrap_or(i64::MAX);
            (Pin::new(p).poll(cx), d_hi)
        };
        s.polled.set(true);
        match r {
            Poll::Ready(out) => {
                s.done.set(true);
                s.settled.set(true);
                match out {
                    Out::Tmo(Ok(_)) => {
                        bump(&self.cnt.tmo_ok);
                        if now_ns() >= d_hi {
                            bump(&self.cnt.tmo_ok_at_expiry);
                        }
                    }
                    Out::Tmo(Err(())) => bump(&self.cnt.tmo_err),
                    _ => {}
                }
                if !spec.hold {
                    let f = s.fut.borrow_mut().take();
                    drop(f);
                }
                for a in spec.on_done.iter() {
                    self.act(*a);
                }
                true
            }
            Poll::Pending => false,
        }
    }

    fn clear(&self) {
        for s in &self.slots {
            let f = s.fut.borrow_mut().take();
            drop(f);
        }
    }
}

async fn pipe_read(r: OwnedFd) -> bool {
    let Ok(mut fd) = AsyncFd::new(r) else {
        return false;
    };
    let BufResult(res, buf) = fd.read(Vec::with_capacity(4)).await;
    matches!(res, Ok(1)) && buf.first() == Some(&0x5a)
}

/// One host: polls its member timers.
struct Group {
    w: Rc<World>,
    host: usize,
    members: Vec<usize>,
    first: bool,
}

impl Future for Group {
    type Output = ();

    fn poll(self: Pin<&mut Self>, cx: &mut Context<'_>) -> Poll<()> {
        let me = self.get_mut();
        let w = me.w.clone();
        if aborted() {
            return Poll::Ready(());
        }
        touch();
        {
            let mut ws = w.wakers.borrow_mut();
            if !ws[me.host].as_ref().is_some_and(|x| x.will_wake(cx.waker())) {
                ws[me.host] = Some(cx.waker().clone());
            }
        }
        let prev_host = w.cur_host.replace(me.host);
        if me.first {
            me.first = false;
            if w.prog.lazy {
                for &id in w.prog.order.iter() {
                    if w.prog.timers[id].host == me.host {
                        w.create(id);
                    }
                }
                w.maybe_probe_ct();
            }
        }
        let mut all;
        loop {
            w.dirty[me.host].set(false);
            all = true;
            for &id in &me.members {
                let s = &w.slots[id];
                if s.settled.get() {
                    continue;
                }
                if !s.created.get() {
                    all = false;
                    continue;
                }
                match w.prog.timers[id].fate {
                    Fate::NoPoll => s.settled.set(true),
                    Fate::Park => {
                        if !s.polled.get() {
                            w.poll_slot(id, cx);
                        }
                        s.settled.set(true);
                    }
                    Fate::Await => {
                        if !w.poll_slot(id, cx) {
                            all = false;
                        } else {
                            w.maybe_probe_ct();
                        }
                    }
                }
            }
            if !w.dirty[me.host].get() {
                break;
            }
        }
        w.cur_host.set(prev_host);
        touch();
        if all { Poll::Ready(()) } else { Poll::Pending }
    }
}

fn tick_finding(rule: &str, what: String) {
    with_mon(|m| m.find(rule, "interval_tick", what));
}

async fn iv_actor(w: Rc<World>, spec: IvSpec) {
    let period = Duration::from_nanos(spec.period);
    let b0 = Instant::now();
    let (mut iv, start_lo, start_hi) = if spec.plain {
        let iv = time::interval(period);
        (iv, b0, Instant::now())
    } else {
        let s = w.resolve(spec.start, b0);
        (time::interval_at(s, period), s, s)
    };
    let mut start = if spec.plain { None } else { Some(start_lo) };
    let mut prev: Option<Instant> = None;
    let mut k = 0usize;
    let check = |t: Instant, fp: Option<(Instant, Instant)>, k: &mut usize, prev: &mut Option<Instant>, start: &mut Option<Instant>, rec: Option<usize>| {
        bump(&w.cnt.ticks);
        if *k == 0 {
            if spec.plain {
                if t < start_lo || t > start_hi {
                    tick_finding("interval-first-tick", format!("interval(period): first tick returned an instant {:?} outside the creation bracket", t));
                }
            } else if t != start_lo {
                tick_finding(
                    "interval-first-tick",
                    format!("interval_at(start, period): first tick returned {} instead of start {}", ns(t), ns(start_lo)),
                );
            }
            *start = Some(t);
        } else if let Some(st) = *start {
            if t < st || (t - st).as_nanos() % period.as_nanos() != 0 {
                tick_finding(
                    "interval-misaligned",
                    format!("tick #{k} returned start + {} ns, not a multiple of the period {} ns", ns(t) - ns(st), spec.period),
                );
            }
            if let Some(p) = *prev {
                if t <= p {
                    tick_finding("interval-not-increasing", format!("tick #{k} returned {} after the previous tick {}", ns(t), ns(p)));
                } else if t - p > period {
                    bump(&w.cnt.missed_ticks);
                }
            }
            if let Some((_, c1)) = fp
                && t > c1 + period
            {
                tick_finding(
                    "interval-beyond-one-period",
                    format!("tick #{k} first polled at {} returned {}, more than one period ({} ns) later", ns(c1), ns(t), spec.period),
                );
            }
            if let Some(r) = rec {
                let inside = with_mon(|m| ns(t) >= m.recs[r].d_lo && ns(t) <= m.recs[r].d_hi).unwrap_or(true);
                if !inside {
                    bump(&w.cnt.tick_model_mismatch);
                }
            }
        }
        *prev = Some(t);
        *k += 1;
    };
    for (gap, abandon) in spec.ticks.iter() {
        if aborted() {
            return;
        }
        match gap {
            Gap::None => {}
            Gap::Yield => YieldOnce(false).await,
            Gap::Async(x) => {
                let c0 = Instant::now();
                let d = Duration::from_nanos(*x);
                let f = time::sleep(d);
                let c1 = Instant::now();
                let mut p = Probe::new(
                    "sleep",
                    Box::pin(async move {
                        f.await;
                        Out::Unit
                    }),
                );
                let woken = p.woken.clone();
                p.rec = with_mon(|m| m.create("sleep", ns(c0 + d), ns(c1 + d), ns(c0), ns(c1), woken));
                (&mut p).await;
                drop(p);
            }
            Gap::Block(x) => {
                std::thread::sleep(Duration::from_nanos(*x));
                touch();
            }
        }
        for round in 0..2 {
            if round == 0 && !*abandon {
                continue;
            }
            let src = TickSrc {
                start_lo: start.unwrap_or(start_lo),
                start_hi: start.unwrap_or(start_hi),
                period,
                first: k == 0,
            };
            let mut p = Probe::new("interval_tick", Box::pin(async { Out::Tick(iv.tick().await) })).with_tick(src);
            let out = if round == 0 { PollOnce(&mut p).await } else { Some((&mut p).await) };
            let (fp, rec) = (p.first_poll, p.rec);
            drop(p);
            if let Some(Out::Tick(t)) = out {
                check(t, fp, &mut k, &mut prev, &mut start, rec);
            }
            w.maybe_probe_ct();
        }
    }
}

async fn io_actor(w: Rc<World>, off: i64) {
    let Some((r, wr)) = nb_pipe() else {
        bump(&w.cnt.io_err);
        return;
    };
    w.send(Cmd::Write(add_ns(w.t0.get(), off), wr));
    if pipe_read(r).await {
        bump(&w.cnt.io_done);
    } else {
        bump(&w.cnt.io_err);
    }
    w.maybe_probe_ct();
}

async fn xw_actor(w: Rc<World>, off: i64) {
    let f = XFlag::new();
    w.send(Cmd::Flag(add_ns(w.t0.get(), off), f.clone()));
    XWait(f).await;
    bump(&w.cnt.xw_done);
    w.maybe_probe_ct();
}

async fn main_prog(w: Rc<World>) {
    w.t0.set(Instant::now());
    let prog = &w.prog;
    if !prog.lazy {
        for &id in prog.order.iter() {
            w.create(id);
        }
        w.probe_ct();
    }
    let mut handles = Vec::new();
    for h in 1..prog.nhosts {
        let members: Vec<usize> = (0..prog.timers.len()).filter(|i| prog.timers[*i].host == h).collect();
        handles.push(compio_runtime::spawn(Group {
            w: w.clone(),
            host: h,
            members,
            first: true,
        }));
    }
    for iv in prog.ivs.iter() {
        handles.push(compio_runtime::spawn(iv_actor(w.clone(), iv.clone())));
    }
    for off in prog.ios.iter() {
        handles.push(compio_runtime::spawn(io_actor(w.clone(), *off)));
    }
    for off in prog.xws.iter() {
        handles.push(compio_runtime::spawn(xw_actor(w.clone(), *off)));
    }
    let members: Vec<usize> = (0..prog.timers.len()).filter(|i| prog.timers[*i].host == 0).collect();
    Group {
        w: w.clone(),
        host: 0,
        members,
        first: true,
    }
    .await;
    for h in handles {
        if let Err(compio_runtime::JoinError::Panicked(p)) = h.await {
            std::panic::resume_unwind(p);
        }
    }
    if aborted() {
        return;
    }
    // everything that is still alive goes now, in the program's order
    w.probe_ct();
    for &id in prog.end_order.iter() {
        let f = w.slots[id].fut.borrow_mut().take();
        drop(f);
        if w.rng.borrow_mut().chance(1, 4) {
            w.probe_ct();
        }
    }
    w.probe_ct();
    // idle phase: nothing left, the run loop must block without a timeout
    // until another thread wakes it
    if prog.idle_ms > 0 {
        let f = XFlag::new();
        let at = (Instant::now() + Duration::from_millis(prog.idle_ms)).max(w.last_cmd.get() + Duration::from_millis(1));
        w.send(Cmd::Flag(at, f.clone()));
        with_mon(|m| m.idle = true);
        XWait(f).await;
        with_mon(|m| m.idle = false);
        w.probe_ct();
    }
}

// ---------------------------------------------------------------------------
// Generator
// ---------------------------------------------------------------------------

fn near(rng: &mut Rng) -> i64 {
    match rng.below(3) {
        0 => rng.range(50_000, 1_000_000) as i64,
        1 => rng.range(1_000_000, 10_000_000) as i64,
        _ => rng.range(10_000_000, 40_000_000) as i64,
    }
}

fn far(rng: &mut Rng) -> i64 {
    *rng.pick(&[5_000_000_000i64, 3_600_000_000_000, 30 * 86_400_000_000_000, 3650 * 86_400_000_000_000])
}

fn pick_script(rng: &mut Rng, when: When) -> Script {
    let nearish = matches!(when, When::At(o) if o < FAR_NS);
    let d = when.off();
    let delta = *rng.pick(&[-1_000_000i64, -50_000, -1_000, 0, 1_000, 50_000, 1_000_000]);
    let at = (d + delta).max(0);
    match rng.below(if nearish { 10 } else { 6 }) {
        0..=2 => Script::Never,
        3..=5 => Script::AtPoll {
            k: rng.range(1, 4) as u32,
            selfwake: rng.chance(1, 2),
        },
        6 | 7 => Script::WhenPast(at),
        8 => Script::XWake(at),
        _ => Script::Io(at),
    }
}

struct SetOpts {
    tmo_only: bool,
    plain: bool,
}

/// Turn a list of deadlines into a full program.
fn decorate(rng: &mut Rng, family: &'static str, shape: String, whens: Vec<When>, o: SetOpts) -> Prog {
    let n = whens.len();
    let nhosts = if o.plain { *rng.pick(&[1usize, 1, 2]) } else { *rng.pick(&[1usize, 1, 2, 3, 5]) };
    let mut timers: Vec<TSpec> = whens
        .iter()
        .map(|w| {
            let api = if o.tmo_only {
                *rng.pick(&[Api::Timeout, Api::TimeoutAt])
            } else {
                *rng.pick(&[
                    Api::Sleep,
                    Api::Sleep,
                    Api::Sleep,
                    Api::SleepUntil,
                    Api::SleepUntil,
                    Api::SleepUntil,
                    Api::Timeout,
                    Api::TimeoutAt,
                ])
            };
            let fate = if w.is_far() {
                *rng.pick(&[Fate::Park, Fate::NoPoll, Fate::Await])
            } else if o.plain {
                Fate::Await
            } else {
                *rng.pick(&[Fate::Await, Fate::Await, Fate::Await, Fate::Await, Fate::Await, Fate::Await, Fate::Await, Fate::Await, Fate::Park, Fate::NoPoll])
            };
            TSpec {
                api,
                when: *w,
                host: rng.below(nhosts),
                by_act: false,
                fate,
                hold: !o.plain && rng.chance(1, 5),
                fresh: !o.plain && rng.chance(1, 5),
                script: if api.is_timeout() { pick_script(rng, *w) } else { Script::Never },
                on_done: Vec::new(),
                on_wake: Vec::new(),
            }
        })
        .collect();
    // roles
    let mut role = vec![0u8; n]; // 0 free, 1 dropper/creator, 2 victim, 3 created-by-action
    let guaranteed = |t: &TSpec| t.fate == Fate::Await && !t.when.is_far();
    if !o.plain && n >= 2 {
        let ndrop = rng.below((n / 2).min(4) + 1);
        for _ in 0..ndrop {
            let src: Vec<usize> = (0..n).filter(|i| role[*i] <= 1 && guaranteed(&timers[*i])).collect();
            let vic: Vec<usize> = (0..n).filter(|i| role[*i] == 0 || role[*i] == 3).collect();
            if src.is_empty() || vic.is_empty() {
                break;
            }
            let s = *rng.pick(&src);
            let v = *rng.pick(&vic);
            if s == v {
                continue;
            }
            role[s] = 1;
            if role[v] == 0 {
                role[v] = 2;
            }
            timers[s].on_done.push(Act::Drop(v));
        }
        let ncreate = rng.below((n / 3).min(3) + 1);
        for _ in 0..ncreate {
            let src: Vec<usize> = (0..n).filter(|i| role[*i] <= 1 && guaranteed(&timers[*i])).collect();
            let tgt: Vec<usize> = (0..n).filter(|i| role[*i] == 0).collect();
            if src.is_empty() || tgt.is_empty() {
                break;
            }
            let s = *rng.pick(&src);
            let c = *rng.pick(&tgt);
            if s == c {
                continue;
            }
            role[s] = 1;
            role[c] = 3;
            timers[c].by_act = true;
            timers[s].on_done.push(Act::Create(c));
        }
    }
    // far timers that would be awaited need someone to drop them
    let victims: Vec<bool> = (0..n).map(|i| timers.iter().any(|t| t.on_done.iter().any(|a| matches!(a, Act::Drop(v) if *v == i)))).collect();
    for (i, t) in timers.iter_mut().enumerate() {
        if t.when.is_far() && t.fate == Fate::Await && !victims[i] {
            t.fate = Fate::Park;
        }
        // an awaited timeout whose inner never finishes and whose deadline is
        // far: same thing
        if t.when.is_far() && !matches!(t.script, Script::Never | Script::AtPoll { .. }) {
            t.script = Script::Never;
        }
    }
    let starts: Vec<usize> = (0..n).filter(|i| !timers[*i].by_act).collect();
    let mut order = starts.clone();
    match rng.below(4) {
        0 => {}
        1 => order.reverse(),
        2 => rng.shuffle(&mut order),
        _ => order.sort_by_key(|i| std::cmp::Reverse(whens[*i].off())),
    }
    let mut end_order: Vec<usize> = (0..n).collect();
    match rng.below(3) {
        0 => {}
        1 => end_order.reverse(),
        _ => rng.shuffle(&mut end_order),
    }
    // I/O completions and cross-thread wakes near deadlines
    let mut ios = Vec::new();
    let mut xws = Vec::new();
    let nears: Vec<i64> = whens.iter().filter(|w| !w.is_far()).map(|w| w.off()).collect();
    if !o.plain && !nears.is_empty() && rng.chance(2, 5) {
        for _ in 0..rng.range(1, 3) {
            let d = *rng.pick(&nears) + *rng.pick(&[-200_000i64, -20_000, 0, 20_000, 200_000, 2_000_000]);
            if rng.chance(1, 2) {
                ios.push(d.max(10_000));
            } else {
                xws.push(d.max(10_000));
            }
        }
    }
    Prog {
        family,
        shape,
        drv: if rng.chance(1, 2) { Drv::Iour } else { Drv::Poll },
        ev_int: *rng.pick(&[61usize, 61, 61, 1, 2, 7]),
        lazy: !o.plain && rng.chance(1, 4),
        nhosts,
        timers,
        order,
        end_order,
        ios,
        xws,
        ivs: Vec::new(),
        idle_ms: *rng.pick(&[0u64, 5, 10, 15]),
        ct_prob: *rng.pick(&[0usize, 20, 50, 100]),
    }
}

fn cluster(rng: &mut Rng, at: i64, out: &mut Vec<When>) {
    let k = rng.range(1, 4);
    let spread = *rng.pick(&[0i64, 1, 1_000, 2_000_000]);
    for i in 0..k {
        let d = match spread {
            0 => 0,
            1 | 1_000 => spread * i as i64,
            s => rng.below(s as usize + 1) as i64,
        };
        out.push(When::At(at + d));
    }
}

fn gen_dense(rng: &mut Rng) -> (String, Vec<When>) {
    let mut w = Vec::new();
    let shape = *rng.pick(&["single", "equal", "ladder-1us", "ladder-1ns", "dense-ms", "pastnow-mix"]);
    match shape {
        "single" => w.push(When::At(near(rng))),
        "equal" => {
            let d = near(rng);
            for _ in 0..rng.range(2, 6) {
                w.push(When::At(d));
            }
        }
        "ladder-1us" | "ladder-1ns" => {
            let d = near(rng);
            let step = if shape == "ladder-1us" { 1_000 } else { 1 };
            for i in 0..rng.range(2, 12) {
                w.push(When::At(d + step * i as i64));
            }
            rng.shuffle(&mut w);
        }
        "dense-ms" => {
            for _ in 0..rng.range(2, 12) {
                w.push(When::At(rng.range(100_000, 30_000_000) as i64));
            }
        }
        _ => {
            for _ in 0..rng.range(1, 3) {
                w.push(When::Past(*rng.pick(&[1u64, 1_000, 1_000_000, 1_000_000_000])));
            }
            for _ in 0..rng.range(1, 2) {
                w.push(When::Now);
            }
            for _ in 0..rng.range(0, 4) {
                w.push(When::At(near(rng)));
            }
            rng.shuffle(&mut w);
        }
    }
    (shape.to_string(), w)
}

fn gen_prog(rng: &mut Rng, only: Option<&str>) -> Prog {
    let fams: &[(&'static str, usize)] = &[
        ("gapped", 22),
        ("dense", 38),
        ("timeout", 12),
        ("interval", 14),
        ("big", 6),
        ("faronly", 5),
        ("reentrant", 3),
    ];
    let family: &'static str = match only {
        Some(f) => fams.iter().find(|x| x.0 == f).map_or("dense", |x| x.0),
        None => {
            let tot: usize = fams.iter().map(|f| f.1).sum();
            let mut x = rng.below(tot);
            let mut r = fams[0].0;
            for f in fams {
                if x < f.1 {
                    r = f.0;
                    break;
                }
                x -= f.1;
            }
            r
        }
    };
    let dflt = SetOpts { tmo_only: false, plain: false };
    match family {
        "gapped" => {
            let nclusters = rng.range(2, 3);
            let mut w = Vec::new();
            let mut at = rng.range(5_000_000, 40_000_000) as i64;
            for _ in 0..nclusters {
                cluster(rng, at, &mut w);
                at += rng.range(300_000_000, 360_000_000) as i64;
            }
            let mut shape = format!("gapped{nclusters}");
            if rng.chance(1, 3) {
                for _ in 0..rng.range(1, 2) {
                    w.push(When::At(far(rng)));
                }
                shape.push_str("+far");
            }
            rng.shuffle(&mut w);
            let mut p = decorate(rng, family, shape, w, dflt);
            p.idle_ms = p.idle_ms.min(5);
            p
        }
        "dense" => {
            let (mut shape, mut w) = gen_dense(rng);
            if rng.chance(1, 4) {
                w.push(When::At(far(rng)));
                shape.push_str("+far");
            }
            decorate(rng, family, shape, w, dflt)
        }
        "timeout" => {
            let (shape, w) = gen_dense(rng);
            decorate(rng, family, shape, w, SetOpts { tmo_only: true, plain: false })
        }
        "big" => {
            let mut w = Vec::new();
            let n = rng.range(17, 64);
            while w.len() < n {
                match rng.below(4) {
                    0 => {
                        let d = near(rng);
                        w.push(When::At(d));
                        w.push(When::At(d));
                    }
                    1 => {
                        let d = near(rng);
                        for i in 0..rng.range(2, 5) {
                            w.push(When::At(d + i as i64 * 1_000));
                        }
                    }
                    2 => w.push(*rng.pick(&[When::Now, When::Past(1), When::Past(1_000_000)])),
                    _ => w.push(When::At(rng.range(100_000, 30_000_000) as i64)),
                }
            }
            w.truncate(64);
            if rng.chance(1, 3) {
                w.pop();
                w.push(When::At(far(rng)));
            }
            rng.shuffle(&mut w);
            decorate(rng, family, "big".into(), w, dflt)
        }
        "faronly" => {
            // only far timers are waiting while I/O / cross-thread wakes arrive
            let mut w = Vec::new();
            for _ in 0..rng.range(1, 3) {
                w.push(When::At(far(rng)));
            }
            let mut p = decorate(rng, family, "far-only".into(), w, SetOpts { tmo_only: false, plain: true });
            for t in p.timers.iter_mut() {
                t.fate = *rng.pick(&[Fate::Park, Fate::Park, Fate::NoPoll]);
                t.script = Script::Never;
            }
            for _ in 0..rng.range(1, 3) {
                let d = rng.range(1_000_000, 30_000_000) as i64;
                if rng.chance(1, 2) {
                    p.ios.push(d);
                } else {
                    p.xws.push(d);
                }
            }
            p.idle_ms = 5;
            p
        }
        "reentrant" => {
            let n = rng.range(2, 4);
            let mut w = Vec::new();
            for _ in 0..n {
                w.push(When::At(rng.range(1_000_000, 20_000_000) as i64));
            }
            let mut p = decorate(rng, family, "dense-ms".into(), w, SetOpts { tmo_only: false, plain: true });
            for t in p.timers.iter_mut() {
                t.api = *rng.pick(&[Api::Sleep, Api::SleepUntil]);
                t.script = Script::Never;
            }
            // the earliest timer's waker acts on another one
            let a = (0..n).min_by_key(|i| p.timers[*i].when.off()).unwrap();
            let v = (a + 1 + rng.below(n - 1)) % n;
            if rng.chance(1, 2) {
                p.timers[a].on_wake.push(Act::Drop(v));
                p.shape = "drop-in-waker".into();
            } else {
                p.timers[v].by_act = true;
                p.order.retain(|i| *i != v);
                p.timers[a].on_wake.push(Act::Create(v));
                p.shape = "create-in-waker".into();
            }
            p.idle_ms = 5;
            p
        }
        _ => {
            // interval
            let nact = rng.range(1, 3);
            let mut ivs = Vec::new();
            for _ in 0..nact {
                let period = *rng.pick(&[333_000u64, 1_000_000, 2_500_000, 7_000_000, 20_000_000]);
                let nt = rng.range(2, if period >= 7_000_000 { 5 } else { 10 });
                let ticks = (0..nt)
                    .map(|_| {
                        let g = match rng.below(8) {
                            0..=2 => Gap::None,
                            3 => Gap::Yield,
                            4 | 5 => Gap::Async(rng.range(10_000, 3 * period as usize) as u64),
                            _ => Gap::Block(rng.range(10_000, 3 * period as usize) as u64),
                        };
                        (g, rng.chance(1, 6))
                    })
                    .collect();
                ivs.push(IvSpec {
                    start: *rng.pick(&[When::Now, When::Past(1_000), When::Past(5_000_000), When::At(1_000_000), When::At(10_000_000)]),
                    plain: rng.chance(1, 3),
                    period,
                    ticks,
                });
            }
            let mut w = Vec::new();
            for _ in 0..rng.below(5) {
                w.push(When::At(near(rng)));
            }
            let mut p = decorate(rng, "interval", format!("iv{nact}"), w, dflt);
            p.ivs = ivs;
            p
        }
    }
}

// ---------------------------------------------------------------------------
// Running one program
// ---------------------------------------------------------------------------

struct Outcome {
    finished: bool,
    panic: Option<panics::PanicInfo>,
    mon: Option<Mon>,
    stalled: bool,
    unsupported: Option<String>,
    why_abort: Option<String>,
    wall_ms: u64,
}

fn run_prog(p: &Prog, kick: &mpsc::Sender<Cmd>, rng: Rng, counters: &mut dyn FnMut(&World)) -> Outcome {
    let started = Instant::now();
    let stalls0 = STALLS.load(Ordering::SeqCst);
    mon::ABORT.store(false, Ordering::SeqCst);
    *mon::ABORT_WHY.lock().unwrap_or_else(|e| e.into_inner()) = None;
    let mut pb = ProactorBuilder::new();
    pb.driver_type(match p.drv {
        Drv::Iour => DriverType::IoUring,
        Drv::Poll => DriverType::Poll,
    });
    let rt = match Runtime::builder().with_proactor(pb).event_interval(p.ev_int).build() {
        Ok(rt) => rt,
        Err(e) => {
            return Outcome {
                finished: false,
                panic: None,
                mon: None,
                stalled: false,
                unsupported: Some(format!("cannot build a {} runtime: {e}", p.drv.name())),
                why_abort: None,
                wall_ms: 0,
            };
        }
    };
    mon::MON.with(|m| *m.borrow_mut() = Some(Mon::new()));
    verif::drain();
    verif::enable(true);
    let world = World::new(p.clone(), kick.clone(), rng);
    {
        let w = Rc::downgrade(&world);
        let hook: Rc<dyn Fn(usize)> = Rc::new(move |id| {
            if let Some(w) = w.upgrade() {
                let acts = w.prog.timers[id].on_wake.clone();
                for a in acts {
                    match a {
                        Act::Drop(_) => bump(&w.cnt.waker_drops),
                        Act::Create(_) => bump(&w.cnt.waker_creates),
                    }
                    w.act(a);
                }
            }
        });
        mon::WAKE_HOOK.with(|h| *h.borrow_mut() = Some(hook));
    }
    WD_DEADLINE.store(now_ns() + p.horizon() + 2_500_000_000 + p.idle_ms as i64 * 1_000_000, Ordering::SeqCst);
    let r = panics::catch(|| rt.block_on(MainFut(Box::pin(main_prog(world.clone())))));
    WD_DEADLINE.store(0, Ordering::SeqCst);
    verif::enable(false);
    verif::drain();
    mon::WAKE_HOOK.with(|h| *h.borrow_mut() = None);
    *MAIN_WAKER.lock().unwrap_or_else(|e| e.into_inner()) = None;
    counters(&world);
    let m = mon::MON.with(|m| m.borrow_mut().take());
    // tear down without the monitor: what is left is dropped with the runtime
    let _ = panics::catch(|| {
        world.clear();
        drop(rt);
    });
    drop(world);
    let why = mon::ABORT_WHY.lock().unwrap_or_else(|e| e.into_inner()).clone();
    Outcome {
        finished: matches!(r, Ok(true)),
        panic: r.err(),
        mon: m,
        stalled: STALLS.load(Ordering::SeqCst) != stalls0,
        unsupported: None,
        why_abort: why,
        wall_ms: started.elapsed().as_millis() as u64,
    }
}

fn record(rep: &mut Report, p: &Prog, o: Outcome, replay: Value) {
    let drv = p.drv.name();
    if let Some(u) = o.unsupported {
        rep.eval(None);
        rep.inconclusive(&u);
        return;
    }
    rep.eval(Some(p.sig()));
    rep.max("program_wall_ms", o.wall_ms as i64);
    rep.floor(&format!("driver-{drv}"), true);
    let mut nviol = 0;
    if let Some(pi) = &o.panic {
        match pi.origin() {
            panics::Origin::Repo(_) => {
                let ctx = if p.family == "reentrant" { p.shape.clone() } else { format!("{}:{}", p.family, p.shape) };
                rep.violation(
                    &format!("C09/{}/{ctx}/{drv}", pi.sig()),
                    &format!("panic in compio at {}:{}: {}", pi.file, pi.line, pi.message),
                    replay.clone(),
                );
                nviol += 1;
            }
            o => rep.inconclusive(&format!("harness panic {o:?}: {}", pi.message)),
        }
    }
    let Some(m) = o.mon else { return };
    if o.panic.is_none() {
        for f in m.findings.iter() {
            let what = format!("{} | recent driver polls: {}", f.what, m.recent_polls());
            rep.violation(&format!("C09/{}/{}/{drv}/{}", f.rule, f.api, p.shape), &what, replay.clone());
            nviol += 1;
        }
        if !m.too_long.is_empty() {
            if o.stalled {
                rep.inconclusive("always-fires timeout sub-check skipped: heartbeat saw a scheduling stall");
            } else {
                for f in m.too_long.iter() {
                    let what = format!("{} | recent driver polls: {}", f.what, m.recent_polls());
                    rep.violation(&format!("C09/{}/{}/{drv}/{}", f.rule, f.api, p.shape), &what, replay.clone());
                    nviol += 1;
                }
            }
        }
        if !o.finished && nviol == 0 {
            rep.inconclusive(&format!(
                "program did not finish ({}); no monitor rule fired",
                o.why_abort.clone().unwrap_or_else(|| "?".into())
            ));
        }
        if o.finished && m.stats.max_late_ns > 1_000_000_000 && nviol == 0 {
            rep.inconclusive("a timer completed more than 1 s after its deadline without a monitor rule firing");
        }
    }
    let s = &m.stats;
    if o.stalled {
        rep.count("programs_with_heartbeat_stall", 1);
    }
    rep.count("driver_polls", s.cycles as i64);
    rep.count("driver_polls_with_waiting_timers", s.polls_waiting as i64);
    rep.count("driver_polls_timeout_within_bound", s.polls_waiting_checked as i64);
    rep.count("timeout_check_skipped_self_gap", s.self_gap_skips as i64);
    rep.count("driver_polls_without_pollenter_event", s.no_pollenter as i64);
    rep.count("timer_completions", s.completed as i64);
    rep.count("expiry_completions_checked_not_early", s.expired_completions as i64);
    rep.count("expired_waiting_timers_checked_woken", s.due_checked as i64);
    rep.count("current_timeout_probes", s.ct_probes as i64);
    rep.count("current_timeout_probes_some", s.ct_probes_some as i64);
    rep.count("idle_polls_infinite", s.idle_inf as i64);
    rep.count("drops_while_waiting", s.drops_waiting as i64);
    rep.count("drops_after_completion", s.drops_done as i64);
    rep.count("drops_never_polled", s.drops_unpolled as i64);
    rep.max("max_lateness_us", s.max_late_ns / 1000);
    rep.max("max_driver_polls_per_program", s.cycles as i64);
    rep.floor("never-early-checked", s.expired_completions > 0);
    rep.floor("poll-entered-with-waiting-timers", s.polls_waiting_checked > 0);
    rep.floor("gapped-set-poll-timeout-checked", p.family == "gapped" && s.polls_waiting_checked > 0);
    rep.floor("expired-timer-woken-checked", s.due_checked > 0);
    rep.floor("drop-while-waiting", s.drops_waiting > 0);
    rep.floor("drop-after-fire", s.drops_done > 0);
    rep.floor("drop-never-polled", s.drops_unpolled > 0);
    rep.floor("idle-infinite-poll", s.idle_inf > 0);
    rep.floor("current-timeout-probed-some", s.ct_probes_some > 0);
    rep.floor("equal-deadlines", p.shape.starts_with("equal") || p.family == "big");
    rep.floor("big-set-64", p.timers.len() >= 48);
}

pub fn main(args: &Args) {
    base();
    let rep = Arc::new(Mutex::new(Report::from_args("C09", &args.str("leg", "plain"), args)));
    verif::set_pause_hook(Some(mon::pause_hook));
    let (tx, rx) = mpsc::channel::<Cmd>();
    std::thread::Builder::new().name("c09-kicker".into()).spawn(move || kicker(rx)).expect("spawn kicker");
    {
        let rep = rep.clone();
        std::thread::Builder::new().name("c09-heartbeat".into()).spawn(move || heartbeat(rep)).expect("spawn heartbeat");
    }
    let only = args.get("family").map(|s| s.to_string());

    let mut tot = Totals::default();
    let mut run_one = |index: u64, seed: u64, shard: u64, only: Option<&str>, rep: &Arc<Mutex<Report>>| {
        let g = Rng::new(seed).fork(shard + 1).fork(index);
        let mut rng = g.clone();
        let p = gen_prog(&mut rng, only);
        let replay = json!({"seed": seed, "shard": shard, "index": index, "family_arg": only, "program": p.to_json()});
        let mut grab = |w: &World| tot.add(w);
        let o = run_prog(&p, &tx, g.fork(0xC09), &mut grab);
        let mut r = rep.lock().unwrap_or_else(|e| e.into_inner());
        if r.want_sample() && p.timers.len() >= 3 && o.finished {
            r.sample(p.to_json());
        }
        record(&mut r, &p, o, replay);
    };

    if let Some(path) = args.get("replay") {
        let text = std::fs::read_to_string(path).expect("replay file");
        let v: Value = vcommon::serde_json::from_str(&text).expect("replay json");
        let pr = &v["program"];
        let seed = pr["seed"].as_u64().unwrap_or(1);
        let shard = pr["shard"].as_u64().unwrap_or(0);
        let index = pr["index"].as_u64().unwrap_or(0);
        let fam = pr["family_arg"].as_str().map(|s| s.to_string());
        for _ in 0..args.usize("repeat", 5) {
            run_one(index, seed, shard, fam.as_deref(), &rep);
        }
    } else {
        let iters = args.iters(100_000, 1_000_000) as u64;
        let mut i = 0u64;
        while i < iters {
            if rep.lock().unwrap_or_else(|e| e.into_inner()).out_of_time() {
                break;
            }
            run_one(i, args.seed(), args.shard(), only.as_deref(), &rep);
            i += 1;
        }
    }
    let mut r = rep.lock().unwrap_or_else(|e| e.into_inner());
    tot.report(&mut r);
    r.max("max_heartbeat_gap_ms", MAX_HB_GAP_NS.load(Ordering::Relaxed) / 1_000_000);
    r.count("heartbeat_stalls", STALLS.load(Ordering::SeqCst) as i64);
    r.note("slack 100 ms for driver-poll timeouts; never-early and the wake/ready/current_timeout rules have no slack");
    r.finish();
    std::process::exit(0);
}

#[derive(Default)]
struct Totals {
    tmo_ok: u64,
    tmo_err: u64,
    tmo_ok_at_expiry: u64,
    ticks: u64,
    missed: u64,
    mismatch: u64,
    io_done: u64,
    io_err: u64,
    xw: u64,
    drops: u64,
    drops_other: u64,
    creates: u64,
    past: u64,
    waker_drops: u64,
    waker_creates: u64,
}

impl Totals {
    fn add(&mut self, w: &World) {
        let c = &w.cnt;
        self.tmo_ok += c.tmo_ok.get();
        self.tmo_err += c.tmo_err.get();
        self.tmo_ok_at_expiry += c.tmo_ok_at_expiry.get();
        self.ticks += c.ticks.get();
        self.missed += c.missed_ticks.get();
        self.mismatch += c.tick_model_mismatch.get();
        self.io_done += c.io_done.get();
        self.io_err += c.io_err.get();
        self.xw += c.xw_done.get();
        self.drops += c.acts_drop.get();
        self.drops_other += c.acts_drop_in_other_task.get();
        self.creates += c.acts_create.get();
        self.past += c.created_past.get();
        self.waker_drops += c.waker_drops.get();
        self.waker_creates += c.waker_creates.get();
    }

    fn report(&self, r: &mut Report) {
        r.count("timeouts_ok", self.tmo_ok as i64);
        r.count("timeouts_elapsed", self.tmo_err as i64);
        r.count("timeouts_ok_at_or_after_deadline", self.tmo_ok_at_expiry as i64);
        r.count("interval_ticks", self.ticks as i64);
        r.count("interval_ticks_after_missed_periods", self.missed as i64);
        r.count("interval_tick_model_mismatch", self.mismatch as i64);
        r.count("pipe_reads_completed", self.io_done as i64);
        r.count("pipe_read_errors", self.io_err as i64);
        r.count("cross_thread_wakes_awaited", self.xw as i64);
        r.count("drop_actions", self.drops as i64);
        r.count("drop_actions_from_another_task", self.drops_other as i64);
        r.count("create_actions", self.creates as i64);
        r.count("timers_created_already_due", self.past as i64);
        r.floor("timeout-ok", self.tmo_ok > 0);
        r.floor("timeout-elapsed", self.tmo_err > 0);
        r.floor("timeout-inner-wins-at-expiry", self.tmo_ok_at_expiry > 0);
        r.floor("interval-ticks", self.ticks > 0);
        r.floor("interval-missed-periods", self.missed > 0);
        r.floor("pipe-read-race", self.io_done > 0);
        r.floor("cross-thread-wake", self.xw > 0);
        r.floor("drop-from-another-task", self.drops_other > 0);
        r.floor("timer-created-already-due", self.past > 0);
        r.count("drops_inside_a_timer_waker", self.waker_drops as i64);
        r.count("creates_inside_a_timer_waker", self.waker_creates as i64);
        r.floor("drop-inside-timer-waker", self.waker_drops > 0);
        r.floor("create-inside-timer-waker", self.waker_creates > 0);
        if self.mismatch > 0 {
            r.inconclusive("interval tick returned an instant outside the harness model of the next tick; timeout/wake rules for that tick are unreliable");
        }
        if self.io_err > 0 {
            r.inconclusive("a pipe read of the harness failed (not a timer matter)");
        }
    }
}
