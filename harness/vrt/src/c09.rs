//! C09 timers never fire early and always fire — not built yet.

use vcommon::Args;

pub fn main(_args: &Args) {
    eprintln!("c09: not implemented");
    std::process::exit(3);
}
