//! C09 monitor: the online oracle for compio's timers.
//!
//! Everything in here runs on the runtime thread. The monitor keeps one
//! record per harness timer (deadline as an interval `[d_lo, d_hi]` of
//! nanoseconds since the process base, state, "woken" flag of the waker that
//! compio holds) and is fed from three places:
//!
//! * [`Probe`], the wrapper around every timer future: polls, results
//!   (`Instant::now()` first thing after the inner poll returned), drops;
//! * the driver's pause points before / after the kernel wait, together with
//!   the `PollEnter{timeout}` event of the verification log, i.e. once per
//!   driver poll of the run loop;
//! * explicit `Runtime::current_timeout()` probes.
//!
//! Rules (only `poll-timeout-too-long` involves a tolerance; the others
//! compare `Instant`s taken on the runtime thread, which are monotone, or
//! are purely logical):
//!
//! * `early` — a completed sleep / elapsed timeout / tick observed `now <
//!   deadline` (`now` taken first thing after the poll returned `Ready`; for
//!   `sleep(d)` / `timeout(d, _)` the deadline is bounded below by the instant
//!   taken just before the call plus `d`).
//! * `poll-timeout-none` / `poll-timeout-too-long` — the run loop entered the
//!   driver (`PollEnter{timeout}`) with timers waiting (last poll returned
//!   `Pending`, not dropped, not already expired-and-woken) and no timeout, or
//!   `now + timeout > max(min deadline, now) + 100 ms`. The latter is
//!   suppressed when the runtime thread itself was away for > 20 ms between
//!   the last harness activity and the measurement, or the heartbeat thread
//!   saw a scheduling stall during the program.
//! * `not-woken` — a waiting timer whose deadline was before the entry (or,
//!   where observable, the exit) of driver poll i — so the
//!   `TimerRuntime::wake` after that poll ran with `now > deadline` — and
//!   whose most recent waker had not been woken when the run loop entered
//!   driver poll i+1.
//! * `pending-after-expiry` — such a timer was polled after that `wake()` and
//!   returned `Pending`.
//! * `stale-waker` — a timer that was `Pending` turned `Ready` although the
//!   waker of its previous poll was never woken (an older waker was kept).
//! * `ct-*` — `current_timeout()` disagrees with the set of live harness
//!   timers (`ct-none-with-live-timer`: no entry although a live timer is in
//!   the future; `ct-not-nearest`: first entry later than a live timer;
//!   `ct-ghost-deadline`: first entry matches no live timer = residue of a
//!   dropped / fired timer).
//! * `idle-poll-timeout` — a driver poll of an idle runtime (no timers, no
//!   tasks) with a timeout.
//! * `timeout-*` — `Timeout` vs. its scripted inner future: `Ok` without the
//!   inner having finished in that very poll, `Err(Elapsed)` / `Pending`
//!   although the inner had finished or was ready when the poll began (inner
//!   comes first in poll order), inner polled after completion, wrong value.
//! * `interval-*` — checked by the interval actor in `c09.rs`.

use std::{
    cell::{Cell, RefCell},
    collections::VecDeque,
    future::Future,
    pin::Pin,
    rc::Rc,
    sync::{
        Arc, Mutex, OnceLock,
        atomic::{AtomicBool, AtomicU64, Ordering},
    },
    task::{Context, Poll, Wake, Waker},
    time::{Duration, Instant},
};

use compio_driver::verif::{self, Kind, Point};

pub const SLACK_NS: i64 = 100_000_000;
pub const SELF_GAP_NS: i64 = 20_000_000;
pub const CYCLE_LIMIT: u64 = 400_000;
pub const NONE_TIMEOUT: u64 = u64::MAX;

static BASE: OnceLock<Instant> = OnceLock::new();

pub fn base() -> Instant {
    *BASE.get_or_init(Instant::now)
}

/// Nanoseconds since the process base (negative before it).
pub fn ns(t: Instant) -> i64 {
    let b = base();
    if t >= b {
        (t - b).as_nanos().min(i64::MAX as u128) as i64
    } else {
        -((b - t).as_nanos().min(i64::MAX as u128) as i64)
    }
}

pub fn now_ns() -> i64 {
    ns(Instant::now())
}

pub static ABORT: AtomicBool = AtomicBool::new(false);
pub static ABORT_WHY: Mutex<Option<String>> = Mutex::new(None);

pub fn abort(why: &str) {
    let mut g = ABORT_WHY.lock().unwrap_or_else(|e| e.into_inner());
    if g.is_none() {
        *g = Some(why.to_string());
    }
    ABORT.store(true, Ordering::SeqCst);
}

pub fn aborted() -> bool {
    ABORT.load(Ordering::Relaxed)
}

#[derive(Debug, Clone)]
pub struct Finding {
    pub rule: String,
    pub api: String,
    pub what: String,
}

#[derive(Clone, Copy, PartialEq, Eq, Debug)]
pub enum St {
    Created,
    Waiting,
    /// Was waiting when a `TimerRuntime::wake` with `now > deadline` ran: no
    /// longer in the wheel, the future has not been polled since.
    Fired,
    Done,
    Dropped,
}

#[derive(Clone, Copy, PartialEq, Eq, Debug)]
pub enum Ins {
    Yes,
    No,
    Maybe,
}

pub struct Rec {
    pub api: &'static str,
    pub d_lo: i64,
    pub d_hi: i64,
    pub ins: Ins,
    pub st: St,
    pub due: bool,
    pub woken: Arc<Wk>,
    /// A `Timeout` that returned `Ok` keeps its `Sleep` registered until the
    /// future is dropped.
    pub wheel_after_done: bool,
}

#[derive(Clone, Copy, Default)]
struct PollRec {
    t_before: i64,
    timeout: u64,
    t_after: i64,
    min_wait: i64,
}

#[derive(Default)]
pub struct Stats {
    pub cycles: u64,
    pub polls_waiting: u64,
    pub polls_waiting_checked: u64,
    pub self_gap_skips: u64,
    pub no_pollenter: u64,
    pub completed: u64,
    pub expired_completions: u64,
    pub max_late_ns: i64,
    pub ct_probes: u64,
    pub ct_probes_some: u64,
    pub idle_inf: u64,
    pub idle_other: u64,
    pub due_checked: u64,
    pub drops_waiting: u64,
    pub drops_done: u64,
    pub drops_unpolled: u64,
}

pub struct Mon {
    pub recs: Vec<Rec>,
    pub findings: Vec<Finding>,
    pub too_long: Vec<Finding>,
    pub stats: Stats,
    pub idle: bool,
    last_touch: i64,
    ring: VecDeque<PollRec>,
}

thread_local! {
    pub static MON: RefCell<Option<Mon>> = const { RefCell::new(None) };
    /// Runs the `on_wake` actions of spec timer `token` (installed by the
    /// program runner).
    pub static WAKE_HOOK: RefCell<Option<Rc<dyn Fn(usize)>>> = const { RefCell::new(None) };
}

pub fn with_mon<R>(f: impl FnOnce(&mut Mon) -> R) -> Option<R> {
    MON.try_with(|c| {
        let mut g = c.try_borrow_mut().ok()?;
        g.as_mut().map(f)
    })
    .ok()
    .flatten()
}

pub fn touch() {
    let t = now_ns();
    with_mon(|m| m.last_touch = t);
}

fn fmt_ns(v: i64) -> String {
    format!("{:.3}ms", v as f64 / 1e6)
}

impl Mon {
    pub fn new() -> Self {
        Self {
            recs: Vec::new(),
            findings: Vec::new(),
            too_long: Vec::new(),
            stats: Stats::default(),
            idle: false,
            last_touch: now_ns(),
            ring: VecDeque::new(),
        }
    }

    pub fn find(&mut self, rule: &str, api: &str, what: String) {
        if !self.findings.iter().any(|f| f.rule == rule && f.api == api) && self.findings.len() < 16 {
            self.findings.push(Finding {
                rule: rule.to_string(),
                api: api.to_string(),
                what,
            });
        }
    }

    pub fn create(&mut self, api: &'static str, d_lo: i64, d_hi: i64, c_lo: i64, c_hi: i64, woken: Arc<Wk>) -> usize {
        let ins = if d_lo > c_hi {
            Ins::Yes
        } else if d_hi <= c_lo {
            Ins::No
        } else {
            Ins::Maybe
        };
        self.recs.push(Rec {
            api,
            d_lo,
            d_hi,
            ins,
            st: St::Created,
            due: false,
            woken,
            wheel_after_done: false,
        });
        self.last_touch = c_hi;
        self.recs.len() - 1
    }

    /// Result of one poll of timer `rec`. `expiry`: the result means "the
    /// deadline was reached" (sleep done, timeout elapsed, tick). `claimed`:
    /// the deadline the result itself claims (tick instant).
    pub fn polled(&mut self, rec: usize, ready: bool, expiry: bool, tmo_ok: bool, claimed: Option<i64>, now: i64) {
        let (api, d_lo, d_hi, due) = {
            let r = &self.recs[rec];
            (r.api, r.d_lo, r.d_hi, r.due || r.st == St::Fired)
        };
        if ready {
            self.stats.completed += 1;
            if expiry {
                self.stats.expired_completions += 1;
                let lo = claimed.unwrap_or(d_lo);
                if now < lo {
                    self.find(
                        "early",
                        api,
                        format!(
                            "{api} completed {} before its deadline (deadline {} after base, completion observed at {})",
                            fmt_ns(lo - now),
                            fmt_ns(lo),
                            fmt_ns(now)
                        ),
                    );
                }
                if self.recs[rec].ins == Ins::Yes {
                    self.stats.max_late_ns = self.stats.max_late_ns.max(now - claimed.unwrap_or(d_hi));
                }
            }
            let r = &mut self.recs[rec];
            r.st = St::Done;
            r.due = false;
            r.wheel_after_done = tmo_ok;
        } else {
            if due {
                self.find(
                    "pending-after-expiry",
                    api,
                    format!(
                        "{api} with deadline {} was polled after a driver poll that returned at {} (and the TimerRuntime::wake that follows it) and is still Pending",
                        fmt_ns(d_hi),
                        fmt_ns(self.ring.back().map_or(0, |p| p.t_after))
                    ),
                );
            }
            if !due {
                self.recs[rec].st = St::Waiting;
            }
        }
        self.last_touch = now;
    }

    pub fn dropped(&mut self, rec: usize) {
        let r = &mut self.recs[rec];
        match r.st {
            St::Waiting => self.stats.drops_waiting += 1,
            St::Done | St::Fired => self.stats.drops_done += 1,
            St::Created => self.stats.drops_unpolled += 1,
            St::Dropped => {}
        }
        r.st = St::Dropped;
        r.due = false;
    }

    fn on_before(&mut self, t: i64, tmo: Option<u64>) {
        self.stats.cycles += 1;
        if self.stats.cycles == CYCLE_LIMIT {
            abort("cycle-limit");
        }
        // not-woken
        let mut nw: Option<(&'static str, i64)> = None;
        for r in self.recs.iter_mut() {
            if r.due {
                r.due = false;
                if r.st == St::Waiting {
                    r.st = St::Fired;
                    self.stats.due_checked += 1;
                    if !r.woken.is_woken() {
                        nw = Some((r.api, r.d_hi));
                    }
                }
            }
        }
        if let Some((api, d)) = nw {
            let ta = self.ring.back().map_or(0, |p| p.t_after);
            self.find(
                "not-woken",
                api,
                format!(
                    "{api} with deadline {} was waiting and expired before a driver poll (previous poll: exit observed at {}); TimerRuntime::wake ran after it, yet when the run loop entered the next driver poll at {} the timer's current waker had not been woken",
                    fmt_ns(d),
                    fmt_ns(ta),
                    fmt_ns(t)
                ),
            );
        }
        let Some(tmo) = tmo else {
            self.stats.no_pollenter += 1;
            return;
        };
        // poll timeout vs waiting timers
        let mut min_wait: Option<(i64, &'static str)> = None;
        for r in self.recs.iter_mut() {
            if r.st != St::Waiting {
                continue;
            }
            // Expired and already woken: swept by the `wake()` after the
            // previous driver poll (whose exit time is not observable on
            // io_uring when the wait timed out); it is not waiting any more.
            let swept = r.d_hi < t && r.woken.is_woken();
            if !swept && min_wait.is_none_or(|m| r.d_hi < m.0) {
                min_wait = Some((r.d_hi, r.api));
            }
            // The `wake()` after this driver poll runs with `now >= t`.
            if r.d_hi < t {
                r.due = true;
            }
        }
        if let Some((m, api)) = min_wait {
            self.stats.polls_waiting += 1;
            if tmo == NONE_TIMEOUT {
                self.find(
                    "poll-timeout-none",
                    api,
                    format!(
                        "driver poll entered at {} without a timeout while a {api} with deadline {} is waiting",
                        fmt_ns(t),
                        fmt_ns(m)
                    ),
                );
            } else {
                // a deadline that has already passed demands "do not sleep",
                // not "have been there earlier" (that is lateness, not ours)
                let end = (t as i128) + (tmo as i128);
                if end > (m.max(t) as i128) + (SLACK_NS as i128) {
                    if t - self.last_touch > SELF_GAP_NS {
                        self.stats.self_gap_skips += 1;
                    } else if self.too_long.is_empty() {
                        self.too_long.push(Finding {
                            rule: "poll-timeout-too-long".into(),
                            api: api.into(),
                            what: format!(
                                "driver poll entered at {} with timeout {} (would sleep until {}), but a {api} with deadline {} is waiting: {} beyond the deadline (slack 100 ms)",
                                fmt_ns(t),
                                fmt_ns(tmo.min(i64::MAX as u64) as i64),
                                fmt_ns(end.min(i64::MAX as i128) as i64),
                                fmt_ns(m),
                                fmt_ns((end - m as i128).min(i64::MAX as i128) as i64)
                            ),
                        });
                    }
                } else {
                    self.stats.polls_waiting_checked += 1;
                }
            }
        }
        if self.idle {
            if tmo == NONE_TIMEOUT {
                self.stats.idle_inf += 1;
            } else {
                self.stats.idle_other += 1;
                self.find(
                    "idle-poll-timeout",
                    "block_on",
                    format!(
                        "all timers fired or dropped, no tasks left, current_timeout() == None, yet the idle run loop entered the driver poll with timeout {}",
                        fmt_ns(tmo.min(i64::MAX as u64) as i64)
                    ),
                );
            }
        }
        if self.ring.len() >= 8 {
            self.ring.pop_front();
        }
        self.ring.push_back(PollRec {
            t_before: t,
            timeout: tmo,
            t_after: t,
            min_wait: min_wait.map_or(i64::MAX, |m| m.0),
        });
    }

    fn on_after(&mut self, t: i64) {
        if let Some(p) = self.ring.back_mut() {
            p.t_after = t;
        }
        for r in self.recs.iter_mut() {
            if r.st == St::Waiting && r.d_hi < t {
                r.due = true;
            }
        }
    }

    pub fn recent_polls(&self) -> String {
        self.ring
            .iter()
            .map(|p| {
                format!(
                    "[enter {} timeout {} exit {} nearest-waiting {}]",
                    fmt_ns(p.t_before),
                    if p.timeout == NONE_TIMEOUT { "None".to_string() } else { fmt_ns(p.timeout.min(i64::MAX as u64) as i64) },
                    fmt_ns(p.t_after),
                    if p.min_wait == i64::MAX { "-".to_string() } else { fmt_ns(p.min_wait) }
                )
            })
            .collect::<Vec<_>>()
            .join(" ")
    }

    /// `ct = Runtime::current_timeout()` was read between `t0` and `t1`.
    pub fn probe_ct(&mut self, t0: i64, ct: Option<Duration>, t1: i64) {
        self.stats.ct_probes += 1;
        self.last_touch = t1;
        let in_wheel = |r: &Rec| r.st != St::Dropped && r.ins != Ins::No && (!matches!(r.st, St::Done | St::Fired) || r.wheel_after_done);
        // surely in the wheel right now
        let mut sure_min: Option<(i64, &'static str)> = None;
        for r in self.recs.iter() {
            if in_wheel(r) && r.ins == Ins::Yes && r.d_lo > t1 && sure_min.is_none_or(|m| r.d_hi < m.0) {
                sure_min = Some((r.d_hi, r.api));
            }
        }
        match ct {
            None => {
                if let Some((d, api)) = sure_min {
                    self.find(
                        "ct-none-with-live-timer",
                        "current_timeout",
                        format!(
                            "current_timeout() == None at {} although a live {api} with deadline {} exists",
                            fmt_ns(t1),
                            fmt_ns(d)
                        ),
                    );
                }
            }
            Some(x) => {
                self.stats.ct_probes_some += 1;
                let x = x.as_nanos().min(i64::MAX as u128 / 2) as i64;
                let f_lo = if x == 0 { i64::MIN } else { t0.saturating_add(x) };
                let f_hi = t1.saturating_add(x);
                if let Some((d, api)) = sure_min
                    && f_lo > d
                {
                    self.find(
                        "ct-not-nearest",
                        "current_timeout",
                        format!(
                            "current_timeout() == {} at {} puts the first wheel entry at >= {}, later than a live {api} with deadline {}",
                            fmt_ns(x),
                            fmt_ns(t0),
                            fmt_ns(f_lo),
                            fmt_ns(d)
                        ),
                    );
                    return;
                }
                let matched = self.recs.iter().any(|r| in_wheel(r) && r.d_lo <= f_hi && r.d_hi >= f_lo);
                if !matched {
                    let live: Vec<String> = self
                        .recs
                        .iter()
                        .filter(|r| in_wheel(r))
                        .take(8)
                        .map(|r| format!("{}@{}", r.api, fmt_ns(r.d_hi)))
                        .collect();
                    self.find(
                        "ct-ghost-deadline",
                        "current_timeout",
                        format!(
                            "current_timeout() == {} at {} (first wheel entry in [{}, {}]) matches no live timer; live: {:?} — an entry of a dropped or fired timer was left behind",
                            fmt_ns(x),
                            fmt_ns(t0),
                            if f_lo == i64::MIN { "-inf".to_string() } else { fmt_ns(f_lo) },
                            fmt_ns(f_hi),
                            live
                        ),
                    );
                }
            }
        }
    }
}

pub fn pause_hook(p: Point) {
    match p {
        Point::IourBeforeWait | Point::PollBeforeWait => {
            let t = now_ns();
            with_mon(|m| {
                let evs = verif::drain();
                let tmo = evs.iter().rev().find(|e| e.kind == Kind::PollEnter).map(|e| e.b);
                m.on_before(t, tmo);
            });
        }
        Point::IourAfterWait | Point::PollAfterWait => {
            let t = now_ns();
            with_mon(|m| m.on_after(t));
        }
        _ => {}
    }
}

// ---------------------------------------------------------------------------
// Probe: wrapper around every timer future
// ---------------------------------------------------------------------------

#[derive(Debug, Clone, PartialEq)]
pub enum Out {
    Unit,
    Tmo(Result<u64, ()>),
    Tick(Instant),
}

/// Shared record of the scripted inner future of a `Timeout`.
pub struct Track {
    pub value: u64,
    pub outer: Cell<u32>,
    pub polls: Cell<u32>,
    pub ready_outer: Cell<Option<u32>>,
    pub after_ready: Cell<bool>,
    /// "Would the scripted inner future return Ready if it were polled right
    /// now?" — known for scripts whose readiness does not depend on being
    /// polled by the timeout (ready at its k-th poll, ready once an instant
    /// has passed, ready once a flag is set).
    pub would_be_ready: RefCell<Option<Box<dyn Fn(&Track) -> bool>>>,
}

impl Track {
    pub fn new(value: u64) -> Rc<Self> {
        Rc::new(Self {
            value,
            outer: Cell::new(0),
            polls: Cell::new(0),
            ready_outer: Cell::new(None),
            after_ready: Cell::new(false),
            would_be_ready: RefCell::new(None),
        })
    }

    fn ready_if_polled(&self) -> bool {
        self.would_be_ready.borrow().as_ref().is_some_and(|f| f(self))
    }
}

/// Inner future of a timeout: records in which outer poll it finished.
pub struct Tracked {
    f: Pin<Box<dyn Future<Output = ()>>>,
    t: Rc<Track>,
}

impl Tracked {
    pub fn new(f: impl Future<Output = ()> + 'static, t: Rc<Track>) -> Self {
        Self { f: Box::pin(f), t }
    }
}

impl Future for Tracked {
    type Output = u64;

    fn poll(mut self: Pin<&mut Self>, cx: &mut Context<'_>) -> Poll<u64> {
        let t = self.t.clone();
        if t.ready_outer.get().is_some() {
            t.after_ready.set(true);
            return Poll::Ready(t.value);
        }
        t.polls.set(t.polls.get() + 1);
        match self.f.as_mut().poll(cx) {
            Poll::Ready(()) => {
                t.ready_outer.set(Some(t.outer.get()));
                Poll::Ready(t.value)
            }
            Poll::Pending => Poll::Pending,
        }
    }
}

/// How the deadline of an `Interval::tick` future follows from the time of
/// its first poll.
#[derive(Clone, Copy, Debug)]
pub struct TickSrc {
    pub start_lo: Instant,
    pub start_hi: Instant,
    pub period: Duration,
    pub first: bool,
}

impl TickSrc {
    fn next(&self, now: Instant, start: Instant) -> Instant {
        let el = now.saturating_duration_since(start).as_nanos();
        let p = self.period.as_nanos();
        let k = el / p + 1;
        start + Duration::from_nanos((k * p).min(u64::MAX as u128) as u64)
    }

    fn deadline(&self, c0: Instant, c1: Instant) -> (i64, i64) {
        if self.first {
            (ns(self.start_lo), ns(self.start_hi))
        } else {
            (ns(self.next(c0, self.start_hi)), ns(self.next(c1, self.start_lo)))
        }
    }
}

/// Which of the wakers handed to compio for one timer was woken: only a wake
/// of the waker of the most recent poll counts (Future contract).
#[derive(Default)]
pub struct Wk {
    woken_gen: AtomicU64,
    cur_gen: AtomicU64,
}

impl Wk {
    pub fn is_woken(&self) -> bool {
        let c = self.cur_gen.load(Ordering::SeqCst);
        c != 0 && self.woken_gen.load(Ordering::SeqCst) == c
    }

    fn new_gen(&self) -> u64 {
        self.cur_gen.fetch_add(1, Ordering::SeqCst) + 1
    }

    fn reset(&self) {
        self.woken_gen.store(0, Ordering::SeqCst);
    }
}

struct PW {
    generation: u64,
    woken: Arc<Wk>,
    inner: Waker,
    token: Option<usize>,
    fired: Arc<AtomicBool>,
}

impl Wake for PW {
    fn wake(self: Arc<Self>) {
        self.wake_by_ref()
    }

    fn wake_by_ref(self: &Arc<Self>) {
        self.woken.woken_gen.fetch_max(self.generation, Ordering::SeqCst);
        if let Some(tok) = self.token
            && !self.fired.swap(true, Ordering::SeqCst)
        {
            let hook = WAKE_HOOK.try_with(|h| h.borrow().clone()).ok().flatten();
            if let Some(h) = hook {
                h(tok);
            }
        }
        self.inner.wake_by_ref();
    }
}

pub struct Probe<'a> {
    pub rec: Option<usize>,
    pub api: &'static str,
    inner: Pin<Box<dyn Future<Output = Out> + 'a>>,
    track: Option<Rc<Track>>,
    pub woken: Arc<Wk>,
    cached: Option<(Waker, Waker)>,
    fresh: bool,
    token: Option<usize>,
    fired: Arc<AtomicBool>,
    n_outer: u32,
    tick: Option<TickSrc>,
    done: bool,
    /// Bracket of the first poll (before, after).
    pub first_poll: Option<(Instant, Instant)>,
}

impl<'a> Probe<'a> {
    pub fn new(api: &'static str, inner: Pin<Box<dyn Future<Output = Out> + 'a>>) -> Self {
        Self {
            rec: None,
            api,
            inner,
            track: None,
            woken: Arc::new(Wk::default()),
            cached: None,
            fresh: false,
            token: None,
            fired: Arc::new(AtomicBool::new(false)),
            n_outer: 0,
            tick: None,
            done: false,
            first_poll: None,
        }
    }

    pub fn with_track(mut self, t: Option<Rc<Track>>) -> Self {
        self.track = t;
        self
    }

    pub fn with_fresh(mut self, f: bool) -> Self {
        self.fresh = f;
        self
    }

    pub fn with_token(mut self, t: Option<usize>) -> Self {
        self.token = t;
        self
    }

    pub fn with_tick(mut self, t: TickSrc) -> Self {
        self.tick = Some(t);
        self
    }

    fn waker(&mut self, cx: &Context<'_>) -> Waker {
        if !self.fresh
            && let Some((outer, mine)) = &self.cached
            && outer.will_wake(cx.waker())
        {
            return mine.clone();
        }
        let mine = Waker::from(Arc::new(PW {
            generation: self.woken.new_gen(),
            woken: self.woken.clone(),
            inner: cx.waker().clone(),
            token: self.token,
            fired: self.fired.clone(),
        }));
        self.cached = Some((cx.waker().clone(), mine.clone()));
        mine
    }
}

impl Future for Probe<'_> {
    type Output = Out;

    fn poll(self: Pin<&mut Self>, cx: &mut Context<'_>) -> Poll<Out> {
        let me = self.get_mut();
        assert!(!me.done, "C09 harness: probe polled after completion");
        // was the waker registered by the previous poll woken?
        let was_woken = me.woken.is_woken();
        let inner_ready_before = me.track.as_ref().is_some_and(|t| t.ready_if_polled());
        let w = me.waker(cx);
        let mut cx2 = Context::from_waker(&w);
        me.n_outer += 1;
        if let Some(t) = &me.track {
            t.outer.set(me.n_outer);
        }
        me.woken.reset();
        let c0 = Instant::now();
        let r = me.inner.as_mut().poll(&mut cx2);
        let now = Instant::now();
        if me.first_poll.is_none() {
            me.first_poll = Some((c0, now));
        }
        if me.rec.is_none() {
            // tick future: the sleep was created inside this first poll
            let tick = me.tick.expect("C09 harness: probe without record or tick source");
            let (d_lo, d_hi) = tick.deadline(c0, now);
            let woken = me.woken.clone();
            let api = me.api;
            me.rec = with_mon(|m| m.create(api, d_lo, d_hi, ns(c0), ns(now), woken));
        }
        let Some(rec) = me.rec else { return r };
        let nown = ns(now);
        let api = me.api;
        match &r {
            Poll::Ready(out) => {
                me.done = true;
                let (expiry, tmo_ok, claimed) = match out {
                    Out::Unit => (true, false, None),
                    Out::Tick(t) => (true, false, Some(ns(*t))),
                    Out::Tmo(Err(())) => (true, false, None),
                    Out::Tmo(Ok(_)) => (false, true, None),
                };
                let track = me.track.clone();
                let n_outer = me.n_outer;
                with_mon(|m| {
                    if let Some(t) = &track {
                        match out {
                            Out::Tmo(Ok(v)) => {
                                if t.ready_outer.get() != Some(n_outer) {
                                    m.find(
                                        "timeout-ok-without-inner",
                                        api,
                                        format!(
                                            "{api} returned Ok in its poll #{n_outer} but the inner future finished in outer poll {:?}",
                                            t.ready_outer.get()
                                        ),
                                    );
                                } else if *v != t.value {
                                    m.find("timeout-wrong-value", api, format!("{api} returned Ok({v}), inner produced {}", t.value));
                                }
                            }
                            Out::Tmo(Err(())) if inner_ready_before && t.ready_outer.get().is_none() => {
                                m.find(
                                    "timeout-elapsed-but-inner-ready",
                                    api,
                                    format!(
                                        "{api} returned Err(Elapsed) in its poll #{n_outer} although its inner future was ready before that poll began (it finishes first in poll order); the inner future was polled {} times and never returned Ready",
                                        t.polls.get()
                                    ),
                                );
                            }
                            Out::Tmo(Err(())) => {
                                if let Some(k) = t.ready_outer.get() {
                                    m.find(
                                        "timeout-elapsed-but-inner-ready",
                                        api,
                                        format!("{api} returned Err(Elapsed) in its poll #{n_outer} although the inner future had finished in outer poll #{k}"),
                                    );
                                }
                            }
                            _ => {}
                        }
                        if t.after_ready.get() {
                            m.find("timeout-inner-polled-after-ready", api, format!("{api} polled its inner future again after it had returned Ready"));
                        }
                    }
                    if expiry && !was_woken && m.recs[rec].st == St::Waiting {
                        m.find(
                            "stale-waker",
                            api,
                            format!(
                                "{api} was Pending, then completed in its poll #{n_outer} at {}, but the waker it was given in its previous poll had not been woken (an older waker was kept)",
                                fmt_ns(nown)
                            ),
                        );
                    }
                    m.polled(rec, true, expiry, tmo_ok, claimed, nown);
                });
            }
            Poll::Pending => {
                let track = me.track.clone();
                let n_outer = me.n_outer;
                with_mon(|m| {
                    if let Some(t) = &track
                        && let Some(k) = t.ready_outer.get()
                    {
                        m.find(
                            "timeout-pending-but-inner-ready",
                            api,
                            format!("{api} returned Pending in its poll #{n_outer} although the inner future finished in outer poll #{k}"),
                        );
                    }
                    m.polled(rec, false, false, false, None, nown);
                });
            }
        }
        r
    }
}

impl Drop for Probe<'_> {
    fn drop(&mut self) {
        if let Some(rec) = self.rec {
            with_mon(|m| m.dropped(rec));
        }
    }
}
