//! C14 — socket transports deliver exactly what was sent.
//!
//! Real loopback TCP / Unix stream / UDP sockets inside one compio runtime per
//! program, both drivers (io_uring and polling, chosen per program through
//! `ProactorBuilder::driver_type`). Three program families:
//!
//! * `stream` (`c14_stream.rs`): one connection, one or two directions. A
//!   sender task performs a seeded sequence of send kinds (write, vectored,
//!   write_all, zero-copy incl. deferred buffer futures, send_msg with
//!   ancillary data, through borrowed/owned split halves), the *return values*
//!   define what was accepted. The receiver reconstructs the stream with its
//!   own mix (read, vectored, read_exact, managed, multishot with cancel+drain,
//!   recv_msg variants). Content is a position-dependent pattern, so loss,
//!   duplication and corruption are told apart with the offset. After
//!   shutdown the receiver must see EOF after the last byte and not before.
//! * `dgram` (`c14_dgram.rs`): UDP datagrams with unique ids from one or two
//!   sender sockets; every received datagram is the prefix of exactly one sent
//!   datagram, cut to the buffer capacity and never beyond (tail pattern of
//!   the receive buffers must be intact), source address = sender's bound
//!   address, MSG_TRUNC exactly where the call reports flags, no duplicates.
//! * `accept` (`c14_accept.rs`): c concurrent connects carrying a nonce;
//!   single accepts and multishot `incoming()` streams incl. cancelling /
//!   dropping the stream midway and re-arming yield each nonce exactly once.
//!
//! Hangs are decided by logical quiescence (see `drive`), the wall-clock
//! watchdog only ever produces `inconclusive`.

use std::{
    cell::{Cell, RefCell},
    collections::{BTreeMap, BTreeSet},
    future::Future,
    io,
    num::NonZero,
    os::fd::RawFd,
    pin::{Pin, pin},
    rc::Rc,
    task::{Context, Poll, Waker},
    time::{Duration, Instant},
};

use compio_driver::{DriverType, ProactorBuilder};
use compio_runtime::Runtime;
use vcommon::{Args, Report, Rng, Value, json, panics};

#[macro_use]
#[path = "c14_bufs.rs"]
mod bufs;
#[path = "c14_accept.rs"]
mod accept;
#[path = "c14_dgram.rs"]
mod dgram;
#[path = "c14_stream.rs"]
mod stream;

// ---------------------------------------------------------------- basics

#[derive(Clone, Copy, PartialEq, Eq, Debug)]
pub enum Drv {
    Iour,
    Poll,
}

impl Drv {
    pub fn name(self) -> &'static str {
        match self {
            Drv::Iour => "iour",
            Drv::Poll => "poll",
        }
    }

    pub fn parse(s: &str) -> Drv {
        if s == "poll" { Drv::Poll } else { Drv::Iour }
    }

    fn ty(self) -> DriverType {
        match self {
            Drv::Iour => DriverType::IoUring,
            Drv::Poll => DriverType::Poll,
        }
    }
}

#[derive(Debug, Clone)]
pub struct Fail {
    pub sig: String,
    pub what: String,
}

/// Per-program shared state of all harness tasks.
#[derive(Default)]
pub struct Ctx {
    progress: Cell<u64>,
    fail: RefCell<Option<Fail>>,
    inconclusive: RefCell<Option<String>>,
    pub counters: RefCell<BTreeMap<String, i64>>,
    pub kinds: RefCell<BTreeSet<&'static str>>,
    pub floors: RefCell<BTreeSet<&'static str>>,
}

impl Ctx {
    pub fn tick(&self) {
        self.progress.set(self.progress.get() + 1);
    }

    pub fn fail(&self, sig: String, what: String) {
        let mut f = self.fail.borrow_mut();
        if f.is_none() {
            *f = Some(Fail { sig, what });
        }
        self.tick();
    }

    pub fn failed(&self) -> bool {
        self.fail.borrow().is_some()
    }

    pub fn give_up(&self, why: String) {
        let mut f = self.inconclusive.borrow_mut();
        if f.is_none() {
            *f = Some(why);
        }
        self.tick();
    }

    pub fn stopped(&self) -> bool {
        self.failed() || self.inconclusive.borrow().is_some()
    }

    pub fn count(&self, name: &str, n: i64) {
        *self.counters.borrow_mut().entry(name.to_string()).or_insert(0) += n;
    }

    pub fn kind(&self, k: &'static str) {
        self.kinds.borrow_mut().insert(k);
    }

    pub fn floor(&self, k: &'static str) {
        self.floors.borrow_mut().insert(k);
    }
}

/// Position-dependent content: byte `o` of the stream / datagram `salt`.
pub fn pat(salt: u64, o: u64) -> u8 {
    let w = o / 7;
    let x = (w ^ salt).wrapping_mul(0x9E37_79B9_7F4A_7C15);
    let x = x ^ (x >> 29);
    (x >> ((o % 7) * 8)) as u8
}

pub fn pat_vec(salt: u64, off: usize, len: usize) -> Vec<u8> {
    (0..len).map(|i| pat(salt, (off + i) as u64)).collect()
}

/// Content of untouched receive-buffer memory.
pub fn tail(i: usize) -> u8 {
    0xC3 ^ (i as u8).wrapping_mul(0x3D)
}

/// A `Vec<u8>` whose whole capacity holds the tail pattern and whose length
/// is `len` ("QBuf"): after an I/O that reported `n` bytes everything from
/// `max(n, ..)` on must still be the pattern.
pub fn qvec(cap: usize, len: usize) -> Vec<u8> {
    let mut v: Vec<u8> = Vec::with_capacity(cap);
    let c = v.capacity();
    unsafe {
        let p = v.as_mut_ptr();
        for i in 0..c {
            p.add(i).write(tail(i));
        }
        v.set_len(len.min(c));
    }
    v
}

/// All `capacity` bytes of a `qvec` (they were all written by `qvec`).
pub fn raw(v: &Vec<u8>) -> &[u8] {
    unsafe { std::slice::from_raw_parts(v.as_ptr(), v.capacity()) }
}

/// First index in `from..capacity` that no longer holds the tail pattern.
pub fn tail_damage(v: &Vec<u8>, from: usize) -> Option<usize> {
    let r = raw(v);
    (from.min(r.len())..r.len()).find(|&i| r[i] != tail(i))
}

/// Cut `len` into `k` consecutive part lengths at seeded cut points (parts may be empty).
pub fn cut(len: usize, fr: &[u16]) -> Vec<usize> {
    let mut cuts: Vec<usize> = fr.iter().map(|f| (len as u64 * *f as u64 / 65536) as usize).collect();
    cuts.sort_unstable();
    let mut out = Vec::with_capacity(cuts.len() + 1);
    let mut prev = 0;
    for c in cuts {
        out.push(c - prev);
        prev = c;
    }
    out.push(len - prev);
    out
}

pub struct YieldNow(bool);

impl Future for YieldNow {
    type Output = ();

    fn poll(mut self: Pin<&mut Self>, cx: &mut Context<'_>) -> Poll<()> {
        if self.0 {
            Poll::Ready(())
        } else {
            self.0 = true;
            cx.waker().wake_by_ref();
            Poll::Pending
        }
    }
}

pub async fn yields(ctx: &Ctx, n: usize) {
    for _ in 0..n {
        if ctx.stopped() {
            return;
        }
        ctx.tick();
        YieldNow(false).await;
    }
}

/// Level-triggered flag for harness tasks of one runtime.
#[derive(Default)]
pub struct Event {
    gen_: Cell<u64>,
    wakers: RefCell<Vec<Waker>>,
}

impl Event {
    pub fn notify(&self) {
        self.gen_.set(self.gen_.get() + 1);
        for w in self.wakers.borrow_mut().drain(..) {
            w.wake();
        }
    }

    pub fn generation(&self) -> u64 {
        self.gen_.get()
    }

    /// Resolves once the generation differs from `seen`.
    pub fn changed(&self, seen: u64) -> EventWait<'_> {
        EventWait { ev: self, seen }
    }
}

pub struct EventWait<'a> {
    ev: &'a Event,
    seen: u64,
}

impl Future for EventWait<'_> {
    type Output = ();

    fn poll(self: Pin<&mut Self>, cx: &mut Context<'_>) -> Poll<()> {
        if self.ev.gen_.get() != self.seen {
            Poll::Ready(())
        } else {
            self.ev.wakers.borrow_mut().push(cx.waker().clone());
            Poll::Pending
        }
    }
}

pub fn poll_fd(fd: RawFd, events: i16) -> i16 {
    if fd < 0 {
        return 0;
    }
    let mut p = libc::pollfd { fd, events, revents: 0 };
    let r = unsafe { libc::poll(&mut p, 1, 0) };
    if r <= 0 { 0 } else { p.revents }
}

pub const POLLRDHUP: i16 = 0x2000;

pub fn errname(e: &io::Error) -> String {
    match e.raw_os_error() {
        Some(c) => format!("os{c}"),
        None => format!("{:?}", e.kind()),
    }
}

pub fn is_cancelled(e: &io::Error) -> bool {
    e.raw_os_error() == Some(libc::ECANCELED)
}

// ---------------------------------------------------------------- runtime

pub struct RtCfg {
    pub drv: Drv,
    pub pool_len: usize,
    pub pool_size: u16,
}

pub fn build_rt(c: &RtCfg) -> io::Result<Runtime> {
    let mut pb = ProactorBuilder::new();
    pb.driver_type(c.drv.ty())
        .buffer_pool_buffer_len(c.pool_len.max(1))
        .buffer_pool_size(NonZero::new(c.pool_size.max(1)).unwrap());
    let mut rb = Runtime::builder();
    rb.with_proactor(pb);
    rb.build()
}

pub enum Stall {
    KeepWaiting,
    /// The program is over although its main future is not (nothing more can happen); no verdict.
    Finish,
    Violation(Fail),
    Inconclusive(String),
}

pub struct Limits {
    /// Runtime iterations without any progress (nothing runnable, driver
    /// polled with a non-zero timeout each time) before the stall analysis.
    pub idle_iters: u32,
    pub idle_wait: Duration,
    pub watchdog: Duration,
}

/// `block_on` with logical stall detection. Returns `Some(output)` when the
/// future finished; `None` when the program was stopped (`ctx.fail` /
/// `ctx.inconclusive` say why).
/// What the kernel has registered in this process's epoll instances (from /proc/self/fdinfo).
pub fn epoll_state() -> String {
    let mut out = String::new();
    if let Ok(rd) = std::fs::read_dir("/proc/self/fd") {
        for e in rd.flatten() {
            let Ok(t) = std::fs::read_link(e.path()) else { continue };
            if !t.to_string_lossy().contains("eventpoll") {
                continue;
            }
            let n = e.file_name().to_string_lossy().to_string();
            if let Ok(info) = std::fs::read_to_string(format!("/proc/self/fdinfo/{n}")) {
                let regs: Vec<String> = info
                    .lines()
                    .filter(|l| l.starts_with("tfd:"))
                    .map(|l| {
                        let w: Vec<&str> = l.split_whitespace().collect();
                        let fd: i32 = w.get(1).and_then(|x| x.parse().ok()).unwrap_or(-1);
                        let mut p = libc::pollfd { fd, events: libc::POLLIN | libc::POLLOUT, revents: 0 };
                        unsafe { libc::poll(&mut p, 1, 0) };
                        format!("{} poll(2)-revents={:#x}", w.iter().take(6).cloned().collect::<Vec<_>>().join(" "), p.revents)
                    })
                    .collect();
                out.push_str(&format!("[epfd {n}: {}] ", regs.join("; ")));
                // what does the kernel hand out if asked directly (timeout 0)?
                if let Ok(epfd) = n.parse::<i32>() {
                    let mut evs: [libc::epoll_event; 8] = unsafe { std::mem::zeroed() };
                    let k = unsafe { libc::epoll_wait(epfd, evs.as_mut_ptr(), 8, 0) };
                    let got: Vec<String> = (0..k.max(0) as usize).map(|i| { let e = evs[i]; let (ev, d) = (e.events, e.u64); format!("events={ev:#x} data={d:#x}") }).collect();
                    out.push_str(&format!("[direct epoll_wait(epfd {n}, 0) -> {k}: {}] ", got.join("; ")));
                }
            }
        }
    }
    out
}

pub fn drive<F: Future>(
    rt: &Runtime,
    ctx: &Ctx,
    lim: &Limits,
    ext_progress: &dyn Fn() -> u64,
    stall: &dyn Fn() -> Stall,
    fut: F,
) -> Option<F::Output> {
    let start = Instant::now();
    compio_driver::verif::enable(true);
    let _ = compio_driver::verif::drain();
    rt.enter(|| {
        let waker = rt.waker();
        let mut cx = Context::from_waker(&waker);
        let mut fut = pin!(fut);
        let mut idle = 0u32;
        // a stall verdict must be confirmed: the same picture after five more idle bounds
        // (a loaded machine delays kernel work; a real stall lasts for ever)
        let mut confirmations = 0u32;
        let mut idle_since = Instant::now();
        // the last driver events, attached to a stall verdict as its history
        let mut recent: std::collections::VecDeque<String> = std::collections::VecDeque::new();
        let mut last = (ctx.progress.get(), ext_progress());
        loop {
            if let Poll::Ready(v) = fut.as_mut().poll(&mut cx) {
                rt.run();
                return Some(v);
            }
            let remaining = rt.run();
            if ctx.stopped() {
                return None;
            }
            if start.elapsed() > lim.watchdog {
                ctx.give_up("watchdog".into());
                return None;
            }
            let now = (ctx.progress.get(), ext_progress());
            if now != last {
                last = now;
                idle = 0;
                confirmations = 0;
                idle_since = Instant::now();
            } else if !remaining {
                idle += 1;
            }
            if idle >= lim.idle_iters {
                match stall() {
                    Stall::KeepWaiting => idle = 0,
                    Stall::Finish => return None,
                    Stall::Violation(_) if confirmations < 5 => {
                        confirmations += 1;
                        idle = 0;
                    }
                    Stall::Violation(f) => {
                        let mut hist: Vec<String> = recent.iter().cloned().collect();
                        hist.push(format!("IDLE {} driver polls without progress took {} ms", idle, idle_since.elapsed().as_millis()));
                        hist.push(format!("EPOLL-STATE {}", epoll_state()));
                        ctx.fail(f.sig, format!("{}; last driver events (kind a b c): {}", f.what, hist.join(" | ")));
                        return None;
                    }
                    Stall::Inconclusive(r) => {
                        ctx.give_up(r);
                        return None;
                    }
                }
            }
            rt.poll_with(Some(if remaining { Duration::ZERO } else { lim.idle_wait }));
            // Driver-level completions are progress too (e.g. the inner reads of a
            // read_exact that has not returned yet).
            let evs = compio_driver::verif::drain();
            for e in &evs {
                if !matches!(e.kind, compio_driver::verif::Kind::PollEnter | compio_driver::verif::Kind::PollExit | compio_driver::verif::Kind::FlushExit) {
                    if recent.len() >= 160 {
                        recent.pop_front();
                    }
                    recent.push_back(format!("{:?} {:#x} {} {:#x}", e.kind, e.a, e.b, e.c));
                }
            }
            if std::env::var_os("C14_EVENTS").is_some() {
                for e in &evs {
                    if !matches!(e.kind, compio_driver::verif::Kind::PollEnter | compio_driver::verif::Kind::PollExit | compio_driver::verif::Kind::FlushExit) {
                        eprintln!("  ev {:?}", e);
                    }
                }
            }
            if evs.iter().any(|e| {
                matches!(e.kind, compio_driver::verif::Kind::Final | compio_driver::verif::Kind::MultiItem | compio_driver::verif::Kind::Cqe)
            }) {
                ctx.tick();
            }
        }
    })
}

// ---------------------------------------------------------------- programs

pub enum Prog {
    Stream(stream::StreamProg),
    Dgram(dgram::DgramProg),
    Accept(accept::AcceptProg),
}

impl Prog {
    fn to_json(&self) -> Value {
        match self {
            Prog::Stream(p) => p.to_json(),
            Prog::Dgram(p) => p.to_json(),
            Prog::Accept(p) => p.to_json(),
        }
    }

    fn from_json(v: &Value) -> Option<Prog> {
        match v["family"].as_str()? {
            "stream" => Some(Prog::Stream(stream::StreamProg::from_json(v)?)),
            "dgram" => Some(Prog::Dgram(dgram::DgramProg::from_json(v)?)),
            "accept" => Some(Prog::Accept(accept::AcceptProg::from_json(v)?)),
            _ => None,
        }
    }
}

/// What one executed program reports back.
pub struct Outcome {
    /// diversity signature (transport, driver, kinds, partial?)
    pub sig: String,
    pub ctx: Rc<Ctx>,
}

pub fn ju(v: &Value, k: &str) -> usize {
    v[k].as_u64().unwrap_or(0) as usize
}

pub fn jb(v: &Value, k: &str) -> bool {
    v[k].as_bool().unwrap_or(false)
}

pub fn js<'a>(v: &'a Value, k: &str) -> &'a str {
    v[k].as_str().unwrap_or("")
}

fn run_prog(p: &Prog, lim: &Limits) -> Outcome {
    match p {
        Prog::Stream(p) => stream::run(p, lim),
        Prog::Dgram(p) => dgram::run(p, lim),
        Prog::Accept(p) => accept::run(p, lim),
    }
}

fn execute(p: &Prog, lim: &Limits, rep: &mut Report) {
    let pj = p.to_json();
    let t0 = Instant::now();
    let r = panics::catch(|| run_prog(p, lim));
    let ms = t0.elapsed().as_millis() as i64;
    rep.max("slowest_program_ms", ms);
    if ms > 400 {
        rep.count("programs_over_400ms", 1);
        if std::env::var_os("C14_SLOW").is_some() {
            eprintln!("[c14 slow] {ms} ms: {}", json!({"program": pj}));
        }
    }
    let tag = format!("{}/{}/{}", js(&pj, "family"), js(&pj, "transport"), js(&pj, "driver"));
    match r {
        Err(info) => match info.origin() {
            panics::Origin::Repo(_) => {
                rep.eval(Some(format!("{tag}/panic")));
                rep.violation(
                    &format!("C14/panic/{tag}/{}", info.sig()),
                    &format!("panic inside compio at {}:{}: {}", info.file, info.line, info.message),
                    pj,
                );
            }
            o => {
                rep.eval(None);
                rep.inconclusive(&format!("harness-panic {o:?}: {}", info.message));
            }
        },
        Ok(out) => {
            let ctx = out.ctx;
            rep.eval(Some(out.sig));
            for (k, v) in ctx.counters.borrow().iter() {
                rep.count(k, *v);
            }
            for k in ctx.floors.borrow().iter() {
                rep.floor(k, true);
            }
            if let Some(f) = ctx.fail.borrow().as_ref() {
                rep.violation(&f.sig, &f.what, pj.clone());
            } else if let Some(r) = ctx.inconclusive.borrow().as_ref() {
                rep.inconclusive(&format!("{tag}: {r}"));
                // keep the program of the first few inconclusive cases on stderr for triage
                static SHOWN: std::sync::atomic::AtomicUsize = std::sync::atomic::AtomicUsize::new(0);
                if SHOWN.fetch_add(1, std::sync::atomic::Ordering::Relaxed) < 4 {
                    eprintln!("[c14 inconclusive] {r}: {}", json!({"program": pj}));
                }
                if rep.want_sample() {
                    rep.sample(json!({"inconclusive": r, "program": pj}));
                }
            } else if rep.want_sample() {
                rep.sample(pj);
            }
        }
    }
}

const FLOORS: &[&str] = &[
    "stream-partial-send",
    "stream-eof-after-last-byte",
    "stream-multishot-recv",
    "stream-managed-recv",
    "stream-zerocopy-send",
    "stream-ancillary",
    "stream-split-halves",
    "stream-thread-peer",
    "dgram-truncated-flagged",
    "dgram-source-address",
    "dgram-multishot-recv",
    "accept-multishot",
    "accept-multishot-rearm",
    "accept-single",
];

pub fn main(args: &Args) {
    let leg = args.str("leg", "plain");
    let mut rep = Report::from_args("C14", &leg, args);
    for f in FLOORS {
        rep.floor(f, false);
    }
    let thorough = args.thorough();
    let lim = Limits {
        idle_iters: args.usize("idle-iters", 40) as u32,
        idle_wait: Duration::from_millis(args.u64("idle-wait-ms", 5)),
        watchdog: Duration::from_millis(args.u64("watchdog-ms", if thorough { 60_000 } else { 30_000 })),
    };
    // SIGPIPE must not kill us when a peer goes away early.
    unsafe { libc::signal(libc::SIGPIPE, libc::SIG_IGN) };

    if let Some(path) = args.get("replay") {
        let text = std::fs::read_to_string(path).expect("replay file");
        let v: Value = vcommon::serde_json::from_str(&text).expect("replay json");
        match Prog::from_json(&v["program"]) {
            Some(p) => execute(&p, &lim, &mut rep),
            None => rep.inconclusive("replay: cannot parse program"),
        }
        rep.finish();
        return;
    }

    // Driver availability (io_uring may be unavailable in a sandbox).
    let mut drivers = Vec::new();
    for d in [Drv::Iour, Drv::Poll] {
        match build_rt(&RtCfg { drv: d, pool_len: 4096, pool_size: 4 }) {
            Ok(_) => drivers.push(d),
            Err(e) => {
                rep.inconclusive(&format!("driver {} unavailable: {e}", d.name()));
            }
        }
    }
    if let Some(only) = args.get("driver") {
        drivers.retain(|d| d.name() == only);
    }
    if drivers.is_empty() {
        rep.inconclusive("no driver available");
        rep.finish();
        return;
    }
    let family = args.str("family", "all");
    let scale = args.usize("scale", if thorough { 2 } else { 1 });
    let v6 = std::net::UdpSocket::bind("[::1]:0").is_ok();
    let fds0 = count_fds();

    let iters = args.iters(600, 6000);
    let base = Rng::new(args.seed()).fork(args.shard() + 1);
    for i in 0..iters {
        if rep.out_of_time() {
            break;
        }
        let mut r = base.fork(i as u64);
        let drv = drivers[(i + args.shard() as usize) % drivers.len()];
        let g = GenCfg { drv, scale, v6 };
        let fam = match family.as_str() {
            "stream" => 0,
            "dgram" => 70,
            "accept" => 90,
            _ => r.below(100),
        };
        let p = if fam < 66 {
            Prog::Stream(stream::generate(&mut r, &g))
        } else if fam < 85 {
            Prog::Dgram(dgram::generate(&mut r, &g))
        } else {
            Prog::Accept(accept::generate(&mut r, &g))
        };
        execute(&p, &lim, &mut rep);
    }
    let fds1 = count_fds();
    rep.max("fd-growth-over-run", fds1 as i64 - fds0 as i64);
    rep.note(format!(
        "drivers={:?} ipv6={v6} unix-datagram: not offered by compio-net (UnixSocket is stream-only)",
        drivers.iter().map(|d| d.name()).collect::<Vec<_>>()
    ));
    rep.finish();
}

pub struct GenCfg {
    pub drv: Drv,
    pub scale: usize,
    pub v6: bool,
}

fn count_fds() -> usize {
    std::fs::read_dir("/proc/self/fd").map(|d| d.count()).unwrap_or(0)
}
