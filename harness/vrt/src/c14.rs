//! C14 socket transports deliver exactly what was sent — not built yet.

use vcommon::Args;

pub fn main(_args: &Args) {
    eprintln!("c14: not implemented");
    std::process::exit(3);
}
