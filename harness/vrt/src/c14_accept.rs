//! C14 accept programs: `n` concurrent connects, each carrying a nonce as its
//! first bytes; the acceptor runs a script of single accepts and multishot
//! `incoming()` streams (ended by drop or by cancel + drain, then re-armed).
//! Every nonce must come out of the acceptor exactly once.

use std::{
    os::fd::AsRawFd,
    sync::{
        Arc, Mutex,
        atomic::{AtomicUsize, Ordering},
    },
};

use compio_buf::BufResult;
use compio_net::{TcpListener, TcpStream, UnixListener, UnixStream};
use compio_runtime::{CancelToken, ResumeUnwind, StreamExt as _};
use futures_util::{Stream, StreamExt as _};
use std::io::{Read, Write};

use super::{
    stream::{Conn, StdSock, Tr, abstract_addr, loop_addr, trace},
    *,
};

#[derive(Clone, Copy, Debug, PartialEq, Eq)]
pub enum End {
    Drop,
    Cancel,
}

#[derive(Clone, Copy, Debug, PartialEq, Eq)]
pub enum Phase {
    Single { k: usize },
    Multi { take: usize, end: End },
}

#[derive(Clone, Debug)]
pub struct AcceptProg {
    pub transport: Tr,
    pub driver: Drv,
    pub v6: bool,
    pub n: usize,
    pub thread_clients: bool,
    pub listener_from_std: bool,
    /// yields before client i connects (compio clients)
    pub stagger: usize,
    /// yields before the acceptor starts (connections pile up in the backlog)
    pub accept_delay: usize,
    pub phases: Vec<Phase>,
    pub salt: u64,
}

impl AcceptProg {
    pub fn to_json(&self) -> Value {
        json!({
            "family": "accept", "transport": self.transport.name(), "driver": self.driver.name(), "v6": self.v6,
            "n": self.n, "thread_clients": self.thread_clients, "listener_from_std": self.listener_from_std,
            "stagger": self.stagger, "accept_delay": self.accept_delay, "salt": self.salt,
            "phases": self.phases.iter().map(|p| match p {
                Phase::Single { k } => json!({"kind": "single", "k": k}),
                Phase::Multi { take, end } => json!({"kind": "multi", "take": take,
                    "end": if *end == End::Drop { "drop" } else { "cancel" }}),
            }).collect::<Vec<_>>(),
        })
    }

    pub fn from_json(v: &Value) -> Option<AcceptProg> {
        let mut phases = Vec::new();
        for o in v["phases"].as_array()? {
            phases.push(match js(o, "kind") {
                "single" => Phase::Single { k: ju(o, "k").max(1) },
                "multi" => Phase::Multi {
                    take: ju(o, "take").max(1),
                    end: if js(o, "end") == "drop" { End::Drop } else { End::Cancel },
                },
                _ => return None,
            });
        }
        if phases.is_empty() {
            return None;
        }
        Some(AcceptProg {
            transport: Tr::parse(js(v, "transport"))?,
            driver: Drv::parse(js(v, "driver")),
            v6: jb(v, "v6"),
            n: ju(v, "n").clamp(1, 64),
            thread_clients: jb(v, "thread_clients"),
            listener_from_std: jb(v, "listener_from_std"),
            stagger: ju(v, "stagger"),
            accept_delay: ju(v, "accept_delay"),
            phases,
            salt: v["salt"].as_u64().unwrap_or(1),
        })
    }
}

#[allow(async_fn_in_trait)]
trait Lis: Sized + AsRawFd + 'static {
    type S: Conn;
    type Addr: Clone + Send + 'static;
    async fn bind(v6: bool, from_std: bool) -> io::Result<(Self, Self::Addr)>;
    /// stream + whether the returned peer address equals the stream's peer address
    async fn accept1(&self) -> io::Result<(Self::S, Result<(), String>)>;
    fn incoming_s(&self) -> impl Stream<Item = io::Result<Self::S>>;
    async fn connect(a: &Self::Addr) -> io::Result<Self::S>;
    fn std_connect(a: &Self::Addr) -> io::Result<StdSock>;
}

impl Lis for TcpListener {
    type Addr = std::net::SocketAddr;
    type S = TcpStream;

    async fn bind(v6: bool, from_std: bool) -> io::Result<(Self, Self::Addr)> {
        let l = if from_std {
            TcpListener::from_std(std::net::TcpListener::bind(loop_addr(v6))?)?
        } else {
            TcpListener::bind(loop_addr(v6)).await?
        };
        let a = l.local_addr()?;
        Ok((l, a))
    }

    async fn accept1(&self) -> io::Result<(Self::S, Result<(), String>)> {
        let (s, a) = self.accept().await?;
        let peer = s.peer_addr();
        let ok = match &peer {
            Ok(p) if *p == a => Ok(()),
            _ => Err(format!("accept returned peer address {a:?}, getpeername says {peer:?}")),
        };
        Ok((s, ok))
    }

    fn incoming_s(&self) -> impl Stream<Item = io::Result<Self::S>> {
        self.incoming()
    }

    async fn connect(a: &Self::Addr) -> io::Result<Self::S> {
        TcpStream::connect(*a).await
    }

    fn std_connect(a: &Self::Addr) -> io::Result<StdSock> {
        Ok(StdSock::Tcp(std::net::TcpStream::connect(*a)?))
    }
}

impl Lis for UnixListener {
    type Addr = socket2::SockAddr;
    type S = UnixStream;

    async fn bind(_v6: bool, from_std: bool) -> io::Result<(Self, Self::Addr)> {
        let addr = abstract_addr()?;
        let l = if from_std {
            let s = socket2::Socket::new(socket2::Domain::UNIX, socket2::Type::STREAM, None)?;
            s.bind(&addr)?;
            s.listen(128)?;
            UnixListener::from_std(s.into())?
        } else {
            UnixListener::bind_addr(&addr).await?
        };
        Ok((l, addr))
    }

    async fn accept1(&self) -> io::Result<(Self::S, Result<(), String>)> {
        let (s, a) = self.accept().await?;
        let peer = s.peer_addr();
        let ok = match &peer {
            Ok(p) if *p == a => Ok(()),
            _ => Err(format!("accept returned peer address {a:?}, getpeername says {peer:?}")),
        };
        Ok((s, ok))
    }

    fn incoming_s(&self) -> impl Stream<Item = io::Result<Self::S>> {
        self.incoming()
    }

    async fn connect(a: &Self::Addr) -> io::Result<Self::S> {
        UnixStream::connect_addr(a).await
    }

    fn std_connect(a: &Self::Addr) -> io::Result<StdSock> {
        let s = socket2::Socket::new(socket2::Domain::UNIX, socket2::Type::STREAM, None)?;
        s.connect(a)?;
        Ok(StdSock::Unix(s.into()))
    }
}

struct State {
    tag: String,
    n: usize,
    salt: u64,
    accepted: Cell<usize>,
    acceptor_done: Cell<bool>,
    in_accept: Cell<Option<&'static str>>,
    lfd: Cell<RawFd>,
    /// how often each nonce was read from an accepted connection
    seen: RefCell<Vec<usize>>,
    live_fds: RefCell<BTreeSet<RawFd>>,
    /// clients that got their ack / whose connection was closed without one
    acked: Cell<usize>,
    closed: RefCell<Vec<usize>>,
    ext_done: Arc<AtomicUsize>,
    ext_closed: Arc<Mutex<Vec<usize>>>,
    /// clients whose connect has completed (compio tasks / std thread)
    connected: Cell<usize>,
    ext_connected: Arc<AtomicUsize>,
    /// std clients whose read timed out: neither acknowledged nor closed
    ext_stuck: Arc<Mutex<Vec<usize>>>,
    /// descriptors of the std clients (in the order the thread reads them) and how many it has read
    ext_fds: Arc<Mutex<Vec<RawFd>>>,
    ext_pos: Arc<AtomicUsize>,
    /// the program ended with connections that a dropped incoming() stream had closed
    finished_early: Cell<bool>,
    used_drop: Cell<bool>,
    used_cancel: Cell<bool>,
    used_multi: Cell<bool>,
    handlers_done: Cell<usize>,
    /// accepted and client streams stay open (and keep their descriptor numbers) until the end
    keep: RefCell<Vec<Box<dyn std::any::Any>>>,
}

impl State {
    fn nonce(&self, i: usize) -> [u8; 8] {
        ((self.salt << 8) ^ (i as u64) ^ 0xC14A_0000_0000_0000).to_le_bytes()
    }

    fn which(&self, b: &[u8]) -> Option<usize> {
        (0..self.n).find(|i| self.nonce(*i)[..] == *b)
    }

    fn clients_finished(&self) -> usize {
        self.acked.get() + self.closed.borrow().len() + self.ext_done.load(Ordering::SeqCst)
    }

    fn mode(&self) -> &'static str {
        if self.used_drop.get() {
            "multi-drop"
        } else if self.used_cancel.get() {
            "multi-cancel"
        } else if self.used_multi.get() {
            "multi"
        } else {
            "single"
        }
    }
}

/// Takes an accepted connection: reads the nonce, acknowledges, keeps the
/// stream open until the program ends.
async fn handler<S: Conn>(ctx: Rc<Ctx>, st: Rc<State>, s: S, how: &'static str) {
    let BufResult(r, buf) = s.c_read_exact(vec![0u8; 8]).await;
    ctx.tick();
    if let Err(e) = r {
        ctx.fail(
            format!("C14/accept/unusable-connection/{}/{how}", st.tag),
            format!("the connection yielded by {how} could not deliver its 8 byte nonce: {e}"),
        );
        return;
    }
    let Some(i) = st.which(&buf) else {
        ctx.fail(
            format!("C14/accept/bad-nonce/{}/{how}", st.tag),
            format!("the connection yielded by {how} starts with {buf:02x?}, which no client sent"),
        );
        return;
    };
    let times = {
        let mut seen = st.seen.borrow_mut();
        seen[i] += 1;
        seen[i]
    };
    if times > 1 {
        ctx.fail(
            format!("C14/accept/duplicate/{}/{how}", st.tag),
            format!("the connection of client {i} was yielded {times} times"),
        );
        return;
    }
    let BufResult(r, _) = s.c_write_all(vec![0xACu8]).await;
    if let Err(e) = r {
        ctx.fail(
            format!("C14/accept/unusable-connection/{}/{how}", st.tag),
            format!("the connection of client {i} yielded by {how} could not be written to: {e}"),
        );
        return;
    }
    st.handlers_done.set(st.handlers_done.get() + 1);
    ctx.tick();
    st.keep.borrow_mut().push(Box::new(s));
}

fn take_conn<S: Conn>(ctx: &Rc<Ctx>, st: &Rc<State>, s: S, how: &'static str, tasks: &mut Vec<compio_runtime::JoinHandle<()>>) -> bool {
    let fd = s.as_raw_fd();
    if !st.live_fds.borrow_mut().insert(fd) {
        ctx.fail(
            format!("C14/accept/duplicate-fd/{}/{how}", st.tag),
            format!("{how} yielded descriptor {fd} which an earlier, still open accepted connection already owns"),
        );
        return false;
    }
    st.accepted.set(st.accepted.get() + 1);
    ctx.tick();
    if trace() {
        eprintln!("accept: {how} yielded fd {fd} ({} of {})", st.accepted.get(), st.n);
    }
    tasks.push(compio_runtime::spawn(handler(ctx.clone(), st.clone(), s, how)));
    true
}

async fn acceptor<L: Lis>(ctx: Rc<Ctx>, st: Rc<State>, p: AcceptProg, l: L) {
    st.lfd.set(l.as_raw_fd());
    yields(&ctx, p.accept_delay).await;
    let mut tasks = Vec::new();
    let mut pi = 0usize;
    let mut multi_before = false;
    'outer: while st.accepted.get() < st.n && !ctx.stopped() {
        let ph = p.phases[pi % p.phases.len()];
        pi += 1;
        match ph {
            Phase::Single { k } => {
                for _ in 0..k {
                    if st.accepted.get() >= st.n {
                        break;
                    }
                    st.in_accept.set(Some("accept"));
                    let r = l.accept1().await;
                    st.in_accept.set(None);
                    match r {
                        Ok((s, addr_ok)) => {
                            if let Err(why) = addr_ok {
                                ctx.fail(format!("C14/accept/peer-address/{}/accept", st.tag), why);
                                break 'outer;
                            }
                            ctx.floor("accept-single");
                            if !take_conn(&ctx, &st, s, "accept", &mut tasks) {
                                break 'outer;
                            }
                        }
                        Err(e) => {
                            ctx.fail(
                                format!("C14/accept/error/{}/accept/{}", st.tag, errname(&e)),
                                format!("accept failed after {} of {} connections: {e}", st.accepted.get(), st.n),
                            );
                            break 'outer;
                        }
                    }
                }
            }
            Phase::Multi { take, end } => {
                st.used_multi.set(true);
                let ct = CancelToken::new();
                let mut inc = pin!(l.incoming_s().with_cancel(ct.clone()));
                let mut got = 0usize;
                let mut cancelled = false;
                loop {
                    if st.accepted.get() >= st.n {
                        break;
                    }
                    if !cancelled && got >= take {
                        match end {
                            End::Drop => {
                                st.used_drop.set(true);
                                break;
                            }
                            End::Cancel => {
                                st.used_cancel.set(true);
                                cancelled = true;
                                ct.clone().cancel();
                            }
                        }
                    }
                    st.in_accept.set(Some("incoming"));
                    let r = inc.next().await;
                    st.in_accept.set(None);
                    if trace() {
                        eprintln!("accept: incoming (end {end:?}, cancelled {cancelled}, got {got}) -> {:?}", r.as_ref().map(|r| r.as_ref().map(|s| s.as_raw_fd()).map_err(|e| e.to_string())));
                    }
                    match r {
                        Some(Ok(s)) => {
                            got += 1;
                            ctx.floor("accept-multishot");
                            if multi_before {
                                ctx.floor("accept-multishot-rearm");
                            }
                            if !take_conn(&ctx, &st, s, "incoming", &mut tasks) {
                                break 'outer;
                            }
                        }
                        Some(Err(e)) if cancelled && is_cancelled(&e) => break,
                        None if cancelled => break,
                        Some(Err(e)) => {
                            ctx.fail(
                                format!("C14/accept/error/{}/incoming/{}", st.tag, errname(&e)),
                                format!("incoming() failed after {} of {} connections: {e}", st.accepted.get(), st.n),
                            );
                            break 'outer;
                        }
                        None => {
                            ctx.fail(
                                format!("C14/accept/incoming-ended/{}", st.tag),
                                "the incoming() stream ended by itself".into(),
                            );
                            break 'outer;
                        }
                    }
                }
                multi_before = true;
                // triage aid: let an in-flight cancellation of the dropped stream finish before re-arming
                if let Some(n) = std::env::var("C14_DROP_SETTLE").ok().and_then(|v| v.parse::<usize>().ok()) {
                    yields(&ctx, n).await;
                }
            }
        }
    }
    st.acceptor_done.set(true);
    ctx.tick();
    for t in tasks {
        t.await.resume_unwind();
    }
}

async fn client<L: Lis>(ctx: Rc<Ctx>, st: Rc<State>, addr: L::Addr, i: usize, delay: usize) {
    yields(&ctx, delay).await;
    let s = match L::connect(&addr).await {
        Ok(s) => s,
        Err(e) => {
            ctx.give_up(format!("client connect failed: {e}"));
            return;
        }
    };
    st.connected.set(st.connected.get() + 1);
    ctx.tick();
    let BufResult(r, _) = s.c_write_all(st.nonce(i).to_vec()).await;
    if r.is_err() {
        st.closed.borrow_mut().push(i);
        ctx.tick();
        return;
    }
    let BufResult(r, b) = s.c_read(vec![0u8; 1]).await;
    match r {
        Ok(1) if b[0] == 0xAC => st.acked.set(st.acked.get() + 1),
        _ => st.closed.borrow_mut().push(i),
    }
    ctx.tick();
    st.keep.borrow_mut().push(Box::new(s));
}

pub fn run(p: &AcceptProg, lim: &Limits) -> Outcome {
    match p.transport {
        Tr::Tcp => run_l::<TcpListener>(p, lim),
        Tr::Unix => run_l::<UnixListener>(p, lim),
    }
}

fn run_l<L: Lis>(p: &AcceptProg, lim: &Limits) -> Outcome {
    let ctx = Rc::new(Ctx::default());
    let tag = format!("{}/{}", p.transport.name(), p.driver.name());
    let st = Rc::new(State {
        tag: tag.clone(),
        n: p.n,
        salt: p.salt,
        accepted: Cell::new(0),
        acceptor_done: Cell::new(false),
        in_accept: Cell::new(None),
        lfd: Cell::new(-1),
        seen: RefCell::new(vec![0; p.n]),
        live_fds: RefCell::new(BTreeSet::new()),
        acked: Cell::new(0),
        closed: RefCell::new(Vec::new()),
        ext_done: Arc::new(AtomicUsize::new(0)),
        ext_closed: Arc::new(Mutex::new(Vec::new())),
        connected: Cell::new(0),
        ext_connected: Arc::new(AtomicUsize::new(0)),
        ext_stuck: Arc::new(Mutex::new(Vec::new())),
        ext_fds: Arc::new(Mutex::new(Vec::new())),
        ext_pos: Arc::new(AtomicUsize::new(0)),
        finished_early: Cell::new(false),
        used_drop: Cell::new(false),
        used_cancel: Cell::new(false),
        used_multi: Cell::new(false),
        handlers_done: Cell::new(0),
        keep: RefCell::new(Vec::new()),
    });
    let finish = |ctx: &Rc<Ctx>| {
        let mut kinds: BTreeSet<String> = BTreeSet::new();
        for ph in &p.phases {
            kinds.insert(match ph {
                Phase::Single { k } => format!("single{}", (*k).min(3)),
                Phase::Multi { take, end } => format!("multi{}{}", (*take).min(3), if *end == End::Drop { "drop" } else { "cancel" }),
            });
        }
        Outcome {
            sig: format!(
                "accept/{tag}/{}/n{}/{}/d{}",
                if p.thread_clients { "thread" } else { "compio" },
                p.n.min(9),
                kinds.into_iter().collect::<Vec<_>>().join("+"),
                p.accept_delay.min(1)
            ),
            ctx: ctx.clone(),
        }
    };
    let rt = match build_rt(&RtCfg { drv: p.driver, pool_len: 4096, pool_size: 4 }) {
        Ok(rt) => rt,
        Err(e) => {
            ctx.give_up(format!("runtime build failed: {e}"));
            return finish(&ctx);
        }
    };
    let thread: Rc<RefCell<Option<std::thread::JoinHandle<()>>>> = Rc::new(RefCell::new(None));
    let main = {
        let ctx = ctx.clone();
        let st = st.clone();
        let p = p.clone();
        let thread = thread.clone();
        async move {
            let (l, addr) = match L::bind(p.v6, p.listener_from_std).await {
                Ok(x) => x,
                Err(e) => {
                    ctx.give_up(format!("setup: {e}"));
                    return;
                }
            };
            let mut tasks = Vec::new();
            if p.thread_clients {
                let nonces: Vec<[u8; 8]> = (0..p.n).map(|i| st.nonce(i)).collect();
                let done = st.ext_done.clone();
                let closed = st.ext_closed.clone();
                let connected = st.ext_connected.clone();
                let stuck = st.ext_stuck.clone();
                let fds = st.ext_fds.clone();
                let pos = st.ext_pos.clone();
                let a = addr.clone();
                *thread.borrow_mut() = Some(std::thread::spawn(move || {
                    // connect everything first: the connections pile up in the backlog
                    let mut socks = Vec::new();
                    for (i, n) in nonces.iter().enumerate() {
                        match L::std_connect(&a) {
                            Ok(mut s) => {
                                match &s {
                                    StdSock::Tcp(t) => {
                                        let _ = t.set_read_timeout(Some(Duration::from_secs(20)));
                                    }
                                    StdSock::Unix(t) => {
                                        let _ = t.set_read_timeout(Some(Duration::from_secs(20)));
                                    }
                                }
                                let _ = s.write_all(n);
                                socks.push((i, s));
                                connected.fetch_add(1, Ordering::SeqCst);
                            }
                            Err(_) => {
                                closed.lock().unwrap().push(i);
                                connected.fetch_add(1, Ordering::SeqCst);
                                done.fetch_add(1, Ordering::SeqCst);
                            }
                        }
                    }
                    *fds.lock().unwrap() = socks.iter().map(|(_, s)| match s {
                        StdSock::Tcp(t) => t.as_raw_fd(),
                        StdSock::Unix(t) => t.as_raw_fd(),
                    }).collect();
                    for (i, s) in socks.iter_mut() {
                        let mut b = [0u8; 1];
                        match s.read(&mut b) {
                            Ok(1) if b[0] == 0xAC => {}
                            Err(e) if matches!(e.kind(), io::ErrorKind::WouldBlock | io::ErrorKind::TimedOut) => {
                                stuck.lock().unwrap().push(*i)
                            }
                            _ => closed.lock().unwrap().push(*i),
                        }
                        pos.fetch_add(1, Ordering::SeqCst);
                        done.fetch_add(1, Ordering::SeqCst);
                    }
                }));
            } else {
                for i in 0..p.n {
                    tasks.push(compio_runtime::spawn(client::<L>(ctx.clone(), st.clone(), addr.clone(), i, p.stagger * i)));
                }
            }
            tasks.push(compio_runtime::spawn(acceptor(ctx.clone(), st.clone(), p.clone(), l)));
            for t in tasks {
                t.await.resume_unwind();
            }
        }
    };
    let ext = {
        let st = st.clone();
        move || (st.ext_done.load(Ordering::SeqCst) + st.ext_connected.load(Ordering::SeqCst)) as u64
    };
    let stall = {
        let st = st.clone();
        move || {
            if st.acceptor_done.get() {
                return Stall::KeepWaiting;
            }
            let Some(how) = st.in_accept.get() else { return Stall::KeepWaiting };
            let ev = poll_fd(st.lfd.get(), libc::POLLIN);
            if ev & libc::POLLIN != 0 {
                return Stall::Violation(Fail {
                    sig: format!("C14/accept/stall-readable/{}/{how}/after-{}", st.tag, st.mode()),
                    what: format!(
                        "{how} made no progress over the idle bound after {} of {} connections although poll() reports the listener readable",
                        st.accepted.get(), st.n
                    ),
                });
            }
            if st.clients_finished() >= st.n {
                let mut lost: Vec<usize> = st.closed.borrow().clone();
                lost.extend(st.ext_closed.lock().unwrap().iter().copied());
                lost.sort_unstable();
                if st.used_drop.get() && st.ext_stuck.lock().unwrap().is_empty() {
                    // Dropping an incoming() stream cancels it: connections the kernel had accepted for it
                    // may be closed instead of yielded, and every such peer has observed the close.
                    st.finished_early.set(true);
                    return Stall::Finish;
                }
                return Stall::Violation(Fail {
                    sig: format!("C14/accept/lost/{}/{}", st.tag, st.mode()),
                    what: format!(
                        "{} clients connected and sent their nonce, the acceptor got {} connections and now waits in {how} with an empty backlog; clients {lost:?} saw their connection closed without ever being yielded (acceptor script so far used: {})",
                        st.n, st.accepted.get(), st.mode()
                    ),
                });
            }
            if st.connected.get() + st.ext_connected.load(Ordering::SeqCst) >= st.n {
                // The std client thread may simply not have run yet: a connection whose client socket
                // has an acknowledgement or a hang-up waiting is not leaked.
                let fds = st.ext_fds.lock().unwrap();
                let pos = st.ext_pos.load(Ordering::SeqCst);
                if st.ext_connected.load(Ordering::SeqCst) > 0
                    && (fds.is_empty()
                        || fds.iter().skip(pos).all(|fd| {
                            poll_fd(*fd, libc::POLLIN | POLLRDHUP) & (libc::POLLIN | POLLRDHUP | libc::POLLHUP | libc::POLLERR) != 0
                        }))
                {
                    return Stall::KeepWaiting;
                }
                drop(fds);
                return Stall::Violation(Fail {
                    sig: format!("C14/accept/leaked/{}/{}", st.tag, st.mode()),
                    what: format!(
                        "all {} clients are connected, the acceptor got {} connections and waits in {how} with an empty backlog, {} clients were acknowledged or saw a close: the remaining connections were neither yielded nor closed (acceptor script so far used: {})",
                        st.n, st.accepted.get(), st.clients_finished(), st.mode()
                    ),
                });
            }
            Stall::KeepWaiting
        }
    };
    drive(&rt, &ctx, lim, &ext, &stall, main);
    rt.enter(|| st.keep.borrow_mut().clear());
    drop(rt);
    if let Some(h) = thread.borrow_mut().take() {
        let _ = h.join();
    }
    if !ctx.stopped() {
        // every nonce at most once; exactly once unless a dropped stream closed the connection
        // and its peer observed that
        let seen = st.seen.borrow();
        let mut closed: Vec<usize> = st.closed.borrow().clone();
        closed.extend(st.ext_closed.lock().unwrap().iter().copied());
        let stuck = st.ext_stuck.lock().unwrap().clone();
        for i in 0..p.n {
            let excused = st.finished_early.get() && seen[i] == 0 && closed.contains(&i) && !stuck.contains(&i);
            if seen[i] > 1 {
                ctx.fail(format!("C14/accept/duplicate/{tag}/{}", st.mode()), format!("client {i} was yielded {} times", seen[i]));
                break;
            }
            if seen[i] == 0 && !excused {
                ctx.fail(
                    format!("C14/accept/leaked/{tag}/{}", st.mode()),
                    format!("the connection of client {i} was neither yielded nor observed closed by its peer"),
                );
                break;
            }
            if excused {
                ctx.count("accept_closed_by_dropped_stream", 1);
            }
        }
        if st.finished_early.get() {
            ctx.count("accept_programs_with_drop_closed_connections", 1);
        }
    }
    ctx.count("accept_programs", 1);
    ctx.count("accept_connections", st.accepted.get() as i64);
    finish(&ctx)
}

pub fn generate(r: &mut Rng, g: &GenCfg) -> AcceptProg {
    let n = match r.below(4) {
        0 => r.range(1, 3),
        1..=2 => r.range(3, 8),
        _ => r.range(8, 16 * g.scale),
    };
    let phases = (0..r.range(1, 4))
        .map(|_| {
            if r.chance(1, 3) {
                Phase::Single { k: r.range(1, 3) }
            } else {
                Phase::Multi { take: r.range(1, 4), end: if r.chance(1, 2) { End::Drop } else { End::Cancel } }
            }
        })
        .collect();
    AcceptProg {
        transport: if r.chance(1, 2) { Tr::Tcp } else { Tr::Unix },
        driver: g.drv,
        v6: g.v6 && r.chance(1, 3),
        n,
        thread_clients: r.chance(1, 3),
        listener_from_std: r.chance(1, 4),
        stagger: *r.pick(&[0, 0, 1, 5]),
        accept_delay: *r.pick(&[0, 0, 10, 60]),
        phases,
        salt: r.next_u64() | 1,
    }
}
