//! stub
use super::*;
pub struct AcceptProg { pub driver: Drv }
impl AcceptProg {
    pub fn to_json(&self) -> Value { json!({"family": "accept", "transport": "x", "driver": self.driver.name()}) }
    pub fn from_json(v: &Value) -> Option<AcceptProg> { Some(AcceptProg { driver: Drv::parse(js(v, "driver")) }) }
}
pub fn run(_p: &AcceptProg, _lim: &Limits) -> Outcome { Outcome { sig: "accept/stub".into(), ctx: Rc::new(Ctx::default()) } }
pub fn generate(_r: &mut Rng, g: &GenCfg) -> AcceptProg { AcceptProg { driver: g.drv } }
