//! C14 buffer shapes shared by the stream and datagram programs: send buffer
//! shapes (`sbuf!`, `svec!`), receive buffers with a tail pattern and their
//! post-I/O checks (`rbuf!`, `rvec!`, `check_single`, `check_segs`).
#![allow(unused_macros, unused_imports, dead_code)]

use compio_buf::{BufResult, IntoInner, IoBuf, IoVectoredBuf, bytes::Bytes};

use super::*;

pub fn split_parts(data: Vec<u8>, lens: &[usize]) -> Vec<Vec<u8>> {
    let mut out = Vec::with_capacity(lens.len());
    let mut o = 0;
    for l in lens {
        out.push(data[o..o + l].to_vec());
        o += l;
    }
    out
}

pub fn to3(mut parts: Vec<Vec<u8>>) -> [Vec<u8>; 3] {
    while parts.len() > 3 {
        let last = parts.pop().unwrap();
        parts.last_mut().unwrap().extend_from_slice(&last);
    }
    while parts.len() < 3 {
        parts.insert(0, Vec::new());
    }
    let c = parts.pop().unwrap();
    let b = parts.pop().unwrap();
    let a = parts.pop().unwrap();
    [a, b, c]
}

pub fn flat<V: IoVectoredBuf>(v: &V) -> Vec<u8> {
    let mut out = Vec::new();
    for s in v.iter_slice() {
        out.extend_from_slice(s);
    }
    out
}

macro_rules! sbuf {
    ($shape:expr, $data:ident, |$b:ident| $body:expr) => {
        match $shape % 5 {
            0 => {
                let $b = $data;
                $body
            }
            1 => {
                let mut v = Vec::with_capacity($data.len() + 37);
                v.extend_from_slice(&$data);
                let $b = v;
                $body
            }
            2 => {
                let n = $data.len();
                let mut v = vec![0x5Au8; 5];
                v.extend_from_slice(&$data);
                v.extend_from_slice(&[0xA5; 9]);
                let $b = compio_buf::IoBufExt::slice(v, 5..5 + n);
                $body
            }
            3 => {
                let $b = Bytes::from($data);
                $body
            }
            _ => {
                let $b: Box<[u8]> = $data.into_boxed_slice();
                $body
            }
        }
    };
}

macro_rules! svec {
    ($shape:expr, $data:ident, $cuts:expr, |$b:ident| $body:expr) => {{
        let lens = cut($data.len(), $cuts);
        let mut parts = split_parts($data, &lens);
        match $shape % 4 {
            0 => {
                let $b = parts;
                $body
            }
            1 => {
                let $b: [Vec<u8>; 3] = to3(parts);
                $body
            }
            2 => {
                let [a, b_, c] = to3(parts);
                let $b = (a, (Bytes::from(b_), (c.into_boxed_slice(),)));
                $body
            }
            _ => {
                parts.insert(0, vec![0xEE; 7]);
                parts.insert(1, vec![0xEE; 4]);
                let $b = IoVectoredBuf::slice(parts, 11);
                $body
            }
        }
    }};
}


pub type RFail = (&'static str, String);

/// Single buffer check: `n` bytes reported for I/O capacity `a..a+cap_io` of `v`.
pub fn check_single(n: usize, v: &Vec<u8>, a: usize, prelen: usize, cap_io: usize) -> Result<Vec<u8>, RFail> {
    if n > cap_io {
        return Err(("overlong-result", format!("{n} bytes reported for a buffer of capacity {cap_io}")));
    }
    let want_len = prelen.max(a + n);
    if v.len() != want_len {
        return Err((
            "buf-len",
            format!("buffer length is {} after {n} bytes were reported (length before {prelen}, offset {a})", v.len()),
        ));
    }
    let r = raw(v);
    if let Some(i) = (0..a).find(|&i| r[i] != tail(i)) {
        return Err(("overrun", format!("byte {i} before the I/O window (starts at {a}) was modified")));
    }
    if let Some(i) = tail_damage(v, a + n) {
        return Err((
            "overrun",
            format!("byte {i} of the buffer was modified although only {n} bytes from offset {a} were reported (capacity {})", r.len()),
        ));
    }
    Ok(r[a..a + n].to_vec())
}

pub fn check_segs(n: usize, segs: &[&Vec<u8>]) -> Result<Vec<u8>, RFail> {
    let total: usize = segs.iter().map(|s| s.capacity()).sum();
    if n > total {
        return Err(("overlong-result", format!("{n} bytes reported for vectored capacity {total}")));
    }
    let mut rem = n;
    let mut out = Vec::with_capacity(n);
    for (i, s) in segs.iter().enumerate() {
        let f = rem.min(s.capacity());
        rem -= f;
        if s.len() != f {
            return Err((
                "buf-len",
                format!("segment {i} has length {} but {f} of the {n} reported bytes belong to it (capacity {})", s.len(), s.capacity()),
            ));
        }
        if let Some(j) = tail_damage(s, f) {
            return Err(("overrun", format!("segment {i} byte {j} modified beyond its {f} filled bytes")));
        }
        out.extend_from_slice(&raw(s)[..f]);
    }
    Ok(out)
}

macro_rules! rbuf {
    ($shape:expr, $cap:expr, |$b:ident| $body:expr) => {
        match $shape % 4 {
            0 => {
                let $b = qvec($cap, 0);
                let c = $b.capacity();
                let BufResult(r, v) = $body;
                (r, v, 0usize, 0usize, c)
            }
            1 => {
                let pl = ($cap / 2).min(3);
                let $b = qvec($cap, pl);
                let c = $b.capacity();
                let BufResult(r, v) = $body;
                (r, v, 0usize, pl, c)
            }
            2 => {
                let $b = compio_buf::IoBufExt::slice(qvec($cap + 7, 3), 3..3 + $cap);
                let BufResult(r, s) = $body;
                (r, s.into_inner(), 3usize, 3usize, $cap)
            }
            _ => {
                let $b = qvec($cap, usize::MAX);
                let c = $b.capacity();
                let BufResult(r, v) = $body;
                (r, v, 0usize, c, c)
            }
        }
    };
}

pub fn seg_caps(cap: usize, cuts: &[u16], k: Option<usize>) -> Vec<usize> {
    let mut caps = cut(cap, cuts);
    if let Some(k) = k {
        while caps.len() > k {
            let l = caps.pop().unwrap();
            *caps.last_mut().unwrap() += l;
        }
        while caps.len() < k {
            caps.push(0);
        }
    }
    caps
}

/// `$body` evaluates to `BufResult<R, V>`; result is `(R-result, Vec of segment refs' check)`.
macro_rules! rvec {
    ($shape:expr, $cap:expr, $cuts:expr, $n_of:expr, |$b:ident| $body:expr) => {
        match $shape % 3 {
            0 => {
                let caps = seg_caps($cap, $cuts, None);
                let $b: Vec<Vec<u8>> = caps.iter().map(|c| qvec(*c, 0)).collect();
                let tot: usize = $b.iter().map(|s| s.capacity()).sum();
                let BufResult(r, v) = $body;
                r.map(|x| $n_of(x, tot)).map(|(n, extra)| (check_segs(n, &v.iter().collect::<Vec<_>>()), extra))
            }
            1 => {
                let caps = seg_caps($cap, $cuts, Some(2));
                let $b: [Vec<u8>; 2] = [qvec(caps[0], 0), qvec(caps[1], 0)];
                let tot: usize = $b.iter().map(|s| s.capacity()).sum();
                let BufResult(r, v) = $body;
                r.map(|x| $n_of(x, tot)).map(|(n, extra)| (check_segs(n, &[&v[0], &v[1]]), extra))
            }
            _ => {
                let caps = seg_caps($cap, $cuts, Some(2));
                let $b = (qvec(caps[0], 0), (qvec(caps[1], 0),));
                let tot: usize = $b.0.capacity() + $b.1.0.capacity();
                let BufResult(r, v) = $body;
                r.map(|x| $n_of(x, tot)).map(|(n, extra)| (check_segs(n, &[&v.0, &v.1.0]), extra))
            }
        }
    };
}

