//! stub
use super::*;
pub struct DgramProg { pub driver: Drv }
impl DgramProg {
    pub fn to_json(&self) -> Value { json!({"family": "dgram", "transport": "x", "driver": self.driver.name()}) }
    pub fn from_json(v: &Value) -> Option<DgramProg> { Some(DgramProg { driver: Drv::parse(js(v, "driver")) }) }
}
pub fn run(_p: &DgramProg, _lim: &Limits) -> Outcome { Outcome { sig: "dgram/stub".into(), ctx: Rc::new(Ctx::default()) } }
pub fn generate(_r: &mut Rng, g: &GenCfg) -> DgramProg { DgramProg { driver: g.drv } }
