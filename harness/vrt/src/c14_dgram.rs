//! C14 datagram programs: UDP over loopback, one receiver socket, one or two
//! sender sockets. Every datagram carries `magic | id`; the receiver checks
//! each received datagram against the table of sent ones.

use std::{net::SocketAddr, os::fd::AsRawFd};

use compio_buf::{BufResult, IntoInner, IoBuf, IoVectoredBuf, bytes::Bytes};
use compio_io::ancillary::ReturnFlags;
use compio_net::UdpSocket;
use compio_runtime::{CancelToken, ResumeUnwind, StreamExt as _};
use futures_util::StreamExt as _;

use super::{
    bufs::*,
    stream::{loop_addr, trace},
    *,
};

macro_rules! dkinds {
    ($name:ident { $($v:ident = $s:expr),* $(,)? }) => {
        #[derive(Clone, Copy, PartialEq, Eq, Debug, PartialOrd, Ord)]
        pub enum $name { $($v),* }
        impl $name {
            pub const ALL: &'static [$name] = &[$($name::$v),*];
            pub fn name(self) -> &'static str { match self { $($name::$v => $s),* } }
            pub fn parse(s: &str) -> Option<$name> { match s { $($s => Some($name::$v),)* _ => None } }
        }
    };
}

dkinds!(DSK {
    Send = "send",
    SendVec = "send_vec",
    To = "send_to",
    ToVec = "send_to_vec",
    Msg = "send_msg",
    MsgVec = "send_msg_vec",
    Zc = "zc",
    ZcVec = "zc_vec",
    ToZc = "to_zc",
    ToZcVec = "to_zc_vec",
    MsgZc = "msg_zc",
    MsgZcVec = "msg_zc_vec",
});

dkinds!(DRK {
    Recv = "recv",
    RecvVec = "recv_vec",
    Managed = "managed",
    Multi = "multi",
    From = "from",
    FromVec = "from_vec",
    FromManaged = "from_managed",
    FromMulti = "from_multi",
    Msg = "msg",
    MsgVec = "msg_vec",
    MsgManaged = "msg_managed",
    MsgMulti = "msg_multi",
});

impl DSK {
    fn needs_connect(self) -> bool {
        matches!(self, DSK::Send | DSK::SendVec | DSK::Zc | DSK::ZcVec)
    }
}

impl DRK {
    fn has_addr(self) -> bool {
        !matches!(self, DRK::Recv | DRK::RecvVec | DRK::Managed | DRK::Multi)
    }

    fn has_flags(self) -> bool {
        matches!(self, DRK::Msg | DRK::MsgVec | DRK::MsgManaged | DRK::MsgMulti)
    }
}

const MAGIC: [u8; 4] = *b"C14D";
pub const HDR: usize = 8;
const CLEN: usize = 64;

#[derive(Clone, Debug)]
pub struct Msg {
    pub sender: usize,
    pub kind: DSK,
    pub len: usize,
    pub shape: usize,
    pub cuts: Vec<u16>,
    pub ctl: usize,
}

#[derive(Clone, Debug)]
pub struct DRecvOp {
    pub kind: DRK,
    pub cap: usize,
    pub shape: usize,
    pub cuts: Vec<u16>,
    pub take: usize,
}

#[derive(Clone, Debug)]
pub struct DgramProg {
    pub driver: Drv,
    pub v6: bool,
    pub from_std: bool,
    pub connected: Vec<bool>,
    pub pktinfo: bool,
    pub pool_len: usize,
    pub pool_size: usize,
    pub salt: u64,
    pub msgs: Vec<Msg>,
    pub recvs: Vec<DRecvOp>,
    pub recv_delay: usize,
}

impl DgramProg {
    pub fn to_json(&self) -> Value {
        json!({
            "family": "dgram", "transport": "udp", "driver": self.driver.name(), "v6": self.v6, "from_std": self.from_std,
            "connected": self.connected, "pktinfo": self.pktinfo, "pool_len": self.pool_len, "pool_size": self.pool_size,
            "salt": self.salt, "recv_delay": self.recv_delay,
            "msgs": self.msgs.iter().map(|m| json!({"sender": m.sender, "kind": m.kind.name(), "len": m.len,
                "shape": m.shape, "cuts": m.cuts, "ctl": m.ctl})).collect::<Vec<_>>(),
            "recvs": self.recvs.iter().map(|o| json!({"kind": o.kind.name(), "cap": o.cap, "shape": o.shape,
                "cuts": o.cuts, "take": o.take})).collect::<Vec<_>>(),
        })
    }

    pub fn from_json(v: &Value) -> Option<DgramProg> {
        let cuts = |o: &Value| -> Vec<u16> {
            o["cuts"].as_array().map(|a| a.iter().map(|x| x.as_u64().unwrap_or(0) as u16).collect()).unwrap_or_default()
        };
        let mut msgs = Vec::new();
        for o in v["msgs"].as_array()? {
            msgs.push(Msg {
                sender: ju(o, "sender"),
                kind: DSK::parse(js(o, "kind"))?,
                len: ju(o, "len").max(HDR),
                shape: ju(o, "shape"),
                cuts: cuts(o),
                ctl: ju(o, "ctl"),
            });
        }
        let mut recvs = Vec::new();
        for o in v["recvs"].as_array()? {
            recvs.push(DRecvOp {
                kind: DRK::parse(js(o, "kind"))?,
                cap: ju(o, "cap").max(HDR),
                shape: ju(o, "shape"),
                cuts: cuts(o),
                take: ju(o, "take"),
            });
        }
        let connected: Vec<bool> = v["connected"].as_array()?.iter().map(|b| b.as_bool().unwrap_or(false)).collect();
        if recvs.is_empty() || connected.is_empty() || msgs.iter().any(|m| m.sender >= connected.len()) {
            return None;
        }
        Some(DgramProg {
            driver: Drv::parse(js(v, "driver")),
            v6: jb(v, "v6"),
            from_std: jb(v, "from_std"),
            connected,
            pktinfo: jb(v, "pktinfo"),
            pool_len: ju(v, "pool_len").max(512),
            pool_size: ju(v, "pool_size").max(2),
            salt: v["salt"].as_u64().unwrap_or(1),
            msgs,
            recvs,
            recv_delay: ju(v, "recv_delay"),
        })
    }
}

fn payload(salt: u64, id: usize, len: usize) -> Vec<u8> {
    let mut v = Vec::with_capacity(len);
    v.extend_from_slice(&MAGIC);
    v.extend_from_slice(&(id as u32).to_le_bytes());
    let s = salt ^ ((id as u64 + 1) << 32);
    for i in HDR..len {
        v.push(pat(s, i as u64));
    }
    v.truncate(len);
    v
}

struct State {
    tag: String,
    n: usize,
    received: Cell<usize>,
    sent: Cell<usize>,
    senders_done: Cell<bool>,
    recv_done: Cell<bool>,
    rfd: Cell<RawFd>,
    in_recv: Cell<Option<DRK>>,
    /// estimated receive-queue charge of datagrams sent and not yet received
    inflight: Cell<usize>,
    credit: Event,
    /// charge per datagram id
    lens: Vec<usize>,
    released: RefCell<Vec<bool>>,
}

impl State {
    /// A datagram left the kernel queue: give its charge back (once).
    fn release(&self, data: &[u8]) {
        if data.len() >= HDR && data[..4] == MAGIC {
            let id = u32::from_le_bytes([data[4], data[5], data[6], data[7]]) as usize;
            let mut rel = self.released.borrow_mut();
            if id < rel.len() && !rel[id] {
                rel[id] = true;
                self.inflight.set(self.inflight.get().saturating_sub(self.lens[id]));
                self.credit.notify();
            }
        }
    }
}

/// Pessimistic estimate of what one datagram charges to the receive queue.
/// Zero-copy sends reach the loopback receiver as page fragments (one page
/// per part at least).
fn charge(m: &Msg) -> usize {
    let zc = matches!(m.kind, DSK::Zc | DSK::ZcVec | DSK::ToZc | DSK::ToZcVec | DSK::MsgZc | DSK::MsgZcVec);
    2 * m.len + 2304 + if zc { 4096 * (m.cuts.len() + 3) } else { 0 }
}

fn raw_cmsg(level: i32, ty: i32, val: i32) -> Vec<u8> {
    let space = unsafe { libc::CMSG_SPACE(4) } as usize;
    let mut v = vec![0u8; space];
    let hdr = libc::cmsghdr { cmsg_len: unsafe { libc::CMSG_LEN(4) } as _, cmsg_level: level, cmsg_type: ty };
    unsafe {
        std::ptr::copy_nonoverlapping(&hdr as *const _ as *const u8, v.as_mut_ptr(), size_of::<libc::cmsghdr>());
    }
    let off = unsafe { libc::CMSG_LEN(0) } as usize;
    v[off..off + 4].copy_from_slice(&val.to_ne_bytes());
    v
}

fn dctl(v6: bool, variant: usize) -> Vec<u8> {
    if variant % 2 == 0 {
        Vec::new()
    } else if v6 {
        raw_cmsg(libc::IPPROTO_IPV6, libc::IPV6_TCLASS, 0x10)
    } else {
        raw_cmsg(libc::IPPROTO_IP, libc::IP_TOS, 0x10)
    }
}

async fn send_one(
    ctx: &Ctx,
    st: &State,
    sock: &UdpSocket,
    to: SocketAddr,
    v6: bool,
    m: &Msg,
    data: Vec<u8>,
) -> io::Result<usize> {
    let expect = data.clone();
    let zc = |kind: DSK, back: &[u8]| {
        if back != &expect[..] {
            ctx.fail(
                format!("C14/dgram/zc-buffer-changed/{}/{}", st.tag, kind.name()),
                "the buffer handed back by the zero-copy buffer future differs from the one submitted".into(),
            );
        }
    };
    let k = m.kind;
    match k {
        DSK::Send => sbuf!(m.shape, data, |b| sock.send(b).await.0),
        DSK::SendVec => svec!(m.shape, data, &m.cuts, |b| sock.send_vectored(b).await.0),
        DSK::To => sbuf!(m.shape, data, |b| sock.send_to(b, to).await.0),
        DSK::ToVec => svec!(m.shape, data, &m.cuts, |b| sock.send_to_vectored(b, to).await.0),
        DSK::Msg => sbuf!(m.shape, data, |b| sock.send_msg(b, dctl(v6, m.ctl), to).await.0),
        DSK::MsgVec => svec!(m.shape, data, &m.cuts, |b| sock.send_msg_vectored(b, dctl(v6, m.ctl), to).await.0),
        DSK::Zc => sbuf!(m.shape, data, |b| {
            let BufResult(r, fut) = sock.send_zerocopy(b).await;
            let back = fut.await;
            zc(k, back.as_init());
            r
        }),
        DSK::ZcVec => svec!(m.shape, data, &m.cuts, |b| {
            let BufResult(r, fut) = sock.send_zerocopy_vectored(b).await;
            let back = fut.await;
            zc(k, &flat(&back));
            r
        }),
        DSK::ToZc => sbuf!(m.shape, data, |b| {
            let BufResult(r, fut) = sock.send_to_zerocopy(b, to).await;
            let back = fut.await;
            zc(k, back.as_init());
            r
        }),
        DSK::ToZcVec => svec!(m.shape, data, &m.cuts, |b| {
            let BufResult(r, fut) = sock.send_to_zerocopy_vectored(b, to).await;
            let back = fut.await;
            zc(k, &flat(&back));
            r
        }),
        DSK::MsgZc => sbuf!(m.shape, data, |b| {
            let BufResult(r, fut) = sock.send_msg_zerocopy(b, dctl(v6, m.ctl), to).await;
            let (back, _c) = fut.await;
            zc(k, back.as_init());
            r
        }),
        DSK::MsgZcVec => svec!(m.shape, data, &m.cuts, |b| {
            let BufResult(r, fut) = sock.send_msg_zerocopy_vectored(b, dctl(v6, m.ctl), to).await;
            let (back, _c) = fut.await;
            zc(k, &flat(&back));
            r
        }),
    }
}

async fn senders(ctx: &Ctx, st: &State, p: &DgramProg, socks: &[UdpSocket], to: SocketAddr) {
    for (id, m) in p.msgs.iter().enumerate() {
        // never have more in flight than the receive queue can hold: loss is then impossible
        loop {
            if ctx.stopped() {
                return;
            }
            let g = st.credit.generation();
            if st.inflight.get() + charge(m) <= 100_000 || st.inflight.get() == 0 {
                break;
            }
            st.credit.changed(g).await;
        }
        let data = payload(p.salt, id, m.len);
        st.inflight.set(st.inflight.get() + charge(m));
        ctx.kind(m.kind.name());
        let r = send_one(ctx, st, &socks[m.sender], to, p.v6, m, data).await;
        ctx.tick();
        if trace() {
            eprintln!("dgram send #{id} {} len {} -> {r:?}", m.kind.name(), m.len);
        }
        match r {
            Ok(n) if n == m.len => {}
            Ok(n) => {
                ctx.fail(
                    format!("C14/dgram/send-length/{}/{}", st.tag, m.kind.name()),
                    format!("{} of a {} byte datagram reported {n} bytes", m.kind.name(), m.len),
                );
                return;
            }
            Err(e) => {
                ctx.fail(
                    format!("C14/dgram/send-error/{}/{}/{}", st.tag, m.kind.name(), errname(&e)),
                    format!("{} of a {} byte datagram failed: {e}", m.kind.name(), m.len),
                );
                return;
            }
        }
        st.sent.set(id + 1);
    }
    st.senders_done.set(true);
    ctx.tick();
}

struct Rx {
    data: Vec<u8>,
    addr: Option<Option<SocketAddr>>,
    flags: Option<ReturnFlags>,
    /// exact capacity that was offered, when known
    cap: Option<usize>,
    /// control bytes, for calls that return them
    control: Option<Vec<u8>>,
}

enum RxErr {
    Fail(&'static str, String),
    Io(io::Error),
}

impl From<RFail> for RxErr {
    fn from(f: RFail) -> Self {
        RxErr::Fail(f.0, f.1)
    }
}

fn busy(e: &io::Error) -> bool {
    e.kind() == io::ErrorKind::ResourceBusy || e.raw_os_error() == Some(libc::ENOBUFS)
}

fn ctl_out(c: &Vec<u8>, clen: usize) -> Result<Vec<u8>, RFail> {
    if clen > c.capacity() {
        return Err(("control-overlong", format!("control length {clen} reported for a {} byte control buffer", c.capacity())));
    }
    if let Some(i) = tail_damage(c, clen) {
        return Err(("control-len-lost", format!("the control buffer was written up to at least byte {i} but a control length of {clen} was reported")));
    }
    if c.len() != clen {
        return Err(("control-buf-len", format!("control buffer length is {} but control length {clen} was reported", c.len())));
    }
    Ok(raw(c)[..clen].to_vec())
}

async fn recv_one(
    ctx: &Ctx,
    st: &State,
    sock: &UdpSocket,
    op: &DRecvOp,
    remaining: usize,
    pool_len: usize,
    iour: bool,
) -> Result<Vec<Rx>, RxErr> {
    let cap = op.cap.max(HDR);
    let mlen = if op.shape % 3 == 0 { 0 } else { cap };
    let mcap = if mlen == 0 { pool_len } else { mlen.min(pool_len) };
    let sa = |a: SocketAddr| Some(Some(a));
    match op.kind {
        DRK::Recv => {
            let (r, v, a, pl, c) = rbuf!(op.shape, cap, |b| sock.recv(b).await);
            let n = r.map_err(RxErr::Io)?;
            let data = check_single(n, &v, a, pl, c)?;
            Ok(vec![Rx { data, addr: None, flags: None, cap: Some(c), control: None }])
        }
        DRK::From => {
            let (r, v, a, pl, c) = rbuf!(op.shape, cap, |b| sock.recv_from(b).await);
            let (n, addr) = r.map_err(RxErr::Io)?;
            let data = check_single(n, &v, a, pl, c)?;
            Ok(vec![Rx { data, addr: sa(addr), flags: None, cap: Some(c), control: None }])
        }
        DRK::Msg => {
            let mut ctl = None;
            let (r, v, a, pl, c) = rbuf!(op.shape, cap, |b| {
                let BufResult(r, (b, c)) = sock.recv_msg(b, qvec(CLEN, 0)).await;
                ctl = Some(c);
                BufResult(r, b)
            });
            let (n, clen, addr, flags) = r.map_err(RxErr::Io)?;
            let control = ctl_out(&ctl.unwrap(), clen)?;
            let data = check_single(n, &v, a, pl, c)?;
            Ok(vec![Rx { data, addr: sa(addr), flags: Some(flags), cap: Some(c), control: Some(control) }])
        }
        DRK::RecvVec => {
            let id = |n: usize, tot: usize| (n, tot);
            let r = rvec!(op.shape, cap, &op.cuts, id, |b| sock.recv_vectored(b).await);
            let (data, tot) = r.map_err(RxErr::Io)?;
            Ok(vec![Rx { data: data?, addr: None, flags: None, cap: Some(tot), control: None }])
        }
        DRK::FromVec => {
            let id = |x: (usize, SocketAddr), tot: usize| (x.0, (x.1, tot));
            let r = rvec!(op.shape, cap, &op.cuts, id, |b| sock.recv_from_vectored(b).await);
            let (data, (addr, tot)) = r.map_err(RxErr::Io)?;
            Ok(vec![Rx { data: data?, addr: sa(addr), flags: None, cap: Some(tot), control: None }])
        }
        DRK::MsgVec => {
            let id = |x: (usize, usize, SocketAddr, ReturnFlags), tot: usize| (x.0, (x.1, x.2, x.3, tot));
            let mut ctl = None;
            let r = rvec!(op.shape, cap, &op.cuts, id, |b| {
                let BufResult(r, (b, c)) = sock.recv_msg_vectored(b, qvec(CLEN, 0)).await;
                ctl = Some(c);
                BufResult(r, b)
            });
            let (data, (clen, addr, flags, tot)) = r.map_err(RxErr::Io)?;
            let control = ctl_out(&ctl.unwrap(), clen)?;
            Ok(vec![Rx { data: data?, addr: sa(addr), flags: Some(flags), cap: Some(tot), control: Some(control) }])
        }
        DRK::Managed | DRK::FromManaged | DRK::MsgManaged => {
            let mut spins = 0;
            loop {
                let r = match op.kind {
                    DRK::Managed => sock.recv_managed(mlen).await.map(|o| o.map(|b| (b.to_vec(), None, None, None))),
                    DRK::FromManaged => {
                        sock.recv_from_managed(mlen).await.map(|o| o.map(|(b, a)| (b.to_vec(), sa(a), None, None)))
                    }
                    _ => match sock.recv_msg_managed(mlen, qvec(CLEN, 0)).await {
                        Ok(Some((b, c, a, f))) => {
                            let control = ctl_out(&c, c.len())?;
                            Ok(Some((b.to_vec(), sa(a), Some(f), Some(control))))
                        }
                        Ok(None) => Ok(None),
                        Err(e) => Err(e),
                    },
                };
                match r {
                    Ok(Some((data, addr, flags, control))) => {
                        return Ok(vec![Rx { data, addr, flags, cap: Some(mcap), control }]);
                    }
                    Ok(None) => {
                        return Err(RxErr::Fail("empty-result", "the managed receive returned None (end-of-stream) on a datagram socket although no empty datagram was sent".into()));
                    }
                    Err(e) if busy(&e) && spins < 5000 => {
                        spins += 1;
                        ctx.count("recv_pool_busy", 1);
                        yields(ctx, 1).await;
                    }
                    Err(e) => return Err(RxErr::Io(e)),
                }
            }
        }
        DRK::Multi | DRK::FromMulti | DRK::MsgMulti => {
            let ct = CancelToken::new();
            let want = op.take.clamp(1, remaining.max(1));
            let mut out = Vec::new();
            let mut cancelled = false;
            let mut spins = 0;
            macro_rules! pump {
                ($s:expr, $conv:expr) => {{
                    let mut s = pin!($s.with_cancel(ct.clone()));
                    loop {
                        match s.next().await {
                            None => {
                                if !cancelled {
                                    return Err(RxErr::Fail("multishot-ended", "the multishot receive stream ended by itself on a datagram socket".into()));
                                }
                                break;
                            }
                            Some(Ok(item)) => {
                                let rx: Rx = $conv(item);
                                if rx.data.len() < HDR {
                                    // cannot be a sent datagram: let the check report it right away
                                    out.push(rx);
                                    return Ok(out);
                                }
                                st.release(&rx.data);
                                out.push(rx);
                                ctx.tick();
                                ctx.floor("dgram-multishot-recv");
                                if !cancelled && out.len() >= want {
                                    cancelled = true;
                                    ct.clone().cancel();
                                }
                            }
                            Some(Err(e)) if busy(&e) && spins < 5000 => {
                                spins += 1;
                                ctx.count("recv_pool_busy", 1);
                                yields(ctx, 1).await;
                            }
                            Some(Err(e)) if cancelled && is_cancelled(&e) => break,
                            Some(Err(e)) => return Err(RxErr::Io(e)),
                        }
                    }
                }};
            }
            match op.kind {
                DRK::Multi => pump!(sock.recv_multi(mlen), |b: compio_driver::BufferRef| Rx {
                    data: b.to_vec(),
                    addr: None,
                    flags: None,
                    cap: Some(mcap),
                    control: None
                }),
                DRK::FromMulti => pump!(sock.recv_from_multi(), |m: compio_driver::op::RecvFromMultiResult| Rx {
                    data: m.data().to_vec(),
                    addr: Some(m.addr().and_then(|a| a.as_socket())),
                    flags: None,
                    cap: if iour { None } else { Some(pool_len) },
                    control: None
                }),
                _ => pump!(sock.recv_msg_multi(CLEN), |m: compio_driver::op::RecvMsgMultiResult| Rx {
                    data: m.data().to_vec(),
                    addr: Some(m.addr().and_then(|a| a.as_socket())),
                    flags: Some(m.flags()),
                    cap: if iour { None } else { Some(pool_len) },
                    control: Some(m.ancillary().to_vec())
                }),
            }
            Ok(out)
        }
    }
}

/// Does the control data hold an IP_PKTINFO for 127.0.0.1?
fn has_pktinfo(c: &[u8]) -> bool {
    let hl = unsafe { libc::CMSG_LEN(0) } as usize;
    let mut off = 0;
    while off + size_of::<libc::cmsghdr>() <= c.len() {
        let hdr: libc::cmsghdr = unsafe { std::ptr::read_unaligned(c.as_ptr().add(off) as *const libc::cmsghdr) };
        let len = hdr.cmsg_len as usize;
        if len < hl || off + len > c.len() {
            return false;
        }
        if hdr.cmsg_level == libc::IPPROTO_IP && hdr.cmsg_type == libc::IP_PKTINFO && len >= hl + 12 {
            let d = &c[off + hl..off + hl + 12];
            // ipi_ifindex, ipi_spec_dst, ipi_addr
            return d[8..12] == [127, 0, 0, 1];
        }
        off += ((len + 7) & !7).max(1);
    }
    false
}

async fn receiver(ctx: &Ctx, st: &State, p: &DgramProg, sock: &UdpSocket, from: &[SocketAddr]) {
    st.rfd.set(sock.as_raw_fd());
    yields(ctx, p.recv_delay).await;
    let mut seen = vec![false; p.msgs.len()];
    let mut i = 0usize;
    let iour = p.driver == Drv::Iour;
    while st.received.get() < st.n && !ctx.stopped() {
        let op = &p.recvs[i % p.recvs.len()];
        i += 1;
        let k = op.kind;
        st.in_recv.set(Some(k));
        ctx.kind(k.name());
        let r = recv_one(ctx, st, sock, op, st.n - st.received.get(), p.pool_len, iour).await;
        st.in_recv.set(None);
        ctx.tick();
        let items = match r {
            Ok(v) => v,
            Err(RxErr::Fail(rule, what)) => {
                ctx.fail(format!("C14/dgram/{rule}/{}/r={}", st.tag, k.name()), format!("{}: {what}", k.name()));
                return;
            }
            Err(RxErr::Io(e)) if busy(&e) => {
                ctx.give_up(format!("buffer pool exhausted during {}", k.name()));
                return;
            }
            Err(RxErr::Io(e)) => {
                ctx.fail(
                    format!("C14/dgram/recv-error/{}/r={}/{}", st.tag, k.name(), errname(&e)),
                    format!("{} after {} of {} datagrams failed: {e}", k.name(), st.received.get(), st.n),
                );
                return;
            }
        };
        for rx in items {
            if trace() {
                eprintln!("dgram recv {} -> {} bytes addr {:?} flags {:?} cap {:?}", k.name(), rx.data.len(), rx.addr, rx.flags, rx.cap);
            }
            let bad = |rule: &str, what: String| {
                ctx.fail(format!("C14/dgram/{rule}/{}/r={}", st.tag, k.name()), format!("{}: {what}", k.name()));
            };
            let d = &rx.data;
            if d.len() < HDR || d[..4] != MAGIC {
                return bad(
                    "not-a-sent-datagram",
                    format!("received {} bytes {:02x?} which is not (the prefix of) any datagram sent; every sent datagram and every offered buffer has at least {HDR} bytes", d.len(), &d[..d.len().min(16)]),
                );
            }
            let id = u32::from_le_bytes([d[4], d[5], d[6], d[7]]) as usize;
            if id >= p.msgs.len() {
                return bad("not-a-sent-datagram", format!("datagram id {id} was never sent"));
            }
            let m = &p.msgs[id];
            let sk = m.kind.name();
            if seen[id] {
                return bad("duplicate", format!("datagram {id} (sent by {sk}) was delivered twice"));
            }
            seen[id] = true;
            let exp = payload(p.salt, id, m.len);
            if d.len() > m.len || d[..] != exp[..d.len()] {
                let at = (0..d.len().min(m.len)).find(|&j| d[j] != exp[j]).unwrap_or(m.len);
                ctx.fail(
                    format!("C14/dgram/corrupt/{}/s={sk}/r={}", st.tag, k.name()),
                    format!("datagram {id} ({} bytes, sent by {sk}) arrived as {} bytes differing at byte {at}", m.len, d.len()),
                );
                return;
            }
            if let Some(cap) = rx.cap {
                if d.len() != m.len.min(cap) {
                    return bad(
                        "wrong-length",
                        format!("datagram {id} has {} bytes, the buffer offered {cap}: expected {} bytes, got {}", m.len, m.len.min(cap), d.len()),
                    );
                }
            }
            let truncated = d.len() < m.len;
            if let Some(f) = rx.flags {
                if f.contains(ReturnFlags::TRUNC) != truncated {
                    return bad(
                        "trunc-flag",
                        format!("datagram {id} of {} bytes was delivered as {} bytes but the reported flags are {f:?}", m.len, d.len()),
                    );
                }
                if truncated {
                    ctx.floor("dgram-truncated-flagged");
                }
            } else if k.has_flags() {
                return bad("flags-missing", "no flags reported".into());
            }
            if truncated {
                ctx.count("dgram_truncated", 1);
            }
            if k.has_addr() {
                match rx.addr {
                    Some(Some(a)) if a == from[m.sender] => ctx.floor("dgram-source-address"),
                    Some(a) => {
                        return bad(
                            "wrong-source",
                            format!("datagram {id} was sent from {} but the reported source address is {a:?}", from[m.sender]),
                        );
                    }
                    None => return bad("wrong-source", "no source address reported".into()),
                }
            }
            if p.pktinfo && !p.v6 {
                if let Some(c) = &rx.control {
                    if !has_pktinfo(c) {
                        return bad(
                            "control-missing",
                            format!("IP_PKTINFO is enabled on the socket but the {} control bytes returned hold no packet info for 127.0.0.1", c.len()),
                        );
                    }
                    ctx.count("dgram_pktinfo_seen", 1);
                }
            }
            st.received.set(st.received.get() + 1);
            st.release(d);
            ctx.tick();
        }
    }
    st.recv_done.set(true);
    ctx.tick();
}

fn sock_drops(fd: RawFd) -> u32 {
    let mut m = [0u32; 9];
    let mut l = 36 as libc::socklen_t;
    let r = unsafe { libc::getsockopt(fd, libc::SOL_SOCKET, 55 /* SO_MEMINFO */, m.as_mut_ptr() as *mut _, &mut l) };
    if r == 0 { m[8] } else { 0 }
}

pub fn run(p: &DgramProg, lim: &Limits) -> Outcome {
    let ctx = Rc::new(Ctx::default());
    let tag = format!("udp/{}", p.driver.name());
    let st = Rc::new(State {
        tag: tag.clone(),
        n: p.msgs.len(),
        received: Cell::new(0),
        sent: Cell::new(0),
        senders_done: Cell::new(false),
        recv_done: Cell::new(false),
        rfd: Cell::new(-1),
        in_recv: Cell::new(None),
        inflight: Cell::new(0),
        credit: Event::default(),
        lens: p.msgs.iter().map(charge).collect(),
        released: RefCell::new(vec![false; p.msgs.len()]),
    });
    let finish = |ctx: &Rc<Ctx>| {
        let kinds = ctx.kinds.borrow();
        let s: Vec<&str> = kinds.iter().copied().filter(|k| DSK::parse(k).is_some()).collect();
        let r: Vec<&str> = kinds.iter().copied().filter(|k| DRK::parse(k).is_some()).collect();
        let trunc = ctx.counters.borrow().get("dgram_truncated").copied().unwrap_or(0) > 0;
        Outcome {
            sig: format!("dgram/{tag}/s={}/r={}/{}", s.join("+"), r.join("+"), if trunc { "truncating" } else { "fitting" }),
            ctx: ctx.clone(),
        }
    };
    let rt = match build_rt(&RtCfg { drv: p.driver, pool_len: p.pool_len, pool_size: p.pool_size as u16 }) {
        Ok(rt) => rt,
        Err(e) => {
            ctx.give_up(format!("runtime build failed: {e}"));
            return finish(&ctx);
        }
    };
    let main = {
        let ctx = ctx.clone();
        let st = st.clone();
        let p = p.clone();
        async move {
            let mk = async |_: usize| -> io::Result<UdpSocket> {
                if p.from_std {
                    UdpSocket::from_std(std::net::UdpSocket::bind(loop_addr(p.v6))?)
                } else {
                    UdpSocket::bind(loop_addr(p.v6)).await
                }
            };
            let setup: io::Result<(UdpSocket, Vec<UdpSocket>)> = async {
                let r = mk(0).await?;
                if p.pktinfo && !p.v6 {
                    let one: i32 = 1;
                    unsafe {
                        libc::setsockopt(r.as_raw_fd(), libc::IPPROTO_IP, libc::IP_PKTINFO, &one as *const i32 as *const _, 4);
                    }
                }
                let to = r.local_addr()?;
                let mut ss = Vec::new();
                for (i, c) in p.connected.iter().enumerate() {
                    let s = mk(i + 1).await?;
                    if *c {
                        s.connect(to).await?;
                    }
                    ss.push(s);
                }
                Ok((r, ss))
            }
            .await;
            let (r, ss) = match setup {
                Ok(x) => x,
                Err(e) => {
                    ctx.give_up(format!("setup: {e}"));
                    return;
                }
            };
            let to = r.local_addr().unwrap();
            let from: Vec<SocketAddr> = ss.iter().map(|s| s.local_addr().unwrap()).collect();
            let (c1, s1, p1) = (ctx.clone(), st.clone(), p.clone());
            let tx = compio_runtime::spawn(async move { senders(&c1, &s1, &p1, &ss, to).await });
            let (c2, s2, p2) = (ctx.clone(), st.clone(), p.clone());
            let rx = compio_runtime::spawn(async move { receiver(&c2, &s2, &p2, &r, &from).await });
            tx.await.resume_unwind();
            rx.await.resume_unwind();
        }
    };
    let stall = {
        let st = st.clone();
        move || {
            if st.recv_done.get() || st.in_recv.get().is_none() {
                return Stall::KeepWaiting;
            }
            let rk = st.in_recv.get().map(|k| k.name()).unwrap_or("idle");
            let ev = poll_fd(st.rfd.get(), libc::POLLIN);
            if ev & libc::POLLIN != 0 {
                return Stall::Violation(Fail {
                    sig: format!("C14/dgram/stall-readable/{}/r={rk}", st.tag),
                    what: format!(
                        "receiver blocked in {rk} after {} of {} datagrams made no progress over the idle bound although poll() reports the socket readable",
                        st.received.get(), st.n
                    ),
                });
            }
            if st.senders_done.get() {
                let drops = sock_drops(st.rfd.get());
                if drops > 0 {
                    return Stall::Inconclusive(format!("kernel dropped {drops} datagrams"));
                }
                return Stall::Violation(Fail {
                    sig: format!("C14/dgram/lost/{}/r={rk}", st.tag),
                    what: format!(
                        "all {} datagrams were sent, {} were delivered to the receiver, the socket holds nothing more and the kernel counts no drop: a datagram was consumed without being delivered (receiver now waits in {rk})",
                        st.n, st.received.get()
                    ),
                });
            }
            Stall::KeepWaiting
        }
    };
    drive(&rt, &ctx, lim, &|| 0, &stall, main);
    drop(rt);
    ctx.count("dgram_programs", 1);
    ctx.count("dgram_datagrams", st.received.get() as i64);
    finish(&ctx)
}

pub fn generate(r: &mut Rng, g: &GenCfg) -> DgramProg {
    let nsend = r.range(1, 2);
    let connected: Vec<bool> = (0..nsend).map(|_| r.chance(1, 2)).collect();
    let pool_len = *r.pick(&[512usize, 1024, 4096, 8192]);
    let pool_size = *r.pick(&[2usize, 4, 8, 16]);
    let mut sk: Vec<DSK> = DSK::ALL.to_vec();
    r.shuffle(&mut sk);
    sk.truncate(r.range(1, 4));
    let mut rk: Vec<DRK> = DRK::ALL.to_vec();
    r.shuffle(&mut rk);
    rk.truncate(r.range(1, 4));
    let n = r.range(1, 24 * g.scale);
    let msgs = (0..n)
        .map(|_| {
            let sender = r.below(nsend);
            let mut kind = *r.pick(&sk);
            if kind.needs_connect() && !connected[sender] {
                kind = match kind {
                    DSK::Send => DSK::To,
                    DSK::SendVec => DSK::ToVec,
                    DSK::Zc => DSK::ToZc,
                    _ => DSK::ToZcVec,
                };
            }
            Msg {
                sender,
                kind,
                len: match r.below(8) {
                    0 => HDR,
                    1..=4 => r.range(HDR, 1400),
                    5..=6 => r.range(1400, 9000),
                    _ => r.range(9000, 30000),
                },
                shape: r.below(20),
                cuts: (0..r.below(4)).map(|_| r.below(65536) as u16).collect(),
                ctl: r.below(2),
            }
        })
        .collect();
    let recvs = (0..r.range(1, 6))
        .map(|_| DRecvOp {
            kind: *r.pick(&rk),
            cap: match r.below(8) {
                0 => r.range(HDR, 32),
                1..=3 => r.range(32, 1500),
                _ => r.range(1500, 40000),
            },
            shape: r.below(12),
            cuts: (0..r.below(4)).map(|_| r.below(65536) as u16).collect(),
            take: r.range(1, 4),
        })
        .collect();
    DgramProg {
        driver: g.drv,
        v6: g.v6 && r.chance(1, 3),
        from_std: r.chance(1, 3),
        connected,
        pktinfo: r.chance(1, 2),
        pool_len,
        pool_size,
        salt: r.next_u64() | 1,
        msgs,
        recvs,
        recv_delay: *r.pick(&[0, 0, 3, 30]),
    }
}
