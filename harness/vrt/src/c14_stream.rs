//! C14 stream programs: TCP / Unix stream connections.

use std::{
    io::{Read, Write},
    mem::MaybeUninit,
    os::fd::AsRawFd,
    sync::{
        Arc,
        atomic::{AtomicBool, AtomicUsize, Ordering},
    },
};

use compio_buf::{BufResult, IntoInner, IoBuf, IoBufMut, IoVectoredBuf, IoVectoredBufMut, bytes::Bytes};
use compio_driver::{BufferRef, op::RecvMsgMultiResult};
use compio_io::{
    AsyncRead, AsyncReadExt, AsyncReadManaged, AsyncReadMulti, AsyncWrite, AsyncWriteExt, AsyncWriteZerocopy,
    ancillary::{
        AncillaryBuf, AncillaryData, AsyncReadAncillary, AsyncReadAncillaryManaged, AsyncReadAncillaryMulti,
        AsyncWriteAncillary, AsyncWriteAncillaryZerocopy, CodecError, ReturnFlags,
    },
};
use compio_net::{ReadHalf, TcpListener, TcpStream, UnixListener, UnixStream, WriteHalf};
use compio_runtime::{CancelToken, ResumeUnwind, StreamExt as _};
use futures_util::{Stream, StreamExt as _, future::LocalBoxFuture};

use super::{bufs::*, *};

// ---------------------------------------------------------------- kinds

macro_rules! kinds {
    ($name:ident { $($v:ident = $s:expr),* $(,)? }) => {
        #[derive(Clone, Copy, PartialEq, Eq, Debug, PartialOrd, Ord)]
        pub enum $name { $($v),* }
        impl $name {
            pub const ALL: &'static [$name] = &[$($name::$v),*];
            pub fn name(self) -> &'static str { match self { $($name::$v => $s),* } }
            pub fn parse(s: &str) -> Option<$name> { match s { $($s => Some($name::$v),)* _ => None } }
        }
    };
}

kinds!(SK {
    Write = "write",
    WriteVec = "write_vec",
    WriteAll = "write_all",
    WriteVecAll = "write_vec_all",
    Zc = "zc",
    ZcVec = "zc_vec",
    ZcDefer = "zc_defer",
    Msg = "msg",
    MsgVec = "msg_vec",
    MsgZc = "msg_zc",
    MsgZcVec = "msg_zc_vec",
});

kinds!(RK {
    Read = "read",
    ReadVec = "read_vec",
    ReadExact = "read_exact",
    ReadVecExact = "read_vec_exact",
    Managed = "managed",
    Multi = "multi",
    Anc = "anc",
    AncVec = "anc_vec",
    AncManaged = "anc_managed",
    AncMulti = "anc_multi",
});

kinds!(Via { Direct = "direct", Borrowed = "borrowed", Owned = "owned" });
kinds!(ConnMode { Compio = "compio", FromStd = "from_std", Thread = "thread" });
kinds!(Tr { Tcp = "tcp", Unix = "unix" });

impl SK {
    fn is_zc(self) -> bool {
        matches!(self, SK::Zc | SK::ZcVec | SK::ZcDefer | SK::MsgZc | SK::MsgZcVec)
    }

    fn is_msg(self) -> bool {
        matches!(self, SK::Msg | SK::MsgVec | SK::MsgZc | SK::MsgZcVec)
    }
}

#[derive(Clone, Debug)]
pub struct SendOp {
    pub kind: SK,
    pub len: usize,
    pub shape: usize,
    pub cuts: Vec<u16>,
    /// control message variant for msg kinds
    pub ctl: usize,
    pub pause: usize,
}

#[derive(Clone, Debug)]
pub struct RecvOp {
    pub kind: RK,
    pub cap: usize,
    pub shape: usize,
    pub cuts: Vec<u16>,
    /// items to take from a multishot stream before cancelling it
    pub take: usize,
    pub pause: usize,
}

#[derive(Clone, Debug)]
pub struct Dir {
    pub total: usize,
    pub salt: u64,
    pub sends: Vec<SendOp>,
    pub recvs: Vec<RecvOp>,
    pub shutdown: bool,
    pub recv_delay: usize,
}

#[derive(Clone, Debug)]
pub struct StreamProg {
    pub transport: Tr,
    pub driver: Drv,
    pub v6: bool,
    pub conn: ConnMode,
    /// forward direction flows client -> server when true
    pub sender_is_client: bool,
    pub client_via: Via,
    pub server_via: Via,
    /// in thread mode: the std peer is the sender
    pub peer_sends: bool,
    pub peer_chunk: usize,
    pub sndbuf: usize,
    pub rcvbuf: usize,
    pub pool_len: usize,
    pub pool_size: usize,
    pub nodelay: bool,
    pub fwd: Dir,
    pub rev: Option<Dir>,
}

fn dir_json(d: &Dir) -> Value {
    json!({
        "total": d.total, "salt": d.salt, "shutdown": d.shutdown, "recv_delay": d.recv_delay,
        "sends": d.sends.iter().map(|o| json!({"kind": o.kind.name(), "len": o.len, "shape": o.shape,
            "cuts": o.cuts, "ctl": o.ctl, "pause": o.pause})).collect::<Vec<_>>(),
        "recvs": d.recvs.iter().map(|o| json!({"kind": o.kind.name(), "cap": o.cap, "shape": o.shape,
            "cuts": o.cuts, "take": o.take, "pause": o.pause})).collect::<Vec<_>>(),
    })
}

fn cuts_of(v: &Value) -> Vec<u16> {
    v["cuts"].as_array().map(|a| a.iter().map(|x| x.as_u64().unwrap_or(0) as u16).collect()).unwrap_or_default()
}

fn dir_from(v: &Value) -> Option<Dir> {
    let mut sends = Vec::new();
    for o in v["sends"].as_array()? {
        sends.push(SendOp {
            kind: SK::parse(js(o, "kind"))?,
            len: ju(o, "len"),
            shape: ju(o, "shape"),
            cuts: cuts_of(o),
            ctl: ju(o, "ctl"),
            pause: ju(o, "pause"),
        });
    }
    let mut recvs = Vec::new();
    for o in v["recvs"].as_array()? {
        recvs.push(RecvOp {
            kind: RK::parse(js(o, "kind"))?,
            cap: ju(o, "cap"),
            shape: ju(o, "shape"),
            cuts: cuts_of(o),
            take: ju(o, "take"),
            pause: ju(o, "pause"),
        });
    }
    if sends.is_empty() || recvs.is_empty() {
        return None;
    }
    Some(Dir {
        total: ju(v, "total"),
        salt: v["salt"].as_u64().unwrap_or(1),
        sends,
        recvs,
        shutdown: jb(v, "shutdown"),
        recv_delay: ju(v, "recv_delay"),
    })
}

impl StreamProg {
    pub fn to_json(&self) -> Value {
        json!({
            "family": "stream", "transport": self.transport.name(), "driver": self.driver.name(), "v6": self.v6,
            "conn": self.conn.name(), "sender_is_client": self.sender_is_client,
            "client_via": self.client_via.name(), "server_via": self.server_via.name(),
            "peer_sends": self.peer_sends, "peer_chunk": self.peer_chunk,
            "sndbuf": self.sndbuf, "rcvbuf": self.rcvbuf, "pool_len": self.pool_len, "pool_size": self.pool_size,
            "nodelay": self.nodelay, "fwd": dir_json(&self.fwd),
            "rev": self.rev.as_ref().map(dir_json).unwrap_or(Value::Null),
        })
    }

    pub fn from_json(v: &Value) -> Option<StreamProg> {
        Some(StreamProg {
            transport: Tr::parse(js(v, "transport"))?,
            driver: Drv::parse(js(v, "driver")),
            v6: jb(v, "v6"),
            conn: ConnMode::parse(js(v, "conn"))?,
            sender_is_client: jb(v, "sender_is_client"),
            client_via: Via::parse(js(v, "client_via"))?,
            server_via: Via::parse(js(v, "server_via"))?,
            peer_sends: jb(v, "peer_sends"),
            peer_chunk: ju(v, "peer_chunk").max(1),
            sndbuf: ju(v, "sndbuf"),
            rcvbuf: ju(v, "rcvbuf"),
            pool_len: ju(v, "pool_len").max(16),
            pool_size: ju(v, "pool_size").max(1),
            nodelay: jb(v, "nodelay"),
            fwd: dir_from(&v["fwd"])?,
            rev: if v["rev"].is_null() { None } else { Some(dir_from(&v["rev"])?) },
        })
    }
}

// ---------------------------------------------------------------- the API surface, per stream type

/// `int`-sized ancillary payload (an fd for SCM_RIGHTS, a value for IP_TOS).
#[derive(Clone, Copy)]
pub struct CInt(pub i32);

impl AncillaryData for CInt {
    const SIZE: usize = 4;

    fn encode(&self, buffer: &mut [MaybeUninit<u8>]) -> Result<(), CodecError> {
        if buffer.len() < 4 {
            return Err(CodecError::BufferTooSmall);
        }
        for (d, s) in buffer.iter_mut().zip(self.0.to_ne_bytes()) {
            d.write(s);
        }
        Ok(())
    }

    fn decode(buffer: &[u8]) -> Result<Self, CodecError> {
        if buffer.len() < 4 {
            return Err(CodecError::BufferTooSmall);
        }
        Ok(CInt(i32::from_ne_bytes([buffer[0], buffer[1], buffer[2], buffer[3]])))
    }
}

pub enum StdSock {
    Tcp(std::net::TcpStream),
    Unix(std::os::unix::net::UnixStream),
}

impl StdSock {
    fn set_timeouts(&self, d: Duration) {
        match self {
            StdSock::Tcp(s) => {
                let _ = s.set_read_timeout(Some(d));
                let _ = s.set_write_timeout(Some(d));
            }
            StdSock::Unix(s) => {
                let _ = s.set_read_timeout(Some(d));
                let _ = s.set_write_timeout(Some(d));
            }
        }
    }

    fn shutdown_write(&self) -> io::Result<()> {
        match self {
            StdSock::Tcp(s) => s.shutdown(std::net::Shutdown::Write),
            StdSock::Unix(s) => s.shutdown(std::net::Shutdown::Write),
        }
    }

    fn fd(&self) -> RawFd {
        match self {
            StdSock::Tcp(s) => s.as_raw_fd(),
            StdSock::Unix(s) => s.as_raw_fd(),
        }
    }
}

impl Read for StdSock {
    fn read(&mut self, buf: &mut [u8]) -> io::Result<usize> {
        match self {
            StdSock::Tcp(s) => s.read(buf),
            StdSock::Unix(s) => s.read(buf),
        }
    }
}

impl Write for StdSock {
    fn write(&mut self, buf: &[u8]) -> io::Result<usize> {
        match self {
            StdSock::Tcp(s) => s.write(buf),
            StdSock::Unix(s) => s.write(buf),
        }
    }

    fn flush(&mut self) -> io::Result<()> {
        Ok(())
    }
}

type ZcFut<B> = LocalBoxFuture<'static, B>;

#[allow(async_fn_in_trait)]
pub trait Conn: Clone + AsRawFd + std::os::fd::AsFd + 'static {
    const TR: Tr;
    async fn pair_compio(v6: bool) -> io::Result<(Self, Self)>;
    fn pair_std(v6: bool) -> io::Result<(StdSock, StdSock)>;
    fn from_std_sock(s: StdSock) -> io::Result<Self>;
    fn split_b(&self) -> (ReadHalf<'_, Self>, WriteHalf<'_, Self>);
    fn split_o(self) -> (Self, Self);

    async fn c_read<B: IoBufMut>(&self, b: B) -> BufResult<usize, B>;
    async fn c_read_vec<V: IoVectoredBufMut>(&self, b: V) -> BufResult<usize, V>;
    async fn c_read_exact<B: IoBufMut>(&self, b: B) -> BufResult<(), B>;
    async fn c_read_vec_exact<V: IoVectoredBufMut>(&self, b: V) -> BufResult<(), V>;
    async fn h_read<B: IoBufMut>(h: &mut ReadHalf<'_, Self>, b: B) -> BufResult<usize, B>;
    async fn h_read_vec<V: IoVectoredBufMut>(h: &mut ReadHalf<'_, Self>, b: V) -> BufResult<usize, V>;
    async fn h_read_exact<B: IoBufMut>(h: &mut ReadHalf<'_, Self>, b: B) -> BufResult<(), B>;
    async fn h_read_vec_exact<V: IoVectoredBufMut>(h: &mut ReadHalf<'_, Self>, b: V) -> BufResult<(), V>;
    async fn c_managed(&self, len: usize) -> io::Result<Option<BufferRef>>;
    fn c_multi<'a>(r: &'a mut &'a Self, len: usize) -> impl Stream<Item = io::Result<BufferRef>>;
    async fn c_anc<B: IoBufMut, C: IoBufMut>(&self, b: B, c: C) -> BufResult<(usize, usize, ReturnFlags), (B, C)>;
    async fn c_anc_vec<V: IoVectoredBufMut, C: IoBufMut>(
        &self,
        b: V,
        c: C,
    ) -> BufResult<(usize, usize, ReturnFlags), (V, C)>;
    async fn c_anc_managed<C: IoBufMut>(&self, len: usize, c: C)
    -> io::Result<Option<(BufferRef, C, ReturnFlags)>>;
    fn c_anc_multi<'a>(r: &'a mut &'a Self, clen: usize) -> impl Stream<Item = io::Result<RecvMsgMultiResult>>;

    async fn c_write<B: IoBuf>(&self, b: B) -> BufResult<usize, B>;
    async fn c_write_vec<V: IoVectoredBuf>(&self, b: V) -> BufResult<usize, V>;
    async fn c_write_all<B: IoBuf>(&self, b: B) -> BufResult<(), B>;
    async fn c_write_vec_all<V: IoVectoredBuf>(&self, b: V) -> BufResult<(), V>;
    async fn h_write<B: IoBuf>(h: &mut WriteHalf<'_, Self>, b: B) -> BufResult<usize, B>;
    async fn h_write_vec<V: IoVectoredBuf>(h: &mut WriteHalf<'_, Self>, b: V) -> BufResult<usize, V>;
    async fn h_write_all<B: IoBuf>(h: &mut WriteHalf<'_, Self>, b: B) -> BufResult<(), B>;
    async fn h_write_vec_all<V: IoVectoredBuf>(h: &mut WriteHalf<'_, Self>, b: V) -> BufResult<(), V>;
    async fn c_zc<B: IoBuf + 'static>(&self, b: B) -> BufResult<usize, ZcFut<B>>;
    async fn c_zc_vec<V: IoVectoredBuf + 'static>(&self, b: V) -> BufResult<usize, ZcFut<V>>;
    async fn c_msg<B: IoBuf, C: IoBuf>(&self, b: B, c: C) -> BufResult<usize, (B, C)>;
    async fn c_msg_vec<V: IoVectoredBuf, C: IoBuf>(&self, b: V, c: C) -> BufResult<usize, (V, C)>;
    async fn c_msg_zc<B: IoBuf + 'static, C: IoBuf + 'static>(&self, b: B, c: C) -> BufResult<usize, ZcFut<(B, C)>>;
    async fn c_msg_zc_vec<V: IoVectoredBuf + 'static, C: IoBuf + 'static>(
        &self,
        b: V,
        c: C,
    ) -> BufResult<usize, ZcFut<(V, C)>>;
    async fn c_shutdown(&self) -> io::Result<()>;
    async fn h_shutdown(h: &mut WriteHalf<'_, Self>) -> io::Result<()>;
}

macro_rules! impl_conn_io {
    () => {
        fn split_b(&self) -> (ReadHalf<'_, Self>, WriteHalf<'_, Self>) {
            self.split()
        }

        fn split_o(self) -> (Self, Self) {
            self.into_split()
        }

        async fn c_read<B: IoBufMut>(&self, b: B) -> BufResult<usize, B> {
            let mut r = self;
            AsyncRead::read(&mut r, b).await
        }

        async fn c_read_vec<V: IoVectoredBufMut>(&self, b: V) -> BufResult<usize, V> {
            let mut r = self;
            AsyncRead::read_vectored(&mut r, b).await
        }

        async fn c_read_exact<B: IoBufMut>(&self, b: B) -> BufResult<(), B> {
            let mut r = self;
            AsyncReadExt::read_exact(&mut r, b).await
        }

        async fn c_read_vec_exact<V: IoVectoredBufMut>(&self, b: V) -> BufResult<(), V> {
            let mut r = self;
            AsyncReadExt::read_vectored_exact(&mut r, b).await
        }

        async fn h_read<B: IoBufMut>(h: &mut ReadHalf<'_, Self>, b: B) -> BufResult<usize, B> {
            h.read(b).await
        }

        async fn h_read_vec<V: IoVectoredBufMut>(h: &mut ReadHalf<'_, Self>, b: V) -> BufResult<usize, V> {
            h.read_vectored(b).await
        }

        async fn h_read_exact<B: IoBufMut>(h: &mut ReadHalf<'_, Self>, b: B) -> BufResult<(), B> {
            h.read_exact(b).await
        }

        async fn h_read_vec_exact<V: IoVectoredBufMut>(h: &mut ReadHalf<'_, Self>, b: V) -> BufResult<(), V> {
            h.read_vectored_exact(b).await
        }

        async fn c_managed(&self, len: usize) -> io::Result<Option<BufferRef>> {
            let mut r = self;
            AsyncReadManaged::read_managed(&mut r, len).await
        }

        fn c_multi<'a>(r: &'a mut &'a Self, len: usize) -> impl Stream<Item = io::Result<BufferRef>> {
            AsyncReadMulti::read_multi(r, len)
        }

        async fn c_anc<B: IoBufMut, C: IoBufMut>(
            &self,
            b: B,
            c: C,
        ) -> BufResult<(usize, usize, ReturnFlags), (B, C)> {
            let mut r = self;
            AsyncReadAncillary::read_with_ancillary(&mut r, b, c).await
        }

        async fn c_anc_vec<V: IoVectoredBufMut, C: IoBufMut>(
            &self,
            b: V,
            c: C,
        ) -> BufResult<(usize, usize, ReturnFlags), (V, C)> {
            let mut r = self;
            AsyncReadAncillary::read_vectored_with_ancillary(&mut r, b, c).await
        }

        async fn c_anc_managed<C: IoBufMut>(
            &self,
            len: usize,
            c: C,
        ) -> io::Result<Option<(BufferRef, C, ReturnFlags)>> {
            let mut r = self;
            AsyncReadAncillaryManaged::read_managed_with_ancillary(&mut r, len, c).await
        }

        fn c_anc_multi<'a>(r: &'a mut &'a Self, clen: usize) -> impl Stream<Item = io::Result<RecvMsgMultiResult>> {
            AsyncReadAncillaryMulti::read_multi_with_ancillary(r, clen)
        }

        async fn c_write<B: IoBuf>(&self, b: B) -> BufResult<usize, B> {
            let mut r = self;
            AsyncWrite::write(&mut r, b).await
        }

        async fn c_write_vec<V: IoVectoredBuf>(&self, b: V) -> BufResult<usize, V> {
            let mut r = self;
            AsyncWrite::write_vectored(&mut r, b).await
        }

        async fn c_write_all<B: IoBuf>(&self, b: B) -> BufResult<(), B> {
            let mut r = self;
            AsyncWriteExt::write_all(&mut r, b).await
        }

        async fn c_write_vec_all<V: IoVectoredBuf>(&self, b: V) -> BufResult<(), V> {
            let mut r = self;
            AsyncWriteExt::write_vectored_all(&mut r, b).await
        }

        async fn h_write<B: IoBuf>(h: &mut WriteHalf<'_, Self>, b: B) -> BufResult<usize, B> {
            h.write(b).await
        }

        async fn h_write_vec<V: IoVectoredBuf>(h: &mut WriteHalf<'_, Self>, b: V) -> BufResult<usize, V> {
            h.write_vectored(b).await
        }

        async fn h_write_all<B: IoBuf>(h: &mut WriteHalf<'_, Self>, b: B) -> BufResult<(), B> {
            h.write_all(b).await
        }

        async fn h_write_vec_all<V: IoVectoredBuf>(h: &mut WriteHalf<'_, Self>, b: V) -> BufResult<(), V> {
            h.write_vectored_all(b).await
        }

        async fn c_zc<B: IoBuf + 'static>(&self, b: B) -> BufResult<usize, ZcFut<B>> {
            let mut r = self;
            let BufResult(res, fut) = AsyncWriteZerocopy::write_zerocopy(&mut r, b).await;
            BufResult(res, Box::pin(fut))
        }

        async fn c_zc_vec<V: IoVectoredBuf + 'static>(&self, b: V) -> BufResult<usize, ZcFut<V>> {
            let mut r = self;
            let BufResult(res, fut) = AsyncWriteZerocopy::write_zerocopy_vectored(&mut r, b).await;
            BufResult(res, Box::pin(fut))
        }

        async fn c_msg<B: IoBuf, C: IoBuf>(&self, b: B, c: C) -> BufResult<usize, (B, C)> {
            let mut r = self;
            AsyncWriteAncillary::write_with_ancillary(&mut r, b, c).await
        }

        async fn c_msg_vec<V: IoVectoredBuf, C: IoBuf>(&self, b: V, c: C) -> BufResult<usize, (V, C)> {
            let mut r = self;
            AsyncWriteAncillary::write_vectored_with_ancillary(&mut r, b, c).await
        }

        async fn c_msg_zc<B: IoBuf + 'static, C: IoBuf + 'static>(
            &self,
            b: B,
            c: C,
        ) -> BufResult<usize, ZcFut<(B, C)>> {
            let mut r = self;
            let BufResult(res, fut) = AsyncWriteAncillaryZerocopy::write_zerocopy_with_ancillary(&mut r, b, c).await;
            BufResult(res, Box::pin(fut))
        }

        async fn c_msg_zc_vec<V: IoVectoredBuf + 'static, C: IoBuf + 'static>(
            &self,
            b: V,
            c: C,
        ) -> BufResult<usize, ZcFut<(V, C)>> {
            let mut r = self;
            let BufResult(res, fut) =
                AsyncWriteAncillaryZerocopy::write_zerocopy_vectored_with_ancillary(&mut r, b, c).await;
            BufResult(res, Box::pin(fut))
        }

        async fn c_shutdown(&self) -> io::Result<()> {
            let mut r = self;
            AsyncWrite::shutdown(&mut r).await
        }

        async fn h_shutdown(h: &mut WriteHalf<'_, Self>) -> io::Result<()> {
            h.shutdown().await
        }
    };
}

fn unique_name() -> String {
    use std::sync::atomic::AtomicU64;
    static N: AtomicU64 = AtomicU64::new(0);
    format!("\0c14-{}-{}", std::process::id(), N.fetch_add(1, Ordering::Relaxed))
}

pub fn abstract_addr() -> io::Result<socket2::SockAddr> {
    use std::os::unix::ffi::OsStrExt;
    let n = unique_name();
    socket2::SockAddr::unix(std::ffi::OsStr::from_bytes(n.as_bytes()))
}

pub fn loop_addr(v6: bool) -> std::net::SocketAddr {
    if v6 { "[::1]:0".parse().unwrap() } else { "127.0.0.1:0".parse().unwrap() }
}

impl Conn for TcpStream {
    const TR: Tr = Tr::Tcp;

    impl_conn_io!();

    async fn pair_compio(v6: bool) -> io::Result<(Self, Self)> {
        let l = TcpListener::bind(loop_addr(v6)).await?;
        let a = l.local_addr()?;
        let c = compio_runtime::spawn(async move { TcpStream::connect(a).await });
        let (s, _) = l.accept().await?;
        let c = c.await.resume_unwind().expect("not cancelled")?;
        Ok((c, s))
    }

    fn pair_std(v6: bool) -> io::Result<(StdSock, StdSock)> {
        let l = std::net::TcpListener::bind(loop_addr(v6))?;
        let c = std::net::TcpStream::connect(l.local_addr()?)?;
        let (s, _) = l.accept()?;
        Ok((StdSock::Tcp(c), StdSock::Tcp(s)))
    }

    fn from_std_sock(s: StdSock) -> io::Result<Self> {
        match s {
            StdSock::Tcp(s) => TcpStream::from_std(s),
            _ => unreachable!(),
        }
    }
}

impl Conn for UnixStream {
    const TR: Tr = Tr::Unix;

    impl_conn_io!();

    async fn pair_compio(_v6: bool) -> io::Result<(Self, Self)> {
        let addr = abstract_addr()?;
        let l = UnixListener::bind_addr(&addr).await?;
        let c = compio_runtime::spawn(async move { UnixStream::connect_addr(&addr).await });
        let (s, _) = l.accept().await?;
        let c = c.await.resume_unwind().expect("not cancelled")?;
        Ok((c, s))
    }

    fn pair_std(_v6: bool) -> io::Result<(StdSock, StdSock)> {
        let (a, b) = std::os::unix::net::UnixStream::pair()?;
        Ok((StdSock::Unix(a), StdSock::Unix(b)))
    }

    fn from_std_sock(s: StdSock) -> io::Result<Self> {
        match s {
            StdSock::Unix(s) => UnixStream::from_std(s),
            _ => unreachable!(),
        }
    }
}

include!("c14_stream_run.rs");
