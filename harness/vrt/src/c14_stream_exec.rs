// (included) — endpoints, std peer thread, program execution and generation.

type Role = Option<(Rc<DirState>, Dir)>;

async fn endpoint<T: Conn>(ctx: Rc<Ctx>, conn: T, via: Via, send: Role, recv: Role, pool_len: usize) {
    if via != Via::Direct {
        ctx.floor("stream-split-halves");
    }
    match via {
        Via::Direct => {
            let s = async {
                if let Some((ds, plan)) = &send {
                    sender(&ctx, ds, plan, &conn, None).await;
                }
            };
            let r = async {
                if let Some((ds, plan)) = &recv {
                    receiver(&ctx, ds, plan, &conn, None, pool_len).await;
                }
            };
            futures_util::future::join(s, r).await;
        }
        Via::Borrowed => {
            let (mut rh, mut wh) = conn.split_b();
            let s = async {
                if let Some((ds, plan)) = &send {
                    sender(&ctx, ds, plan, &conn, Some(&mut wh)).await;
                }
            };
            let r = async {
                if let Some((ds, plan)) = &recv {
                    receiver(&ctx, ds, plan, &conn, Some(&mut rh), pool_len).await;
                }
            };
            futures_util::future::join(s, r).await;
        }
        Via::Owned => {
            let (r, w) = conn.split_o();
            let c1 = ctx.clone();
            let st = compio_runtime::spawn(async move {
                if let Some((ds, plan)) = &send {
                    sender(&c1, ds, plan, &w, None).await;
                }
            });
            let c2 = ctx.clone();
            let rt = compio_runtime::spawn(async move {
                if let Some((ds, plan)) = &recv {
                    receiver(&c2, ds, plan, &r, None, pool_len).await;
                }
            });
            st.await.resume_unwind();
            rt.await.resume_unwind();
        }
    }
}

#[derive(Default)]
struct PeerReport {
    /// (rule, explanation, offset) of something the std receiver observed
    problem: Option<(&'static str, String, usize)>,
    /// the peer itself could not do its job
    trouble: Option<String>,
}

fn spawn_peer(
    mut sock: StdSock,
    plan: Dir,
    sends: bool,
    chunk: usize,
    off: Arc<AtomicUsize>,
    done: Arc<AtomicBool>,
) -> std::thread::JoinHandle<PeerReport> {
    std::thread::spawn(move || {
        let mut rep = PeerReport::default();
        sock.set_timeouts(Duration::from_secs(20));
        let mut o = 0usize;
        if sends {
            while o < plan.total {
                let n = chunk.clamp(1, plan.total - o);
                let data = pat_vec(plan.salt, o, n);
                if let Err(e) = sock.write_all(&data) {
                    rep.trouble = Some(format!("peer write failed at {o}: {e}"));
                    done.store(true, Ordering::SeqCst);
                    return rep;
                }
                o += n;
                off.store(o, Ordering::SeqCst);
            }
            if plan.shutdown {
                let _ = sock.shutdown_write();
            }
            done.store(true, Ordering::SeqCst);
            // keep the connection until the compio side goes away
            let _ = sock.read(&mut [0u8; 1]);
        } else {
            let mut buf = vec![0u8; chunk.max(1)];
            loop {
                if o == plan.total && !plan.shutdown {
                    break;
                }
                match sock.read(&mut buf) {
                    Ok(0) => {
                        if o < plan.total {
                            rep.problem = Some(("early-eof", format!("std peer saw end-of-stream at offset {o} of {}", plan.total), o));
                        }
                        break;
                    }
                    Ok(n) => {
                        let lim = n.min(plan.total - o);
                        if let Some(j) = (0..lim).find(|&j| buf[j] != pat(plan.salt, (o + j) as u64)) {
                            let (rule, how) = classify(plan.salt, plan.total, o + j, &buf[j..n]);
                            rep.problem = Some((rule, format!("std peer: mismatch at stream offset {}: {how}", o + j), o + j));
                            break;
                        }
                        if n > plan.total - o {
                            rep.problem = Some(("extra-bytes", format!("std peer received {} bytes beyond the {} sent", n - (plan.total - o), plan.total), plan.total));
                            break;
                        }
                        o += n;
                        off.store(o, Ordering::SeqCst);
                    }
                    Err(e) => {
                        rep.trouble = Some(format!("peer read failed at {o}: {e}"));
                        break;
                    }
                }
            }
            done.store(true, Ordering::SeqCst);
        }
        rep
    })
}

fn setopt(fd: RawFd, level: i32, name: i32, val: i32) {
    unsafe {
        libc::setsockopt(fd, level, name, &val as *const i32 as *const _, 4);
    }
}

fn tune(fd: RawFd, p: &StreamProg) {
    if p.sndbuf > 0 {
        setopt(fd, libc::SOL_SOCKET, libc::SO_SNDBUF, p.sndbuf as i32);
    }
    if p.rcvbuf > 0 {
        setopt(fd, libc::SOL_SOCKET, libc::SO_RCVBUF, p.rcvbuf as i32);
    }
    if p.nodelay && p.transport == Tr::Tcp {
        setopt(fd, libc::IPPROTO_TCP, libc::TCP_NODELAY, 1);
    }
}

fn stall_dir(ds: &DirState) -> Option<Stall> {
    let sender_finished = if ds.s_compio { ds.sender_done.get() } else { ds.peer_done.load(Ordering::SeqCst) };
    if ds.r_compio && !ds.recv_done.get() {
        let rk = ds.in_recv.get().map(|k| k.name()).unwrap_or("idle");
        let ev = poll_fd(ds.rfd.get(), libc::POLLIN | POLLRDHUP);
        if ev & (libc::POLLIN | POLLRDHUP | libc::POLLHUP | libc::POLLERR) != 0 && ds.in_recv.get().is_some() {
            return Some(Stall::Violation(Fail {
                // on the polling driver every receive API is hit alike (the readiness registration
                // is armed and ready in the kernel, the driver never hands it out): one class
                sig: if ds.tag.ends_with("/poll") { format!("C14/stream/stall-readable/{}", ds.tag) } else { format!("C14/stream/stall-readable/{}/r={rk}", ds.tag) },
                what: format!(
                    "direction {}: receiver (fd {}) blocked in {rk} at offset {} of {} made no progress over the idle bound although poll() reports the socket readable (revents {ev:#x}); sender accepted {}, done={}",
                    ds.name, ds.rfd.get(), ds.recvd.get(), ds.total, ds.sent.get(), sender_finished
                ),
            }));
        }
        // Bytes the sender's kernel socket has accepted but not yet delivered (closed
        // window, persist timer) are in flight, not lost: only an empty send queue counts.
        if ev == 0 && sender_finished && ds.in_recv.get().is_some() && outq(ds.sdup.get()) == 0 {
            if ds.recvd.get() < ds.total {
                return Some(Stall::Violation(Fail {
                    sig: format!("C14/stream/lost-drained/{}/r={rk}", ds.tag),
                    what: format!(
                        "direction {}: all {} bytes were accepted from the sender, the receiver has {} and the socket holds nothing more: bytes vanished",
                        ds.name, ds.total, ds.recvd.get()
                    ),
                }));
            }
            if ds.shutdown && (ds.shutdown_done.get() || !ds.s_compio) {
                return Some(Stall::Violation(Fail {
                    sig: format!("C14/stream/no-eof-after-shutdown/{}/r={rk}", ds.tag),
                    what: format!(
                        "direction {}: sender shut down after {} bytes, receiver has them all but neither sees end-of-stream nor does the kernel report a hang-up",
                        ds.name, ds.total
                    ),
                }));
            }
        }
    }
    if ds.s_compio && !ds.sender_done.get() && ds.in_notify.get() {
        // Waiting for the kernel to release a zero-copy buffer: legitimate while
        // the bytes are unacknowledged, a hang once the send queue is empty.
        if outq(ds.sdup.get()) == 0 {
            let sk = ds.in_send.get().map(|k| k.name()).unwrap_or("zc_defer");
            return Some(Stall::Violation(Fail {
                sig: format!("C14/stream/stall-zc-buffer/{}/s={sk}", ds.tag),
                what: format!(
                    "direction {}: the zero-copy buffer future of {sk} does not resolve although the kernel send queue is empty (all {} accepted bytes acknowledged)",
                    ds.name, ds.sent.get()
                ),
            }));
        }
    } else if ds.s_compio && !ds.sender_done.get() && ds.in_send.get().is_some() {
        let sk = ds.in_send.get().map(|k| k.name()).unwrap_or("idle");
        let ev = poll_fd(ds.sfd.get(), libc::POLLOUT);
        if ev & libc::POLLOUT != 0 {
            return Some(Stall::Violation(Fail {
                sig: format!("C14/stream/stall-writable/{}/s={sk}", ds.tag),
                what: format!(
                    "direction {}: sender blocked in {sk} at offset {} of {} made no progress over the idle bound although poll() reports the socket writable; receiver has {}",
                    ds.name, ds.sent.get(), ds.total, ds.recvd.get()
                ),
            }));
        }
    }
    None
}

pub fn run(p: &StreamProg, lim: &Limits) -> Outcome {
    match p.transport {
        Tr::Tcp => run_t::<TcpStream>(p, lim),
        Tr::Unix => run_t::<UnixStream>(p, lim),
    }
}

fn run_t<T: Conn>(p: &StreamProg, lim: &Limits) -> Outcome {
    let ctx = Rc::new(Ctx::default());
    let tag = format!("{}/{}", p.transport.name(), p.driver.name());
    let thread = p.conn == ConnMode::Thread;
    let fwd = DirState::new(&tag, "fwd", &p.fwd, !(thread && p.peer_sends), !(thread && !p.peer_sends));
    let rev = if thread { None } else { p.rev.as_ref().map(|d| DirState::new(&tag, "rev", d, true, true)) };
    let finish = |ctx: &Rc<Ctx>| {
        let kinds = ctx.kinds.borrow();
        let s: Vec<&str> = kinds.iter().copied().filter(|k| SK::parse(k).is_some()).collect();
        let r: Vec<&str> = kinds.iter().copied().filter(|k| RK::parse(k).is_some()).collect();
        let partial = fwd.partial.get() || rev.as_ref().is_some_and(|d| d.partial.get());
        Outcome {
            sig: format!(
                "stream/{tag}/{}/s={}/r={}/{}",
                p.conn.name(),
                if s.is_empty() { "std".to_string() } else { s.join("+") },
                if r.is_empty() { "std".to_string() } else { r.join("+") },
                if partial { "partial" } else { "whole" }
            ),
            ctx: ctx.clone(),
        }
    };
    let rt = match build_rt(&RtCfg { drv: p.driver, pool_len: p.pool_len, pool_size: p.pool_size as u16 }) {
        Ok(rt) => rt,
        Err(e) => {
            ctx.give_up(format!("runtime build failed: {e}"));
            return finish(&ctx);
        }
    };
    // std-made pairs are connected before the runtime runs
    let mut std_pair = None;
    if p.conn != ConnMode::Compio {
        match T::pair_std(p.v6) {
            Ok((a, b)) => {
                tune(a.fd(), p);
                tune(b.fd(), p);
                std_pair = Some((a, b));
            }
            Err(e) => {
                ctx.give_up(format!("setup: std pair: {e}"));
                return finish(&ctx);
            }
        }
    }
    let mut peer = None;
    let mut compio_std = None;
    if let Some((a, b)) = std_pair {
        if thread {
            ctx.floor("stream-thread-peer");
            if p.peer_sends {
                fwd.sdup.set(unsafe { libc::dup(b.fd()) });
            }
            peer = Some(spawn_peer(b, p.fwd.clone(), p.peer_sends, p.peer_chunk, fwd.peer_off.clone(), fwd.peer_done.clone()));
            compio_std = Some((a, None));
        } else {
            compio_std = Some((a, Some(b)));
        }
    }

    let main = {
        let ctx = ctx.clone();
        let fwd = fwd.clone();
        let rev = rev.clone();
        let p = p.clone();
        async move {
            let made: io::Result<(T, Option<T>)> = async {
                match compio_std {
                    None => {
                        let (c, s) = T::pair_compio(p.v6).await?;
                        tune(c.as_raw_fd(), &p);
                        tune(s.as_raw_fd(), &p);
                        Ok((c, Some(s)))
                    }
                    Some((a, b)) => {
                        let c = T::from_std_sock(a)?;
                        let s = match b {
                            Some(b) => Some(T::from_std_sock(b)?),
                            None => None,
                        };
                        Ok((c, s))
                    }
                }
            }
            .await;
            let (client, server) = match made {
                Ok(x) => x,
                Err(e) => {
                    ctx.give_up(format!("setup: {e}"));
                    return;
                }
            };
            let f = Some((fwd.clone(), p.fwd.clone()));
            let r = rev.as_ref().map(|d| (d.clone(), p.rev.clone().unwrap()));
            let mut tasks = Vec::new();
            match server {
                Some(server) => {
                    let (cs, cr, ss, sr) = if p.sender_is_client { (f.clone(), r.clone(), r, f) } else { (r.clone(), f.clone(), f, r) };
                    tasks.push(compio_runtime::spawn(endpoint(ctx.clone(), client, p.client_via, cs, cr, p.pool_len)));
                    tasks.push(compio_runtime::spawn(endpoint(ctx.clone(), server, p.server_via, ss, sr, p.pool_len)));
                }
                None => {
                    let (s, r) = if p.peer_sends { (None, f) } else { (f, None) };
                    tasks.push(compio_runtime::spawn(endpoint(ctx.clone(), client, p.client_via, s, r, p.pool_len)));
                }
            }
            for t in tasks {
                t.await.resume_unwind();
            }
        }
    };
    let ext = {
        let fwd = fwd.clone();
        move || fwd.peer_off.load(Ordering::SeqCst) as u64 * 2 + fwd.peer_done.load(Ordering::SeqCst) as u64
    };
    let stall = {
        let fwd = fwd.clone();
        let rev = rev.clone();
        move || {
            if let Some(s) = stall_dir(&fwd) {
                return s;
            }
            if let Some(s) = rev.as_ref().and_then(|d| stall_dir(d)) {
                return s;
            }
            Stall::KeepWaiting
        }
    };
    drive(&rt, &ctx, lim, &ext, &stall, main);
    drop(rt);
    if let Some(h) = peer {
        match h.join() {
            Ok(rep) => {
                if let Some((rule, what, off)) = rep.problem {
                    let sk = fwd.send_kind_at(off);
                    ctx.fail(format!("C14/stream/{rule}/{tag}/s={sk}/r=std"), format!("{what} (that range was sent by {sk})"));
                } else if let Some(t) = rep.trouble {
                    if !ctx.stopped() {
                        ctx.give_up(format!("std peer: {t}"));
                    }
                }
            }
            Err(_) => ctx.give_up("std peer thread panicked".into()),
        }
    }
    ctx.count("stream_programs", 1);
    ctx.count("stream_bytes", (fwd.recvd.get() + rev.as_ref().map_or(0, |d| d.recvd.get()) + fwd.peer_off.load(Ordering::SeqCst)) as i64);
    finish(&ctx)
}

// ---------------------------------------------------------------- generation

fn gen_dir(r: &mut Rng, g: &GenCfg, p_pool_len: usize, p_pool_size: usize, sndbuf: usize, small_only: bool) -> Dir {
    let total = match r.below(if small_only { 8 } else { 10 }) {
        0..=3 => r.range(1, 2048),
        4..=7 => r.range(2048, 65536),
        _ => r.range(65536, 262144 * g.scale),
    };
    let mut sk: Vec<SK> = SK::ALL.to_vec();
    r.shuffle(&mut sk);
    sk.truncate(r.range(1, 4));
    let mut rk: Vec<RK> = RK::ALL
        .iter()
        .copied()
        .filter(|k| *k != RK::AncMulti || (p_pool_len >= 512 && p_pool_size >= 2))
        .collect();
    r.shuffle(&mut rk);
    rk.truncate(r.range(1, 4));
    let min_cap = total / 1500 + 1;
    let big = if sndbuf > 0 { sndbuf * 3 } else { 400_000 };
    let sends = (0..r.range(1, 6))
        .map(|_| SendOp {
            kind: *r.pick(&sk),
            len: match r.below(8) {
                0 => r.range(1, 16),
                1..=3 => r.range(1, 1500),
                4..=5 => r.range(1500, 20_000),
                _ => r.range(20_000.min(big), big.max(20_000)),
            }
            .max(min_cap),
            shape: r.below(20),
            cuts: (0..r.below(4)).map(|_| r.below(65536) as u16).collect(),
            ctl: r.below(3),
            pause: *r.pick(&[0, 0, 0, 1, 3]),
        })
        .collect();
    let recvs = (0..r.range(1, 6))
        .map(|_| RecvOp {
            kind: *r.pick(&rk),
            cap: match r.below(8) {
                0 => r.range(1, 8),
                1..=3 => r.range(1, 1500),
                4..=5 => r.range(1500, 20_000),
                _ => r.range(20_000, 200_000),
            }
            .max(min_cap),
            shape: r.below(12),
            cuts: (0..r.below(4)).map(|_| r.below(65536) as u16).collect(),
            take: r.range(1, 4),
            pause: *r.pick(&[0, 0, 0, 1, 3]),
        })
        .collect();
    Dir {
        total,
        salt: r.next_u64() | 1,
        sends,
        recvs,
        shutdown: r.chance(6, 7),
        recv_delay: *r.pick(&[0, 0, 0, 3, 20, 100]),
    }
}

pub fn generate(r: &mut Rng, g: &GenCfg) -> StreamProg {
    let transport = if r.chance(1, 2) { Tr::Tcp } else { Tr::Unix };
    let conn = match r.below(4) {
        0..=1 => ConnMode::Compio,
        2 => ConnMode::FromStd,
        _ => ConnMode::Thread,
    };
    let sndbuf = *r.pick(&[0usize, 0, 4608, 16384, 65536]);
    let rcvbuf = *r.pick(&[0usize, 0, 2304, 8192, 65536]);
    let pool_len = *r.pick(&[64usize, 256, 1024, 4096, 8192]);
    let pool_size = *r.pick(&[1usize, 2, 4, 8, 16]);
    let fwd = gen_dir(r, g, pool_len, pool_size, sndbuf, false);
    // a tiny receive buffer makes TCP crawl on persist timers: keep it for short streams
    let rcvbuf = if fwd.total > 16384 && rcvbuf > 0 && rcvbuf < 65536 { 0 } else { rcvbuf };
    let rev = if conn != ConnMode::Thread && r.chance(3, 10) { Some(gen_dir(r, g, pool_len, pool_size, sndbuf, true)) } else { None };
    // two receivers share the pool in bidirectional programs and the polling
    // driver takes buffers when an operation is created
    let pool_size = if rev.is_some() { pool_size.max(8) } else { pool_size };
    let vias = [Via::Direct, Via::Borrowed, Via::Owned];
    let peer_chunk = if fwd.total <= 4096 { *r.pick(&[1usize, 7, 512, 4096]) } else { *r.pick(&[97usize, 4096, 65536]) };
    StreamProg {
        transport,
        driver: g.drv,
        v6: g.v6 && r.chance(1, 3),
        conn,
        sender_is_client: r.chance(1, 2),
        client_via: *r.pick(&vias),
        server_via: *r.pick(&vias),
        peer_sends: r.chance(1, 2),
        peer_chunk,
        sndbuf,
        rcvbuf,
        pool_len,
        pool_size,
        nodelay: r.chance(1, 2),
        fwd,
        rev,
    }
}
