// (included) — receiving side of stream programs.

struct Got {
    data: Vec<u8>,
    eof: bool,
}

/// Control buffers carry the tail pattern too: what the kernel wrote must be
/// covered by the reported control length. Closes received descriptors.
fn check_ctl(ctx: &Ctx, c: &Vec<u8>, clen: usize) -> Result<(), RFail> {
    let cap = c.capacity();
    let dmg = tail_damage(c, clen.min(cap));
    let scan = if dmg.is_some() { raw(c) } else { &raw(c)[..clen.min(cap)] };
    ctx.count("anc_fds_received", consume_control(scan) as i64);
    if clen > cap {
        return Err(("control-overlong", format!("control length {clen} reported for a {cap} byte control buffer")));
    }
    if let Some(i) = dmg {
        return Err((
            "control-len-lost",
            format!("the control buffer was written up to at least byte {i} but a control length of {clen} was reported"),
        ));
    }
    if c.len() != clen {
        return Err(("control-buf-len", format!("control buffer length is {} but control length {clen} was reported", c.len())));
    }
    Ok(())
}

fn managed_limit(len: usize, pool_len: usize) -> usize {
    if len == 0 { pool_len } else { len.min(pool_len) }
}

enum RecvErr {
    /// rule, explanation
    Fail(&'static str, String),
    Io(io::Error),
}

impl From<RFail> for RecvErr {
    fn from(f: RFail) -> Self {
        RecvErr::Fail(f.0, f.1)
    }
}

fn busy(e: &io::Error) -> bool {
    e.kind() == io::ErrorKind::ResourceBusy || e.raw_os_error() == Some(libc::ENOBUFS)
}

/// One receive operation. `want` is the exact byte count for the exact kinds.
async fn recv_one<T: Conn>(
    ctx: &Ctx,
    conn: &T,
    half: Option<&mut ReadHalf<'_, T>>,
    kind: RK,
    op: &RecvOp,
    want: usize,
    remaining: usize,
    pool_len: usize,
) -> Result<Got, RecvErr> {
    let cap = op.cap.max(1);
    match kind {
        RK::Read => {
            let (r, v, a, pl, c) = match half {
                Some(h) => rbuf!(op.shape, cap, |b| T::h_read(h, b).await),
                None => rbuf!(op.shape, cap, |b| conn.c_read(b).await),
            };
            let n = r.map_err(RecvErr::Io)?;
            let data = check_single(n, &v, a, pl, c)?;
            Ok(Got { eof: n == 0, data })
        }
        RK::ReadExact => {
            // capacity must be exactly `want`: the bounded slice shape guarantees it
            let shape = if op.shape % 4 == 2 || qvec(want, 0).capacity() != want { 2 } else { op.shape & !3 };
            let (r, v, a, pl, c) = match half {
                Some(h) => rbuf!(shape, want, |b| T::h_read_exact(h, b).await),
                None => rbuf!(shape, want, |b| conn.c_read_exact(b).await),
            };
            r.map_err(RecvErr::Io)?;
            let data = check_single(want, &v, a, pl, c)?;
            Ok(Got { eof: false, data })
        }
        RK::ReadVec => {
            let id = |n: usize, _tot: usize| (n, ());
            let r = match half {
                Some(h) => rvec!(op.shape, cap, &op.cuts, id, |b| T::h_read_vec(h, b).await),
                None => rvec!(op.shape, cap, &op.cuts, id, |b| conn.c_read_vec(b).await),
            };
            let (data, _) = r.map_err(RecvErr::Io)?;
            let data = data?;
            Ok(Got { eof: data.is_empty(), data })
        }
        RK::ReadVecExact => {
            let full = |_: (), tot: usize| (tot, ());
            let r = match half {
                Some(h) => rvec!(op.shape, want, &op.cuts, full, |b| T::h_read_vec_exact(h, b).await),
                None => rvec!(op.shape, want, &op.cuts, full, |b| conn.c_read_vec_exact(b).await),
            };
            let (data, _) = r.map_err(RecvErr::Io)?;
            let data = data?;
            if data.len() != want {
                // allocator gave a larger capacity than asked: harness limitation, not a verdict
                ctx.give_up("read_vec_exact: capacity differs from request".into());
            }
            Ok(Got { eof: false, data })
        }
        RK::Managed => {
            let len = if op.shape % 3 == 0 { 0 } else { cap };
            let mut spins = 0;
            loop {
                match conn.c_managed(len).await {
                    Ok(None) => return Ok(Got { eof: true, data: Vec::new() }),
                    Ok(Some(b)) => {
                        let lim = managed_limit(len, pool_len);
                        if b.len() > lim {
                            return Err(RecvErr::Fail(
                                "managed-overlong",
                                format!("read_managed({len}) returned {} bytes, pool buffers have {pool_len}", b.len()),
                            ));
                        }
                        ctx.floor("stream-managed-recv");
                        return Ok(Got { eof: b.is_empty(), data: b.to_vec() });
                    }
                    Err(e) if busy(&e) && spins < 5000 => {
                        spins += 1;
                        ctx.count("recv_pool_busy", 1);
                        yields(ctx, 1).await;
                    }
                    Err(e) => return Err(RecvErr::Io(e)),
                }
            }
        }
        RK::AncManaged => {
            let len = if op.shape % 3 == 0 { 0 } else { cap };
            let mut spins = 0;
            loop {
                match conn.c_anc_managed(len, qvec(64, 0)).await {
                    Ok(None) => return Ok(Got { eof: true, data: Vec::new() }),
                    Ok(Some((b, c, _flags))) => {
                        let lim = managed_limit(len, pool_len);
                        if b.len() > lim {
                            return Err(RecvErr::Fail(
                                "managed-overlong",
                                format!("read_managed_with_ancillary({len}) returned {} bytes, pool buffers have {pool_len}", b.len()),
                            ));
                        }
                        // the managed variant reports the control length only through the buffer
                        if trace() {
                            eprintln!("anc_managed control len {} first bytes {:02x?}", c.len(), &raw(&c)[..24]);
                        }
                        check_ctl(ctx, &c, c.len())?;
                        ctx.floor("stream-managed-recv");
                        return Ok(Got { eof: b.is_empty(), data: b.to_vec() });
                    }
                    Err(e) if busy(&e) && spins < 5000 => {
                        spins += 1;
                        ctx.count("recv_pool_busy", 1);
                        yields(ctx, 1).await;
                    }
                    Err(e) => return Err(RecvErr::Io(e)),
                }
            }
        }
        RK::Anc => {
            let mut ctl = None;
            let (r, v, a, pl, c) = rbuf!(op.shape, cap, |b| {
                let BufResult(r, (b, c)) = conn.c_anc(b, qvec(64, 0)).await;
                ctl = Some(c);
                BufResult(r, b)
            });
            let ctl = ctl.unwrap();
            let (n, clen, _flags) = match r {
                Ok(x) => x,
                Err(e) => {
                    consume_control(raw(&ctl));
                    return Err(RecvErr::Io(e));
                }
            };
            check_ctl(ctx, &ctl, clen)?;
            let data = check_single(n, &v, a, pl, c)?;
            Ok(Got { eof: n == 0, data })
        }
        RK::AncVec => {
            let id = |x: (usize, usize, ReturnFlags), _tot: usize| (x.0, x.1);
            let mut ctl = None;
            let r = rvec!(op.shape, cap, &op.cuts, id, |b| {
                let BufResult(r, (b, c)) = conn.c_anc_vec(b, qvec(64, 0)).await;
                ctl = Some(c);
                BufResult(r, b)
            });
            let ctl = ctl.unwrap();
            let (data, clen) = match r {
                Ok(x) => x,
                Err(e) => {
                    consume_control(raw(&ctl));
                    return Err(RecvErr::Io(e));
                }
            };
            check_ctl(ctx, &ctl, clen)?;
            let data = data?;
            Ok(Got { eof: data.is_empty(), data })
        }
        RK::Multi => {
            let len = if op.shape % 3 == 0 { 0 } else { cap };
            let lim = managed_limit(len, pool_len);
            let ct = CancelToken::new();
            let mut r: &T = conn;
            let mut s = pin!(T::c_multi(&mut r, len).with_cancel(ct.clone()));
            let mut data = Vec::new();
            let mut items = 0usize;
            let mut cancelled = false;
            let mut spins = 0usize;
            let eof = loop {
                match s.next().await {
                    None => break !cancelled,
                    Some(Ok(b)) => {
                        if b.len() > lim {
                            return Err(RecvErr::Fail(
                                "managed-overlong",
                                format!("read_multi({len}) yielded {} bytes, pool buffers have {pool_len}", b.len()),
                            ));
                        }
                        if b.is_empty() {
                            break !cancelled;
                        }
                        data.extend_from_slice(&b);
                        drop(b);
                        items += 1;
                        ctx.tick();
                        ctx.floor("stream-multishot-recv");
                        // never wait for more than the sender will ever send
                        if !cancelled && (items >= op.take.max(1) || data.len() >= remaining.max(1)) {
                            cancelled = true;
                            ct.clone().cancel();
                        }
                    }
                    Some(Err(e)) if busy(&e) && spins < 5000 => {
                        spins += 1;
                        ctx.count("recv_pool_busy", 1);
                        yields(ctx, 1).await;
                    }
                    Some(Err(e)) if cancelled && is_cancelled(&e) => break false,
                    Some(Err(e)) => return Err(RecvErr::Io(e)),
                }
            };
            ctx.count("multishot_items", items as i64);
            Ok(Got { eof: eof && data.is_empty(), data })
        }
        RK::AncMulti => {
            let ct = CancelToken::new();
            let mut r: &T = conn;
            let mut s = pin!(T::c_anc_multi(&mut r, 64).with_cancel(ct.clone()));
            let mut data = Vec::new();
            let mut items = 0usize;
            let mut cancelled = false;
            let mut spins = 0usize;
            let eof = loop {
                match s.next().await {
                    None => break !cancelled,
                    Some(Ok(m)) => {
                        ctx.count("anc_fds_received", consume_control(m.ancillary()) as i64);
                        let d = m.data();
                        if d.len() > pool_len {
                            return Err(RecvErr::Fail(
                                "managed-overlong",
                                format!("read_multi_with_ancillary yielded {} bytes, pool buffers have {pool_len}", d.len()),
                            ));
                        }
                        if d.is_empty() {
                            // an item without payload is how end-of-stream shows up here
                            break true;
                        }
                        data.extend_from_slice(d);
                        drop(m);
                        items += 1;
                        ctx.tick();
                        ctx.floor("stream-multishot-recv");
                        // never wait for more than the sender will ever send
                        if !cancelled && (items >= op.take.max(1) || data.len() >= remaining.max(1)) {
                            cancelled = true;
                            ct.clone().cancel();
                        }
                    }
                    Some(Err(e)) if busy(&e) && spins < 5000 => {
                        spins += 1;
                        ctx.count("recv_pool_busy", 1);
                        yields(ctx, 1).await;
                    }
                    Some(Err(e)) if cancelled && is_cancelled(&e) => break false,
                    Some(Err(e)) => return Err(RecvErr::Io(e)),
                }
            };
            ctx.count("multishot_items", items as i64);
            Ok(Got { eof: eof && data.is_empty(), data })
        }
    }
}

/// Where did the unexpected bytes come from? Search the received window in
/// the expected stream.
fn classify(salt: u64, total: usize, at: usize, got: &[u8]) -> (&'static str, String) {
    let w = &got[..got.len().min(24)];
    if w.len() < 8 {
        return ("corrupt-bytes", format!("bytes {:02x?} do not match the pattern", w));
    }
    let hi = total + 64;
    let mut found = None;
    'outer: for p in 0..hi {
        for (i, b) in w.iter().enumerate() {
            if pat(salt, (p + i) as u64) != *b {
                continue 'outer;
            }
        }
        found = Some(p);
        break;
    }
    match found {
        Some(p) if p > at => ("lost-bytes", format!("the bytes received there are those of offset {p}: {} bytes were skipped", p - at)),
        Some(p) => ("dup-bytes", format!("the bytes received there are those of offset {p}: {} bytes were delivered again / out of order", at - p)),
        None => ("corrupt-bytes", format!("received {:02x?}.. which occurs nowhere in the sent stream", &w[..8])),
    }
}

fn non_exact(k: RK) -> RK {
    match k {
        RK::ReadExact => RK::Read,
        RK::ReadVecExact => RK::ReadVec,
        k => k,
    }
}

async fn receiver<T: Conn>(
    ctx: &Ctx,
    ds: &DirState,
    plan: &Dir,
    conn: &T,
    mut half: Option<&mut ReadHalf<'_, T>>,
    pool_len: usize,
) {
    ds.rfd.set(conn.as_raw_fd());
    yields(ctx, plan.recv_delay).await;
    let mut off = 0usize;
    let mut i = 0usize;
    let mut eofs = 0usize;
    let mut zero_runs = 0usize;
    while !ctx.stopped() {
        let remaining = plan.total - off;
        if remaining == 0 && !plan.shutdown {
            break;
        }
        let op = &plan.recvs[i % plan.recvs.len()];
        i += 1;
        let mut kind = op.kind;
        if remaining == 0 {
            kind = non_exact(kind);
        }
        let want = op.cap.clamp(1, remaining.max(1));
        ds.in_recv.set(Some(kind));
        ctx.kind(kind.name());
        let r = recv_one(ctx, conn, half.as_deref_mut(), kind, op, want, remaining, pool_len).await;
        ds.in_recv.set(None);
        ctx.tick();
        if trace() {
            match &r {
                Ok(g) => eprintln!("[{}] recv {} cap {} want {want} at {off} -> {} bytes eof={}", ds.name, kind.name(), op.cap, g.data.len(), g.eof),
                Err(RecvErr::Io(e)) => eprintln!("[{}] recv {} at {off} -> io error {e}", ds.name, kind.name()),
                Err(RecvErr::Fail(r, w)) => eprintln!("[{}] recv {} at {off} -> {r}: {w}", ds.name, kind.name()),
            }
        }
        let got = match r {
            Ok(g) => g,
            Err(RecvErr::Fail(rule, what)) => {
                ctx.fail(
                    format!("C14/stream/{rule}/{}/r={}", ds.tag, kind.name()),
                    format!("{} at stream offset {off}: {what}", kind.name()),
                );
                return;
            }
            Err(RecvErr::Io(e)) if busy(&e) => {
                // the pool stayed empty: other pending receives of this program hold its buffers
                ctx.give_up(format!("buffer pool exhausted during {}", kind.name()));
                return;
            }
            Err(RecvErr::Io(e)) => {
                ctx.fail(
                    format!("C14/stream/recv-error/{}/r={}/{}", ds.tag, kind.name(), errname(&e)),
                    format!("{} at stream offset {off} of {} on a healthy connection failed: {e}", kind.name(), plan.total),
                );
                return;
            }
        };
        // content
        let n = got.data.len();
        let lim = n.min(remaining);
        if let Some(j) = (0..lim).find(|&j| got.data[j] != pat(plan.salt, (off + j) as u64)) {
            let (rule, how) = classify(plan.salt, plan.total, off + j, &got.data[j..]);
            let sk = ds.send_kind_at(off + j);
            ctx.fail(
                format!("C14/stream/{rule}/{}/s={sk}/r={}", ds.tag, kind.name()),
                format!(
                    "direction {}: mismatch at stream offset {} (receive op {} got {n} bytes at offset {off}; that range was sent by {sk}): {how}",
                    ds.name,
                    off + j,
                    kind.name()
                ),
            );
            return;
        }
        if n > remaining {
            ctx.fail(
                format!("C14/stream/extra-bytes/{}/r={}", ds.tag, kind.name()),
                format!("{} delivered {} bytes beyond the {} bytes that were sent", kind.name(), n - remaining, plan.total),
            );
            return;
        }
        off += n;
        ds.recvd.set(off);
        if got.eof {
            if off < plan.total {
                ctx.fail(
                    format!("C14/stream/early-eof/{}/r={}", ds.tag, kind.name()),
                    format!(
                        "{} reported end-of-stream (no data) at offset {off}, sender has had {} of {} bytes accepted{}; kernel view of the receiving socket: {}",
                        kind.name(),
                        ds.sent.get(),
                        plan.total,
                        if ds.shutdown_done.get() { " and has shut down" } else { " and has not shut down" },
                        if poll_fd(conn.as_raw_fd(), POLLRDHUP) & POLLRDHUP != 0 { "peer hung up" } else { "no hang-up: bytes were consumed without being reported" }
                    ),
                );
                return;
            }
            eofs += 1;
            ctx.floor("stream-eof-after-last-byte");
            if eofs >= 2 {
                break;
            }
        } else if n == 0 {
            // a cancelled multishot may legitimately come back empty-handed
            zero_runs += 1;
            if zero_runs > 10_000 {
                ctx.give_up("receiver spins without data".into());
                return;
            }
        }
        yields(ctx, op.pause).await;
    }
    ds.recv_done.set(true);
    ctx.tick();
}

include!("c14_stream_exec.rs");
