// (included into c14_stream.rs) — execution of stream programs.

/// Observable state of one direction, shared by its sender, its receiver and
/// the stall analysis.
pub struct DirState {
    /// "tcp/iour"
    tag: String,
    name: &'static str,
    total: usize,
    salt: u64,
    shutdown: bool,
    sent: Cell<usize>,
    recvd: Cell<usize>,
    sender_done: Cell<bool>,
    shutdown_done: Cell<bool>,
    recv_done: Cell<bool>,
    sfd: Cell<RawFd>,
    /// dup of the sender's socket, kept until the program ends so that the
    /// kernel's send queue can still be inspected after the sender dropped
    /// its socket
    sdup: Cell<RawFd>,
    rfd: Cell<RawFd>,
    s_compio: bool,
    r_compio: bool,
    in_send: Cell<Option<SK>>,
    /// the sender waits for a zero-copy buffer future, not for the send itself
    in_notify: Cell<bool>,
    in_recv: Cell<Option<RK>>,
    /// (first offset, send kind) for every accepted range
    prov: RefCell<Vec<(usize, SK)>>,
    partial: Cell<bool>,
    peer_off: Arc<AtomicUsize>,
    peer_done: Arc<AtomicBool>,
}

impl Drop for DirState {
    fn drop(&mut self) {
        if self.sdup.get() >= 0 {
            unsafe { libc::close(self.sdup.get()) };
        }
    }
}

/// Bytes the kernel still holds in the send queue of `fd` (unsent or unacknowledged).
fn outq(fd: RawFd) -> i32 {
    let mut n: i32 = 0;
    if fd < 0 || unsafe { libc::ioctl(fd, libc::TIOCOUTQ, &mut n) } != 0 {
        return -1;
    }
    n
}

impl DirState {
    fn new(tag: &str, name: &'static str, d: &Dir, s_compio: bool, r_compio: bool) -> Rc<DirState> {
        Rc::new(DirState {
            tag: tag.to_string(),
            name,
            total: d.total,
            salt: d.salt,
            shutdown: d.shutdown,
            sent: Cell::new(0),
            recvd: Cell::new(0),
            sender_done: Cell::new(false),
            shutdown_done: Cell::new(false),
            recv_done: Cell::new(false),
            sfd: Cell::new(-1),
            sdup: Cell::new(-1),
            rfd: Cell::new(-1),
            s_compio,
            r_compio,
            in_send: Cell::new(None),
            in_notify: Cell::new(false),
            in_recv: Cell::new(None),
            prov: RefCell::new(Vec::new()),
            partial: Cell::new(false),
            peer_off: Arc::new(AtomicUsize::new(0)),
            peer_done: Arc::new(AtomicBool::new(false)),
        })
    }

    fn send_kind_at(&self, off: usize) -> &'static str {
        if !self.s_compio {
            return "std";
        }
        let p = self.prov.borrow();
        let i = p.partition_point(|(o, _)| *o <= off);
        if i == 0 { "none" } else { p[i - 1].1.name() }
    }
}

pub fn trace() -> bool {
    use std::sync::OnceLock;
    static T: OnceLock<bool> = OnceLock::new();
    *T.get_or_init(|| std::env::var_os("C14_TRACE").is_some())
}

// ------------------------------------------------------------ sending

fn devnull() -> RawFd {
    use std::sync::OnceLock;
    static FD: OnceLock<RawFd> = OnceLock::new();
    *FD.get_or_init(|| unsafe { libc::open(c"/dev/null".as_ptr(), libc::O_RDONLY | libc::O_CLOEXEC) })
}

/// (level, type, value) of the control message sent with msg kinds.
fn ctl_spec(tr: Tr) -> (i32, i32, i32) {
    match tr {
        Tr::Unix => (libc::SOL_SOCKET, libc::SCM_RIGHTS, devnull()),
        // TCP ignores control messages of other levels than SOL_SOCKET.
        Tr::Tcp => (libc::IPPROTO_IP, libc::IP_TOS, 0x10),
    }
}

fn raw_cmsg(level: i32, ty: i32, val: i32) -> Vec<u8> {
    let space = unsafe { libc::CMSG_SPACE(4) } as usize;
    let mut v = vec![0u8; space];
    let hdr = libc::cmsghdr {
        cmsg_len: unsafe { libc::CMSG_LEN(4) } as _,
        cmsg_level: level,
        cmsg_type: ty,
    };
    unsafe {
        std::ptr::copy_nonoverlapping(&hdr as *const _ as *const u8, v.as_mut_ptr(), size_of::<libc::cmsghdr>());
    }
    let off = unsafe { libc::CMSG_LEN(0) } as usize;
    v[off..off + 4].copy_from_slice(&val.to_ne_bytes());
    v
}

fn built_cmsg(level: i32, ty: i32, val: i32) -> AncillaryBuf<64> {
    let mut b = AncillaryBuf::<64>::new();
    b.builder().push(level, ty, &CInt(val)).expect("cmsg fits");
    b
}

/// Walk a control buffer, close every received SCM_RIGHTS descriptor.
/// Returns the number of descriptors.
pub fn consume_control(c: &[u8]) -> usize {
    let hl = unsafe { libc::CMSG_LEN(0) } as usize;
    let mut off = 0;
    let mut fds = 0;
    while off + size_of::<libc::cmsghdr>() <= c.len() {
        let hdr: libc::cmsghdr = unsafe { std::ptr::read_unaligned(c.as_ptr().add(off) as *const libc::cmsghdr) };
        let len = hdr.cmsg_len as usize;
        if len < hl || off + len > c.len() {
            break;
        }
        if hdr.cmsg_level == libc::SOL_SOCKET && hdr.cmsg_type == libc::SCM_RIGHTS {
            let mut p = off + hl;
            while p + 4 <= off + len {
                let fd = i32::from_ne_bytes([c[p], c[p + 1], c[p + 2], c[p + 3]]);
                if fd > 2 {
                    unsafe { libc::close(fd) };
                    fds += 1;
                }
                p += 4;
            }
        }
        let step = (len + size_of::<usize>() - 1) & !(size_of::<usize>() - 1);
        off += step.max(1);
    }
    fds
}

macro_rules! sctl {
    ($tr:expr, $v:expr, |$c:ident| $body:expr) => {{
        let (lv, ty, val) = ctl_spec($tr);
        match $v % 3 {
            0 => {
                let $c: Vec<u8> = Vec::new();
                $body
            }
            1 => {
                let $c = raw_cmsg(lv, ty, val);
                $body
            }
            _ => {
                let $c = built_cmsg(lv, ty, val);
                $body
            }
        }
    }};
}

struct Deferred {
    fut: ZcFut<Vec<u8>>,
    expect: Vec<u8>,
}

fn zc_check(ctx: &Ctx, ds: &DirState, kind: SK, back: &[u8], expect: &[u8]) {
    if back != expect {
        ctx.fail(
            format!("C14/stream/zc-buffer-changed/{}/{}", ds.tag, kind.name()),
            format!(
                "the buffer handed back by the zero-copy buffer future differs from the one submitted ({} vs {} bytes)",
                back.len(),
                expect.len()
            ),
        );
    }
}

async fn send_one<T: Conn>(
    ctx: &Ctx,
    ds: &DirState,
    conn: &T,
    half: Option<&mut WriteHalf<'_, T>>,
    op: &SendOp,
    data: Vec<u8>,
    deferred: &mut Vec<Deferred>,
) -> io::Result<usize> {
    let len = data.len();
    let shape = op.shape;
    match op.kind {
        SK::Write => match half {
            Some(h) => sbuf!(shape, data, |b| T::h_write(h, b).await.0),
            None => sbuf!(shape, data, |b| conn.c_write(b).await.0),
        },
        SK::WriteVec => match half {
            Some(h) => svec!(shape, data, &op.cuts, |b| T::h_write_vec(h, b).await.0),
            None => svec!(shape, data, &op.cuts, |b| conn.c_write_vec(b).await.0),
        },
        SK::WriteAll => match half {
            Some(h) => sbuf!(shape, data, |b| T::h_write_all(h, b).await.0.map(|_| len)),
            None => sbuf!(shape, data, |b| conn.c_write_all(b).await.0.map(|_| len)),
        },
        SK::WriteVecAll => match half {
            Some(h) => svec!(shape, data, &op.cuts, |b| T::h_write_vec_all(h, b).await.0.map(|_| len)),
            None => svec!(shape, data, &op.cuts, |b| conn.c_write_vec_all(b).await.0.map(|_| len)),
        },
        SK::Zc => {
            let expect = data.clone();
            sbuf!(shape, data, |b| {
                let BufResult(r, fut) = conn.c_zc(b).await;
                ds.in_notify.set(true);
                let back = fut.await;
                ds.in_notify.set(false);
                zc_check(ctx, ds, op.kind, back.as_init(), &expect);
                r
            })
        }
        SK::ZcVec => {
            let expect = data.clone();
            svec!(shape, data, &op.cuts, |b| {
                let BufResult(r, fut) = conn.c_zc_vec(b).await;
                ds.in_notify.set(true);
                let back = fut.await;
                ds.in_notify.set(false);
                zc_check(ctx, ds, op.kind, &flat(&back), &expect);
                r
            })
        }
        SK::ZcDefer => {
            let expect = data.clone();
            let BufResult(r, fut) = conn.c_zc(data).await;
            deferred.push(Deferred { fut, expect });
            r
        }
        SK::Msg => sbuf!(shape, data, |b| sctl!(T::TR, op.ctl, |c| conn.c_msg(b, c).await.0)),
        SK::MsgVec => svec!(shape, data, &op.cuts, |b| sctl!(T::TR, op.ctl, |c| conn.c_msg_vec(b, c).await.0)),
        SK::MsgZc => {
            let expect = data.clone();
            sbuf!(shape, data, |b| sctl!(T::TR, op.ctl, |c| {
                let BufResult(r, fut) = conn.c_msg_zc(b, c).await;
                ds.in_notify.set(true);
                let (back, _c) = fut.await;
                ds.in_notify.set(false);
                zc_check(ctx, ds, op.kind, back.as_init(), &expect);
                r
            }))
        }
        SK::MsgZcVec => {
            let expect = data.clone();
            svec!(shape, data, &op.cuts, |b| sctl!(T::TR, op.ctl, |c| {
                let BufResult(r, fut) = conn.c_msg_zc_vec(b, c).await;
                ds.in_notify.set(true);
                let (back, _c) = fut.await;
                ds.in_notify.set(false);
                zc_check(ctx, ds, op.kind, &flat(&back), &expect);
                r
            }))
        }
    }
}

async fn settle(ctx: &Ctx, ds: &DirState, deferred: &mut Vec<Deferred>) {
    for d in deferred.drain(..) {
        ds.in_notify.set(true);
        let back = d.fut.await;
        ds.in_notify.set(false);
        zc_check(ctx, ds, SK::ZcDefer, &back, &d.expect);
        ctx.tick();
    }
}

async fn sender<T: Conn>(ctx: &Ctx, ds: &DirState, plan: &Dir, conn: &T, mut half: Option<&mut WriteHalf<'_, T>>) {
    ds.sfd.set(conn.as_raw_fd());
    ds.sdup.set(unsafe { libc::dup(conn.as_raw_fd()) });
    let mut off = 0usize;
    let mut i = 0usize;
    let mut deferred: Vec<Deferred> = Vec::new();
    let mut unsupported = 0usize;
    while off < plan.total && !ctx.stopped() {
        let op = &plan.sends[i % plan.sends.len()];
        i += 1;
        // When every zero-copy attempt is refused, fall back to plain writes
        // so that the program terminates.
        let mut op = op.clone();
        if unsupported > 0 && op.kind.is_zc() {
            op.kind = SK::Write;
        }
        let len = op.len.clamp(1, plan.total - off);
        let data = pat_vec(plan.salt, off, len);
        ds.in_send.set(Some(op.kind));
        ctx.kind(op.kind.name());
        let r = send_one(ctx, ds, conn, half.as_deref_mut(), &op, data, &mut deferred).await;
        ds.in_send.set(None);
        ctx.tick();
        if trace() {
            eprintln!("[{}] send {} len {len} at {off} -> {r:?}", ds.name, op.kind.name());
        }
        match r {
            Ok(n) if n > len => {
                ctx.fail(
                    format!("C14/stream/send-overcount/{}/{}", ds.tag, op.kind.name()),
                    format!("{} of {len} bytes reported {n} bytes accepted", op.kind.name()),
                );
                return;
            }
            Ok(0) => {
                ctx.fail(
                    format!("C14/stream/send-zero/{}/{}", ds.tag, op.kind.name()),
                    format!("{} of {len} bytes at offset {off} reported 0 bytes accepted", op.kind.name()),
                );
                return;
            }
            Ok(n) => {
                if n < len {
                    ds.partial.set(true);
                    ctx.floor("stream-partial-send");
                    ctx.count("stream_partial_sends", 1);
                }
                if op.kind.is_zc() {
                    ctx.floor("stream-zerocopy-send");
                }
                if op.kind.is_msg() && op.ctl % 3 != 0 {
                    ctx.floor("stream-ancillary");
                }
                ds.prov.borrow_mut().push((off, op.kind));
                off += n;
                ds.sent.set(off);
            }
            Err(e)
                if op.kind.is_zc()
                    && (e.raw_os_error() == Some(libc::EOPNOTSUPP) || e.kind() == io::ErrorKind::Unsupported) =>
            {
                // zero-copy not offered for this socket type: nothing was accepted
                unsupported += 1;
                ctx.count(&format!("zc_unsupported/{}", ds.tag), 1);
            }
            Err(e) => {
                ctx.fail(
                    format!("C14/stream/send-error/{}/{}/{}", ds.tag, op.kind.name(), errname(&e)),
                    format!("{} of {len} bytes at offset {off} on a healthy connection failed: {e}", op.kind.name()),
                );
                return;
            }
        }
        if deferred.len() >= 3 {
            settle(ctx, ds, &mut deferred).await;
        }
        yields(ctx, op.pause).await;
    }
    settle(ctx, ds, &mut deferred).await;
    if ctx.stopped() {
        return;
    }
    if plan.shutdown {
        let r = match half {
            Some(h) => T::h_shutdown(h).await,
            None => conn.c_shutdown().await,
        };
        if let Err(e) = r {
            ctx.fail(
                format!("C14/stream/shutdown-error/{}/{}", ds.tag, errname(&e)),
                format!("shutdown after {off} bytes failed: {e}"),
            );
            return;
        }
        ds.shutdown_done.set(true);
    }
    ds.sender_done.set(true);
    ctx.tick();
}

include!("c14_stream_recv.rs");
