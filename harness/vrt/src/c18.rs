//! C18 — the dispatcher starts every accepted task exactly once.
//!
//! Runtime monitor over the real `compio_dispatcher::Dispatcher`: every
//! dispatched closure carries an id and records `Started{tid, worker index}` /
//! `Finished` / `Dropped` into a per-task record (atomics, one global sequence
//! counter), each worker thread carries a thread-local overlap gauge and a
//! thread-local exit guard (logs "worker thread gone" from its TLS destructor),
//! every receiver is inspected, and `join`'s outcome (Ok / io error / panic
//! payload) is compared with what the workload did to the workers.
//!
//! A *case* = (workers, mode, driver, dispatching threads with their task
//! lists and pacing, join point, fault). Cases are schedule dependent: the
//! replay re-runs the same case many times.

use std::{
    any::Any,
    cell::{Cell, RefCell},
    collections::{BTreeMap, BTreeSet},
    future::Future,
    num::NonZeroUsize,
    panic::{AssertUnwindSafe, catch_unwind},
    pin::Pin,
    sync::{
        Arc, Condvar, Mutex,
        atomic::{AtomicBool, AtomicI32, AtomicU8, AtomicU32, AtomicU64, Ordering::SeqCst},
        mpsc,
    },
    task::{Context, Poll, Wake, Waker},
    time::{Duration, Instant},
};

use compio_dispatcher::Dispatcher;
use compio_driver::{DispatchError, DriverType, ProactorBuilder};
use compio_io::{AsyncReadExt, AsyncWriteExt};
use compio_runtime::Runtime;
use futures_channel::oneshot;
use vcommon::{Args, Report, Rng, Value, json};

// ---------------------------------------------------------------------------
// global sequence counter, thread ids
// ---------------------------------------------------------------------------

static SEQ: AtomicU64 = AtomicU64::new(1);

fn seq() -> u64 {
    SEQ.fetch_add(1, SeqCst)
}

fn gettid() -> u64 {
    unsafe { libc::syscall(libc::SYS_gettid) as u64 }
}

// ---------------------------------------------------------------------------
// panic payload markers and hook filter
// ---------------------------------------------------------------------------

/// A task body that panics (caught by the executor, must not hurt the worker).
struct TaskPanic(#[allow(dead_code)] u32);

/// A panic payload whose destructor panics: in sequential mode the worker
/// loop drops the `JoinError::Panicked(payload)` inside the `block_on` future,
/// so the worker thread itself dies with `BombBlast(id)` — the only way to
/// make a *worker* panic with a payload the harness controls.
struct Bomb(u32);

struct BombBlast(u32);

impl Drop for Bomb {
    fn drop(&mut self) {
        if !std::thread::panicking() {
            std::panic::panic_any(BombBlast(self.0));
        }
    }
}

/// Set while a sequential-mode case with worker-killing payloads runs. If the
/// process aborts then (the executor's abort-on-panic guard fired), the payload
/// was dropped *inside the executor*, which in sequential mode only happens if
/// the worker loop detached the task instead of awaiting it. The SIGABRT
/// handler turns that into a classified violation for `/verif/check`.
static BOMB_CASE: AtomicBool = AtomicBool::new(false);

extern "C" fn on_abort(_sig: libc::c_int) {
    if BOMB_CASE.load(SeqCst) {
        let msg = b"\n@@ABORT-VIOLATION@@ C18/sequential-task-result-dropped-inside-executor process aborted by the executor's abort-on-panic guard while a sequential-mode worker dropped a task's panic payload (task detached instead of awaited?)\n";
        unsafe {
            libc::write(2, msg.as_ptr() as *const libc::c_void, msg.len());
        }
    }
}

static EXPECT_BUILD_PANIC: AtomicBool = AtomicBool::new(false);
static UNEXPECTED_PANICS: Mutex<Vec<(String, u32, String)>> = Mutex::new(Vec::new());

fn install_filter_hook() {
    let prev = std::panic::take_hook();
    std::panic::set_hook(Box::new(move |info| {
        let p = info.payload();
        if p.is::<TaskPanic>() || p.is::<Bomb>() || p.is::<BombBlast>() {
            return;
        }
        let msg = if let Some(s) = p.downcast_ref::<&str>() {
            s.to_string()
        } else if let Some(s) = p.downcast_ref::<String>() {
            s.clone()
        } else {
            "<non-string>".into()
        };
        if EXPECT_BUILD_PANIC.load(SeqCst) && msg.contains("cannot create compio runtime") {
            return;
        }
        let (f, l) = info
            .location()
            .map(|l| (l.file().to_string(), l.line()))
            .unwrap_or_default();
        if let Ok(mut v) = UNEXPECTED_PANICS.lock() {
            if v.len() < 64 {
                v.push((f, l, msg));
            }
        }
        prev(info);
    }));
}

// ---------------------------------------------------------------------------
// case description
// ---------------------------------------------------------------------------

#[derive(Clone, Debug, PartialEq)]
enum Body {
    Imm,
    Yield(u8),
    Sleep(u8),
    Pipe(u16),
    Sub(u8),
    Panic,
    Bomb,
    Blocking(u8),
}

impl Body {
    fn enc(&self) -> String {
        match self {
            Body::Imm => "i".into(),
            Body::Yield(k) => format!("y{k}"),
            Body::Sleep(k) => format!("s{k}"),
            Body::Pipe(k) => format!("p{k}"),
            Body::Sub(k) => format!("u{k}"),
            Body::Panic => "x".into(),
            Body::Bomb => "b".into(),
            Body::Blocking(k) => format!("k{k}"),
        }
    }

    fn dec(s: &str) -> Option<Body> {
        let (h, t) = s.split_at(1.min(s.len()));
        let n = || t.parse::<u32>().ok();
        Some(match h {
            "i" => Body::Imm,
            "y" => Body::Yield(n()? as u8),
            "s" => Body::Sleep(n()? as u8),
            "p" => Body::Pipe(n()? as u16),
            "u" => Body::Sub(n()? as u8),
            "x" => Body::Panic,
            "b" => Body::Bomb,
            "k" => Body::Blocking(n()? as u8),
            _ => return None,
        })
    }

    fn is_blocking(&self) -> bool {
        matches!(self, Body::Blocking(_))
    }
}

#[derive(Clone, Copy, Debug, PartialEq)]
enum JoinPoint {
    /// await every receiver, then join
    Drained,
    /// await a prefix of the receivers, then join
    Partial,
    /// join right after the last dispatch returned
    Immediate,
}

#[derive(Clone, Debug)]
struct Case {
    workers: usize,
    concurrent: bool,
    /// 0 = io_uring, 1 = polling
    driver: u8,
    pool_limit: usize,
    /// make every worker die while building its runtime
    bad_proactor: bool,
    /// pin one blocking "roll call" task on every worker first (full worker census)
    rollcall: bool,
    /// per dispatching thread: its task bodies
    lists: Vec<Vec<Body>>,
    /// per dispatching thread: 0 none, 1 yield between, 2 spin, 3 sometimes wait for the result
    pace: Vec<u8>,
    join: JoinPoint,
    /// caller thread drives `join` inside a compio runtime (else a parking executor)
    caller_rt: bool,
}

impl Case {
    fn to_json(&self) -> Value {
        json!({
            "workers": self.workers, "concurrent": self.concurrent, "driver": self.driver,
            "pool_limit": self.pool_limit, "bad_proactor": self.bad_proactor, "rollcall": self.rollcall,
            "lists": self.lists.iter().map(|l| l.iter().map(|b| b.enc()).collect::<Vec<_>>().join(",")).collect::<Vec<_>>(),
            "pace": self.pace,
            "join": match self.join { JoinPoint::Drained => "drained", JoinPoint::Partial => "partial", JoinPoint::Immediate => "immediate" },
            "caller_rt": self.caller_rt,
        })
    }

    fn from_json(v: &Value) -> Option<Case> {
        let lists = v["lists"]
            .as_array()?
            .iter()
            .map(|l| {
                let s = l.as_str().unwrap_or("");
                if s.is_empty() {
                    Some(vec![])
                } else {
                    s.split(',').map(Body::dec).collect::<Option<Vec<_>>>()
                }
            })
            .collect::<Option<Vec<_>>>()?;
        Some(Case {
            workers: v["workers"].as_u64()? as usize,
            concurrent: v["concurrent"].as_bool()?,
            driver: v["driver"].as_u64()? as u8,
            pool_limit: v["pool_limit"].as_u64()? as usize,
            bad_proactor: v["bad_proactor"].as_bool()?,
            rollcall: v["rollcall"].as_bool()?,
            pace: v["pace"].as_array()?.iter().map(|x| x.as_u64().unwrap_or(0) as u8).collect(),
            lists,
            join: match v["join"].as_str()? {
                "drained" => JoinPoint::Drained,
                "partial" => JoinPoint::Partial,
                _ => JoinPoint::Immediate,
            },
            caller_rt: v["caller_rt"].as_bool()?,
        })
    }

    fn ntasks(&self) -> usize {
        self.lists.iter().map(|l| l.len()).sum()
    }
}

fn gen_case(rng: &mut Rng, big: bool) -> Case {
    let workers = *rng.pick(&[1, 1, 2, 2, 3, 4, 5, 6, 7, 8]);
    let concurrent = rng.chance(1, 2);
    let ndisp = *rng.pick(&[1, 2, 2, 3, 4, 5, 6, 7, 8, 8]);
    let total = if big {
        rng.range(300, 2000)
    } else {
        match rng.below(8) {
            0 => 0,
            1 => rng.range(1, 4),
            2..=5 => rng.range(4, 80),
            _ => rng.range(60, 260),
        }
    };
    if !big && rng.chance(1, 10) {
        // burst: one or two threads dispatch far faster than few workers can
        // start tasks, then join at once (tasks still queued at join)
        let ndisp = rng.range(1, 2);
        let n = rng.range(40, 400);
        let body = rng.pick(&[Body::Imm, Body::Yield(1), Body::Yield(3), Body::Sleep(0)]).clone();
        let mut lists = vec![vec![]; ndisp];
        for i in 0..n {
            lists[i % ndisp].push(body.clone());
        }
        return Case {
            workers: rng.range(1, 2),
            concurrent: rng.chance(2, 3),
            driver: rng.below(2) as u8,
            pool_limit: 256,
            bad_proactor: false,
            rollcall: false,
            lists,
            pace: vec![0; ndisp],
            join: JoinPoint::Immediate,
            caller_rt: rng.chance(1, 2),
        };
    }
    let bad_proactor = rng.chance(1, 40);
    // bombs kill workers; only meaningful in sequential mode (in concurrent
    // mode the payload is dropped under the executor's abort-on-panic guard)
    let bombs = !concurrent && !bad_proactor && rng.chance(1, 5);
    // body profile
    let profile = rng.below(6);
    let mut lists: Vec<Vec<Body>> = vec![vec![]; ndisp];
    for i in 0..total {
        let b = match profile {
            0 => Body::Imm,
            1 => {
                if rng.chance(1, 2) {
                    Body::Imm
                } else {
                    Body::Yield(rng.range(1, 6) as u8)
                }
            }
            _ => match rng.below(20) {
                0..=5 => Body::Imm,
                6..=9 => Body::Yield(rng.range(1, 8) as u8),
                10..=11 => Body::Sleep(rng.range(0, 3) as u8),
                12..=13 => Body::Pipe(*rng.pick(&[1u16, 7, 64, 500, 4096])),
                14..=15 => Body::Sub(rng.range(1, 4) as u8),
                16..=17 => Body::Panic,
                18 => Body::Blocking(rng.range(0, 2) as u8),
                _ => Body::Yield(1),
            },
        };
        let b = if bombs && rng.chance(1, (total / (workers + 1)).max(2)) { Body::Bomb } else { b };
        let d = if rng.chance(1, 6) { 0 } else { i % ndisp };
        lists[d].push(b);
    }
    let pace = (0..ndisp).map(|_| rng.below(4) as u8).collect();
    let driver = rng.below(2) as u8;
    let pool_limit = *rng.pick(&[1, 2, 4, 4, 256, 256, 256, 256]);
    let join = *rng.pick(&[JoinPoint::Drained, JoinPoint::Partial, JoinPoint::Immediate, JoinPoint::Immediate]);
    // Known limitation (kept out of the random workload, it costs a shard every
    // time): with thread_pool_limit = 1 the polling driver retries its blocking
    // operations (`while pool.dispatch(..).is_err() { yield }`) while the only
    // pool thread runs join's thread-joining closure, so join spins for ever.
    // Such cases drain their results first, then nobody needs the pool in join.
    // (cases that kill workers cannot drain first; they get a second pool thread)
    let (join, pool_limit) = match (pool_limit == 1 && driver == 1, bad_proactor || bombs) {
        (true, false) => (JoinPoint::Drained, pool_limit),
        (true, true) => (join, 2),
        _ => (join, pool_limit),
    };
    Case {
        workers,
        concurrent,
        driver,
        pool_limit,
        bad_proactor,
        // Only in sequential mode: there a worker has no receive pending while
        // it runs a task. In concurrent mode the blocked worker still owns a
        // registered flume waiter and may be the one that is woken for the
        // next roll-call task (a thread-blocking body is the user's fault, not
        // the dispatcher's), so the pinning trick does not apply.
        rollcall: !bad_proactor && !concurrent && rng.chance(1, 2),
        lists,
        pace,
        join,
        caller_rt: rng.chance(2, 3),
    }
}

// ---------------------------------------------------------------------------
// per-task record and per-case context
// ---------------------------------------------------------------------------

type Tag = (u32, u64);

const END_NONE: u8 = 0;
const END_FINISHED: u8 = 1;
const END_DROPPED: u8 = 2;
const END_PANICKED: u8 = 3;

/// receivers dropped by the dispatching thread right after `dispatch` returned Ok
static FORGOTTEN: AtomicU64 = AtomicU64::new(0);
/// tasks started on a correctly named worker thread that the roll call had not seen
static OFF_ROLL: AtomicU64 = AtomicU64::new(0);

struct Rec {
    id: u32,
    body: Body,
    rollcall: bool,
    nonce: u64,
    call_seq: AtomicU64,
    ret_seq: AtomicU64,
    /// 0 not dispatched, 1 Ok, 2 Err
    accepted: AtomicU8,
    /// for Err: id reported by the closure that came back (u32::MAX = none)
    returned_id: AtomicU32,
    starts: AtomicU32,
    start_seq: AtomicU64,
    start_tid: AtomicU64,
    /// worker index parsed from the thread name, -1 = not a worker thread of this case
    start_widx: AtomicI32,
    caller_tid: AtomicU64,
    gauge_at_start: AtomicI32,
    end_kind: AtomicU8,
    end_seq: AtomicU64,
    /// receiver outcome: 0 unknown, 1 Ok(own tag), 2 Ok(foreign tag), 3 Canceled, 4 still pending
    rx_state: AtomicU8,
    rx_seq: AtomicU64,
    sync_wait_timeout: AtomicBool,
}

impl Rec {
    fn new(id: u32, body: Body, rollcall: bool, nonce: u64) -> Self {
        Rec {
            id,
            body,
            rollcall,
            nonce,
            call_seq: AtomicU64::new(0),
            ret_seq: AtomicU64::new(0),
            accepted: AtomicU8::new(0),
            returned_id: AtomicU32::new(u32::MAX),
            starts: AtomicU32::new(0),
            start_seq: AtomicU64::new(0),
            start_tid: AtomicU64::new(0),
            start_widx: AtomicI32::new(-1),
            caller_tid: AtomicU64::new(0),
            gauge_at_start: AtomicI32::new(0),
            end_kind: AtomicU8::new(END_NONE),
            end_seq: AtomicU64::new(0),
            rx_state: AtomicU8::new(0),
            rx_seq: AtomicU64::new(0),
            sync_wait_timeout: AtomicBool::new(false),
        }
    }

    fn tag(&self) -> Tag {
        (self.id, self.nonce)
    }

    fn set_rx(&self, r: Result<Tag, oneshot::Canceled>) {
        let st = match r {
            Ok(t) if t == self.tag() => 1,
            Ok(_) => 2,
            Err(_) => 3,
        };
        self.rx_seq.store(seq(), SeqCst);
        self.rx_state.store(st, SeqCst);
    }
}

struct Ctx {
    prefix: String,
    sequential: bool,
    exits: Mutex<Vec<(u64, u64)>>,
    /// roll call: arrivals / release
    roll: Mutex<usize>,
    roll_cv: Condvar,
    roll_need: usize,
    roll_timeout: AtomicBool,
}

thread_local! {
    static GAUGE: Cell<i32> = const { Cell::new(0) };
    static EXIT: RefCell<Option<ExitGuard>> = const { RefCell::new(None) };
    static INSPECT: Cell<bool> = const { Cell::new(false) };
}

struct ExitGuard {
    ctx: Arc<Ctx>,
    tid: u64,
}

impl Drop for ExitGuard {
    fn drop(&mut self) {
        if let Ok(mut e) = self.ctx.exits.lock() {
            e.push((self.tid, seq()));
        }
    }
}

/// Lives inside the dispatched future from the moment the closure is called.
struct RunGuard {
    rec: Option<Arc<Rec>>,
    counted: bool,
}

impl RunGuard {
    fn finish(&mut self) -> Tag {
        let rec = self.rec.take().expect("finish twice");
        rec.end_seq.store(seq(), SeqCst);
        rec.end_kind.store(END_FINISHED, SeqCst);
        if self.counted {
            GAUGE.with(|g| g.set(g.get() - 1));
            self.counted = false;
        }
        rec.tag()
    }
}

impl Drop for RunGuard {
    fn drop(&mut self) {
        if let Some(rec) = self.rec.take() {
            rec.end_seq.store(seq(), SeqCst);
            rec.end_kind.store(
                if std::thread::panicking() { END_PANICKED } else { END_DROPPED },
                SeqCst,
            );
        }
        if self.counted {
            GAUGE.with(|g| g.set(g.get() - 1));
        }
    }
}

fn on_start(rec: &Arc<Rec>, ctx: &Arc<Ctx>, gauge: bool) -> RunGuard {
    if INSPECT.with(|i| i.get()) {
        rec.returned_id.store(rec.id, SeqCst);
        return RunGuard { rec: None, counted: false };
    }
    let s = seq();
    let tid = gettid();
    let n = rec.starts.fetch_add(1, SeqCst);
    if n == 0 {
        rec.start_seq.store(s, SeqCst);
        rec.start_tid.store(tid, SeqCst);
        let widx = std::thread::current()
            .name()
            .and_then(|n| n.strip_prefix(ctx.prefix.as_str()).and_then(|r| r.parse::<i32>().ok()))
            .unwrap_or(-1);
        rec.start_widx.store(widx, SeqCst);
    }
    let mut counted = false;
    if gauge {
        let g = GAUGE.with(|g| {
            g.set(g.get() + 1);
            g.get()
        });
        rec.gauge_at_start.store(g, SeqCst);
        counted = true;
        EXIT.with(|e| {
            let mut e = e.borrow_mut();
            if e.is_none() {
                *e = Some(ExitGuard { ctx: ctx.clone(), tid });
            }
        });
    }
    RunGuard { rec: Some(rec.clone()), counted }
}

struct YieldNow(bool);

impl Future for YieldNow {
    type Output = ();

    fn poll(mut self: Pin<&mut Self>, cx: &mut Context<'_>) -> Poll<()> {
        if self.0 {
            Poll::Ready(())
        } else {
            self.0 = true;
            cx.waker().wake_by_ref();
            Poll::Pending
        }
    }
}

async fn run_body(mut g: RunGuard, body: Body, rollcall: bool, ctx: Arc<Ctx>) -> Tag {
    if g.rec.is_none() {
        // inspection call by the harness: never polled
        return (u32::MAX, 0);
    }
    let id = g.rec.as_ref().unwrap().id;
    if rollcall {
        // Block the whole worker thread until every worker has arrived.
        let mut n = ctx.roll.lock().unwrap();
        *n += 1;
        ctx.roll_cv.notify_all();
        let deadline = Instant::now() + Duration::from_secs(20);
        while *n < ctx.roll_need {
            let left = deadline.saturating_duration_since(Instant::now());
            if left.is_zero() {
                ctx.roll_timeout.store(true, SeqCst);
                break;
            }
            n = ctx.roll_cv.wait_timeout(n, left).unwrap().0;
        }
        drop(n);
        return g.finish();
    }
    match body {
        Body::Imm | Body::Blocking(_) => {}
        Body::Yield(k) => {
            for _ in 0..k {
                YieldNow(false).await;
            }
        }
        Body::Sleep(ms) => {
            compio_runtime::time::sleep(Duration::from_micros(ms as u64 * 700 + 50)).await;
        }
        Body::Pipe(n) => {
            let n = n as usize;
            let (mut rx, mut tx) = compio_fs::pipe::anonymous().await.expect("pipe");
            let data: Vec<u8> = (0..n).map(|i| (i as u32 ^ id) as u8).collect();
            let expect = data.clone();
            let w = async move {
                tx.write_all(data).await.0.expect("pipe write");
            };
            let r = async move {
                let (_, buf) = rx.read_exact(Vec::with_capacity(n)).await.unwrap();
                buf
            };
            let ((), got) = futures_util::join!(w, r);
            assert!(got == expect, "pipe bytes differ");
        }
        Body::Sub(k) => {
            let hs: Vec<_> = (0..k)
                .map(|j| {
                    compio_runtime::spawn(async move {
                        YieldNow(false).await;
                        id as u64 * 100 + j as u64
                    })
                })
                .collect();
            for (j, h) in hs.into_iter().enumerate() {
                let v = h.await.expect("sub-task cancelled");
                assert!(v == id as u64 * 100 + j as u64, "sub-task result differs");
            }
        }
        Body::Panic => {
            YieldNow(false).await;
            std::panic::panic_any(TaskPanic(id));
        }
        Body::Bomb => {
            std::panic::panic_any(Bomb(id));
        }
    }
    g.finish()
}

// ---------------------------------------------------------------------------
// tiny parking executor (for threads without a compio runtime)
// ---------------------------------------------------------------------------

struct Parker(std::thread::Thread, AtomicBool);

impl Wake for Parker {
    fn wake(self: Arc<Self>) {
        self.1.store(true, SeqCst);
        self.0.unpark();
    }
}

fn block_on_deadline<F: Future>(f: F, deadline: Instant) -> Option<F::Output> {
    let p = Arc::new(Parker(std::thread::current(), AtomicBool::new(false)));
    let w = Waker::from(p.clone());
    let mut cx = Context::from_waker(&w);
    let mut f = std::pin::pin!(f);
    loop {
        if let Poll::Ready(v) = f.as_mut().poll(&mut cx) {
            return Some(v);
        }
        while !p.1.swap(false, SeqCst) {
            let left = deadline.saturating_duration_since(Instant::now());
            if left.is_zero() {
                return None;
            }
            std::thread::park_timeout(left.min(Duration::from_millis(50)));
        }
    }
}

// ---------------------------------------------------------------------------
// running one case
// ---------------------------------------------------------------------------

#[derive(Debug, Clone, PartialEq)]
enum JoinOut {
    Ok,
    IoErr(String),
    Blast(u32),
    PanicStr(String),
    PanicTask,
    PanicOther,
    /// never called / build failed
    NotRun,
}

struct Obs {
    recs: Vec<Arc<Rec>>,
    join_call: u64,
    join_ret: u64,
    join_out: JoinOut,
    exits: Vec<(u64, u64)>,
    roll_tids: BTreeSet<u64>,
    census_late: u32,
    census_tids: usize,
    census_stuck: Vec<String>,
    harness_problem: Option<String>,
    unexpected_panics: Vec<(String, u32, String)>,
}

fn classify_payload(p: Box<dyn Any + Send>) -> JoinOut {
    if let Some(b) = p.downcast_ref::<BombBlast>() {
        return JoinOut::Blast(b.0);
    }
    if p.is::<TaskPanic>() {
        return JoinOut::PanicTask;
    }
    if p.is::<Bomb>() {
        // do not run its destructor's panic here
        std::mem::forget(p);
        return JoinOut::PanicOther;
    }
    if let Some(s) = p.downcast_ref::<String>() {
        return JoinOut::PanicStr(s.clone());
    }
    if let Some(s) = p.downcast_ref::<&str>() {
        return JoinOut::PanicStr(s.to_string());
    }
    JoinOut::PanicOther
}

/// Thread ids of the live threads whose name starts with `prefix`. A thread
/// spawned *by* a worker (blocking-pool threads) inherits the worker's comm, so
/// names identify workers only right after the dispatcher was built.
fn named_tids(prefix: &str) -> Vec<u64> {
    let mut v = vec![];
    if let Ok(rd) = std::fs::read_dir("/proc/self/task") {
        for e in rd.flatten() {
            let p = e.path();
            if let Ok(comm) = std::fs::read_to_string(p.join("comm")) {
                if comm.trim().starts_with(prefix) {
                    if let Some(t) = p.file_name().and_then(|n| n.to_str()).and_then(|n| n.parse().ok()) {
                        v.push(t);
                    }
                }
            }
        }
    }
    v
}

/// Which of `tids` are still threads of this process that have not left user
/// code (zombie / dead tasks do not count).
fn census(tids: &BTreeSet<u64>) -> Vec<String> {
    let mut v = vec![];
    for t in tids {
        let p = std::path::PathBuf::from(format!("/proc/self/task/{t}"));
        if let Ok(st) = std::fs::read_to_string(p.join("stat")) {
            let state = st.rsplit_once(") ").and_then(|x| x.1.chars().next()).unwrap_or('?');
            if state != 'Z' && state != 'X' && state != '?' {
                let comm = std::fs::read_to_string(p.join("comm")).unwrap_or_default();
                v.push(format!("{t}:{}:{state}", comm.trim()));
            }
        }
    }
    v
}

/// Logical quiescence of the process apart from `exclude`: over a period longer
/// than every timeout in the system, no other thread was scheduled even once
/// (context-switch counters unchanged, all sleeping) and the thread set did
/// not change. Returns a description of the sleeping threads if quiescent.
fn quiescent(exclude: &[u64], period: Duration, rounds: usize) -> Option<String> {
    fn snap(exclude: &[u64]) -> BTreeMap<u64, (String, String)> {
        let mut m = BTreeMap::new();
        if let Ok(rd) = std::fs::read_dir("/proc/self/task") {
            for e in rd.flatten() {
                let p = e.path();
                let Some(t) = p.file_name().and_then(|n| n.to_str()).and_then(|n| n.parse::<u64>().ok()) else { continue };
                if exclude.contains(&t) {
                    continue;
                }
                let status = std::fs::read_to_string(p.join("status")).unwrap_or_default();
                let mut key = String::new();
                for l in status.lines() {
                    if l.starts_with("State:") || l.contains("ctxt_switches") {
                        key.push_str(l);
                        key.push(';');
                    }
                }
                let comm = std::fs::read_to_string(p.join("comm")).unwrap_or_default();
                let wchan = std::fs::read_to_string(p.join("wchan")).unwrap_or_default();
                m.insert(t, (key, format!("{}@{}", comm.trim(), wchan.trim())));
            }
        }
        m
    }
    for _ in 0..rounds {
        let a = snap(exclude);
        std::thread::sleep(period);
        let b = snap(exclude);
        let same = a.len() == b.len()
            && a.iter().all(|(t, (k, _))| b.get(t).is_some_and(|(k2, _)| k2 == k && k.contains("State:\tS")));
        if same {
            return Some(b.values().map(|v| v.1.clone()).collect::<Vec<_>>().join(", "));
        }
    }
    None
}

fn dispatch_one(
    disp: &Dispatcher,
    rec: &Arc<Rec>,
    ctx: &Arc<Ctx>,
) -> Option<oneshot::Receiver<Tag>> {
    rec.caller_tid.store(gettid(), SeqCst);
    let body = rec.body.clone();
    let rollcall = rec.rollcall;
    rec.call_seq.store(seq(), SeqCst);
    if body.is_blocking() {
        let (r2, c2) = (rec.clone(), ctx.clone());
        let ms = if let Body::Blocking(ms) = body { ms } else { 0 };
        let res = disp.dispatch_blocking(move || {
            let mut g = on_start(&r2, &c2, false);
            if g.rec.is_none() {
                return (u32::MAX, 0);
            }
            if ms > 0 {
                std::thread::sleep(Duration::from_micros(ms as u64 * 500));
            }
            g.finish()
        });
        rec.ret_seq.store(seq(), SeqCst);
        return match res {
            Ok(rx) => {
                rec.accepted.store(1, SeqCst);
                Some(rx)
            }
            Err(DispatchError(f)) => {
                rec.accepted.store(2, SeqCst);
                INSPECT.with(|i| i.set(true));
                let _ = f();
                INSPECT.with(|i| i.set(false));
                None
            }
        };
    }
    let (r2, c2) = (rec.clone(), ctx.clone());
    let res = disp.dispatch(move || {
        let g = on_start(&r2, &c2, true);
        run_body(g, body, rollcall, c2)
    });
    rec.ret_seq.store(seq(), SeqCst);
    match res {
        Ok(rx) => {
            rec.accepted.store(1, SeqCst);
            Some(rx)
        }
        Err(DispatchError(f)) => {
            rec.accepted.store(2, SeqCst);
            INSPECT.with(|i| i.set(true));
            drop(f());
            INSPECT.with(|i| i.set(false));
            None
        }
    }
}

static CASE_NO: AtomicU32 = AtomicU32::new(0);

#[derive(Default)]
struct Progress {
    /// 0 building, 1 dispatching, 2 waiting for results, 3 inside join, 4 past join
    phase: AtomicU8,
    case_tid: AtomicU64,
}

fn run_case(case: &Case, sched_seed: u64, progress: &Arc<Progress>) -> Obs {
    progress.case_tid.store(gettid(), SeqCst);
    let case_no = CASE_NO.fetch_add(1, SeqCst) % 100_000;
    let prefix = format!("v18w{case_no}-");
    let ctx = Arc::new(Ctx {
        prefix: prefix.clone(),
        sequential: !case.concurrent,
        exits: Mutex::new(vec![]),
        roll: Mutex::new(0),
        roll_cv: Condvar::new(),
        roll_need: case.workers,
        roll_timeout: AtomicBool::new(false),
    });
    let _ = ctx.sequential;
    let mut rng = Rng::new(sched_seed);
    // task records: roll call tasks first, then per-dispatcher lists
    let mut recs: Vec<Arc<Rec>> = vec![];
    let nroll = if case.rollcall { case.workers } else { 0 };
    for _ in 0..nroll {
        let id = recs.len() as u32;
        recs.push(Arc::new(Rec::new(id, Body::Imm, true, rng.next_u64())));
    }
    let mut per_disp: Vec<Vec<Arc<Rec>>> = vec![];
    for l in &case.lists {
        let mut v = vec![];
        for b in l {
            let id = recs.len() as u32;
            let r = Arc::new(Rec::new(id, b.clone(), false, rng.next_u64()));
            recs.push(r.clone());
            v.push(r);
        }
        per_disp.push(v);
    }
    let mut obs = Obs {
        recs: recs.clone(),
        join_call: 0,
        join_ret: 0,
        join_out: JoinOut::NotRun,
        exits: vec![],
        roll_tids: BTreeSet::new(),
        census_late: 0,
        census_tids: 0,
        census_stuck: vec![],
        harness_problem: None,
        unexpected_panics: vec![],
    };
    UNEXPECTED_PANICS.lock().unwrap().clear();
    EXPECT_BUILD_PANIC.store(case.bad_proactor, SeqCst);
    BOMB_CASE.store(!case.concurrent && case.lists.iter().flatten().any(|b| matches!(b, Body::Bomb)), SeqCst);

    let mut pb = ProactorBuilder::new();
    pb.driver_type(if case.driver == 0 { DriverType::IoUring } else { DriverType::Poll });
    pb.thread_pool_limit(case.pool_limit);
    // Pool threads retire after this idle time. Do not make it short:
    // `AsyncifyPool::dispatch` spawns a pool thread and then does a blocking
    // rendezvous `send`; if the fresh thread's `recv_timeout` expires before the
    // spawner gets to `send` (seen with 30 ms on a loaded machine) the send —
    // and with it `Dispatcher::join` — blocks forever. That is pool behaviour
    // (C17), not what this property is about.
    pb.thread_pool_recv_timeout(Duration::from_secs(5));
    if case.bad_proactor {
        // io_uring_setup rejects more than 32768 entries: every worker fails to
        // build its runtime and panics ("cannot create compio runtime")
        pb.driver_type(DriverType::IoUring);
        pb.capacity(1 << 24);
    } else {
        pb.capacity(*rng.pick(&[4u32, 64, 1024]));
    }
    let pfx = prefix.clone();
    let disp = match Dispatcher::builder()
        .worker_threads(NonZeroUsize::new(case.workers).unwrap())
        .concurrent(case.concurrent)
        .thread_names(move |i| format!("{pfx}{i}"))
        .proactor_builder(pb)
        .build()
    {
        Ok(d) => d,
        Err(e) => {
            obs.harness_problem = Some(format!("dispatcher build failed: {e}"));
            return obs;
        }
    };

    // census of the worker threads by name (they name themselves when they start)
    let mut worker_tids: BTreeSet<u64> = BTreeSet::new();
    if !case.bad_proactor {
        for _ in 0..2000 {
            let t = named_tids(&prefix);
            if t.len() >= case.workers {
                worker_tids = t.into_iter().collect();
                break;
            }
            std::thread::yield_now();
        }
    }
    obs.census_tids = worker_tids.len();
    progress.phase.store(1, SeqCst);

    let watchdog = Instant::now() + Duration::from_secs(40);
    let mut receivers: Vec<(Arc<Rec>, oneshot::Receiver<Tag>)> = vec![];

    // roll call: one blocking task per worker, dispatched one at a time
    for r in recs.iter().take(nroll) {
        match dispatch_one(&disp, r, &ctx) {
            Some(rx) => receivers.push((r.clone(), rx)),
            None => {
                obs.harness_problem = Some("roll call rejected".into());
                break;
            }
        }
        while r.starts.load(SeqCst) == 0 {
            if Instant::now() > watchdog {
                obs.harness_problem = Some("roll call: task not started in time".into());
                break;
            }
            std::thread::yield_now();
        }
    }
    if nroll > 0 && obs.harness_problem.is_none() {
        // wait until the barrier released everyone
        for r in recs.iter().take(nroll) {
            while r.end_kind.load(SeqCst) == END_NONE && Instant::now() < watchdog {
                std::thread::yield_now();
            }
            obs.roll_tids.insert(r.start_tid.load(SeqCst));
        }
        if ctx.roll_timeout.load(SeqCst) {
            obs.harness_problem = Some("roll call barrier timed out".into());
        }
    }

    // dispatching threads
    let start_gate = Arc::new(std::sync::Barrier::new(per_disp.len()));
    let got: Vec<Vec<(Arc<Rec>, oneshot::Receiver<Tag>)>> = std::thread::scope(|s| {
        let hs: Vec<_> = per_disp
            .iter()
            .enumerate()
            .map(|(di, list)| {
                let disp = &disp;
                let ctx = &ctx;
                let gate = start_gate.clone();
                let pace = case.pace.get(di).copied().unwrap_or(0);
                let faulty = case.bad_proactor || case.lists.iter().flatten().any(|b| matches!(b, Body::Bomb));
                let mut rng = rng.fork(di as u64 + 11);
                s.spawn(move || {
                    gate.wait();
                    let mut mine = vec![];
                    for r in list {
                        match pace {
                            1 => std::thread::yield_now(),
                            2 => {
                                for _ in 0..rng.below(400) {
                                    std::hint::spin_loop();
                                }
                            }
                            _ => {}
                        }
                        if let Some(mut rx) = dispatch_one(disp, r, ctx) {
                            // (never wait when the workload kills workers: with every
                            // worker dead an accepted task stays queued until join)
                            if pace == 3 && rng.chance(1, 4) && !faulty {
                                // wait for this result before going on
                                match block_on_deadline(&mut rx, Instant::now() + Duration::from_secs(20)) {
                                    Some(res) => r.set_rx(res),
                                    None => {
                                        r.sync_wait_timeout.store(true, SeqCst);
                                        mine.push((r.clone(), rx));
                                    }
                                }
                            } else if rng.chance(1, 5) {
                                // fire and forget: the caller lets go of the receiver at once;
                                // the accepted closure must be started all the same
                                drop(rx);
                                r.rx_state.store(5, SeqCst);
                                FORGOTTEN.fetch_add(1, SeqCst);
                            } else {
                                mine.push((r.clone(), rx));
                            }
                        }
                    }
                    mine
                })
            })
            .collect();
        hs.into_iter().map(|h| h.join().expect("dispatch thread panicked")).collect()
    });
    for g in got {
        receivers.extend(g);
    }
    rng.shuffle(&mut receivers);

    // join point
    // With dead workers an accepted task stays queued until join: waiting for
    // receivers first would wait forever (the statement only promises
    // cancellation once joined), so faulty cases always join immediately.
    let faulty = case.bad_proactor || case.lists.iter().flatten().any(|b| matches!(b, Body::Bomb));
    let n_before = match if faulty { JoinPoint::Immediate } else { case.join } {
        JoinPoint::Drained => receivers.len(),
        JoinPoint::Partial => rng.below(receivers.len() + 1),
        JoinPoint::Immediate => 0,
    };
    let mut rest = receivers.split_off(n_before);
    let first = receivers;
    let join_call = Arc::new(AtomicU64::new(0));
    let join_ret = Arc::new(AtomicU64::new(0));
    let (jc, jr) = (join_call.clone(), join_ret.clone());
    let pr = progress.clone();
    progress.phase.store(2, SeqCst);
    let fut = async move {
        for (r, rx) in first {
            r.set_rx(rx.await);
        }
        jc.store(seq(), SeqCst);
        pr.phase.store(3, SeqCst);
        let res = disp.join().await;
        jr.store(seq(), SeqCst);
        pr.phase.store(4, SeqCst);
        res
    };
    let res = catch_unwind(AssertUnwindSafe(|| {
        if case.caller_rt {
            match Runtime::new() {
                Ok(rt) => Some(rt.block_on(fut)),
                Err(_) => None,
            }
        } else {
            block_on_deadline(fut, Instant::now() + Duration::from_secs(100_000))
        }
    }));
    let after = seq();
    obs.join_call = join_call.load(SeqCst);
    obs.join_ret = match join_ret.load(SeqCst) {
        0 => after,
        v => v,
    };
    obs.join_out = match res {
        Ok(Some(Ok(()))) => JoinOut::Ok,
        Ok(Some(Err(e))) => JoinOut::IoErr(e.to_string()),
        Ok(None) => {
            obs.harness_problem = Some("caller runtime unavailable".into());
            JoinOut::NotRun
        }
        Err(p) => classify_payload(p),
    };
    EXPECT_BUILD_PANIC.store(false, SeqCst);
    BOMB_CASE.store(false, SeqCst);

    // thread census after join returned
    if obs.join_out != JoinOut::NotRun && !worker_tids.is_empty() {
        let mut left = census(&worker_tids);
        let mut tries = 0;
        while !left.is_empty() && tries < 400 {
            obs.census_late = obs.census_late.max(tries + 1);
            std::thread::sleep(Duration::from_millis(2));
            left = census(&worker_tids);
            tries += 1;
        }
        obs.census_stuck = left;
    }
    obs.exits = ctx.exits.lock().unwrap().clone();

    // remaining receivers: must be resolved by now (bounded polls); blocking
    // tasks live on the pool, not on the workers: give them time
    let (_c, w) = vcommon::task::count_waker();
    for (r, rx) in rest.iter_mut() {
        let mut st = None;
        let polls = if r.body.is_blocking() { 4000 } else { 3 };
        for i in 0..polls {
            match vcommon::task::poll_once(rx, &w) {
                Poll::Ready(v) => {
                    st = Some(v);
                    break;
                }
                Poll::Pending => {
                    if i > 0 {
                        std::thread::sleep(Duration::from_millis(if r.body.is_blocking() { 2 } else { 1 }));
                    }
                }
            }
        }
        match st {
            Some(v) => r.set_rx(v),
            None => r.rx_state.store(4, SeqCst),
        }
    }
    obs.unexpected_panics = UNEXPECTED_PANICS.lock().unwrap().clone();
    obs
}

// ---------------------------------------------------------------------------
// oracle
// ---------------------------------------------------------------------------

/// An accepted task that was never started: was its dispatch over before join was called?
fn start_never_class(join_call: u64, r: &Rec) -> bool {
    r.ret_seq.load(SeqCst) < join_call
}

struct Finding {
    sig: String,
    what: String,
}

struct Verdicts {
    findings: Vec<Finding>,
    inconclusive: Vec<String>,
    join_class: &'static str,
    fault: &'static str,
    cancelled_rx: usize,
    rejected: usize,
    worker_died: bool,
}

fn judge(case: &Case, obs: &Obs) -> Verdicts {
    let mode = if case.concurrent { "concurrent" } else { "sequential" };
    let mut f: Vec<Finding> = vec![];
    let mut inc: Vec<String> = vec![];
    let mut add = |sig: String, what: String| {
        if !f.iter().any(|x: &Finding| x.sig == sig) {
            f.push(Finding { sig, what });
        }
    };
    if let Some(p) = &obs.harness_problem {
        inc.push(format!("harness: {p}"));
    }
    let jr = obs.join_ret;
    let jc = obs.join_call;

    // which workers died, and why
    let mut doomed: BTreeMap<i32, (u64, u32)> = BTreeMap::new(); // widx -> (start seq of the bomb, bomb id)
    for r in &obs.recs {
        if matches!(r.body, Body::Bomb) && r.starts.load(SeqCst) > 0 {
            doomed.entry(r.start_widx.load(SeqCst)).or_insert((r.start_seq.load(SeqCst), r.id));
        }
    }
    let all_dead_by_bomb = doomed.len() >= case.workers;
    let worker_died = case.bad_proactor || !doomed.is_empty();
    let fault = if case.bad_proactor {
        "workers-fail-to-start"
    } else if all_dead_by_bomb {
        "all-workers-bombed"
    } else if !doomed.is_empty() {
        "some-workers-bombed"
    } else {
        "none"
    };

    let mut cancelled_rx = 0;
    let mut rejected = 0;
    let mut unstarted_at_join = 0;
    let mut running_at_join = 0;
    let joined = !matches!(obs.join_out, JoinOut::NotRun);

    for r in &obs.recs {
        let acc = r.accepted.load(SeqCst);
        let starts = r.starts.load(SeqCst);
        let blocking = r.body.is_blocking();
        let kind = if blocking { "blocking" } else { "async" };
        let end = r.end_kind.load(SeqCst);
        let end_seq = r.end_seq.load(SeqCst);
        let start_seq = r.start_seq.load(SeqCst);
        if acc == 0 {
            continue;
        }
        if starts > 1 {
            add(
                format!("C18/started-twice/{kind}/{mode}"),
                format!("task {} ({}) was started {starts} times", r.id, r.body.enc()),
            );
        }
        if acc == 2 {
            rejected += 1;
            if starts > 0 {
                add(
                    format!("C18/rejected-but-started/{kind}"),
                    format!("dispatch of task {} returned Err(DispatchError) yet the closure ran", r.id),
                );
            }
            let back = r.returned_id.load(SeqCst);
            if back != r.id {
                add(
                    format!("C18/dispatch-err-returned-other-closure/{kind}"),
                    format!("dispatch of task {} returned Err carrying a closure that identifies as {back}", r.id),
                );
            }
            if !blocking {
                // documented: Err only "if all threads have panicked"
                let dead_before = doomed.values().filter(|(s, _)| *s < r.ret_seq.load(SeqCst)).count();
                if !case.bad_proactor && dead_before < case.workers {
                    add(
                        format!("C18/dispatch-err-with-live-workers/{mode}"),
                        format!(
                            "dispatch of task {} returned Err although only {dead_before} of {} workers had been killed",
                            r.id, case.workers
                        ),
                    );
                }
            }
            continue;
        }
        // accepted
        if starts > 0 {
            let tid = r.start_tid.load(SeqCst);
            if tid == r.caller_tid.load(SeqCst) {
                add(
                    format!("C18/started-on-caller-thread/{kind}"),
                    format!("task {} ran on the thread that dispatched it", r.id),
                );
            }
            if !blocking {
                let widx = r.start_widx.load(SeqCst);
                let known = !obs.roll_tids.is_empty();
                // a thread that carries the name the builder gave to worker `widx` of this case *is*
                // that worker; the roll-call census can be incomplete (two roll-call closures on one
                // worker when the barrier gave up), so it is an observation only
                if known && !obs.roll_tids.contains(&tid) && widx >= 0 && (widx as usize) < case.workers {
                    OFF_ROLL.fetch_add(1, SeqCst);
                }
                if widx < 0 || widx as usize >= case.workers {
                    add(
                        format!("C18/started-off-worker/{mode}"),
                        format!("task {} started on thread {tid} which is not a worker of this dispatcher", r.id),
                    );
                }
            } else if r.start_widx.load(SeqCst) >= 0 {
                add(
                    "C18/blocking-task-on-worker-runtime".into(),
                    format!("blocking task {} ran on an async worker thread", r.id),
                );
            }
        }
        if r.sync_wait_timeout.load(SeqCst) {
            inc.push("a dispatching thread waited 20 s for a result while the dispatcher was alive (no verdict)".into());
        }
        // receiver
        let rx = r.rx_state.load(SeqCst);
        if rx == 3 {
            cancelled_rx += 1;
        }
        match rx {
            1 => {
                if end != END_FINISHED {
                    add(
                        format!("C18/result-without-finish/{kind}"),
                        format!("receiver of task {} yielded its tag although the body never finished", r.id),
                    );
                }
            }
            2 => add(
                format!("C18/result-misdelivered/{kind}/{mode}"),
                format!("receiver of task {} yielded another task's result", r.id),
            ),
            3 => {
                if end == END_FINISHED && end_seq < r.rx_seq.load(SeqCst) {
                    add(
                        format!("C18/result-lost/{kind}/{mode}"),
                        format!("task {} ran to completion but its receiver reports cancellation", r.id),
                    );
                }
            }
            4 => {
                if blocking {
                    inc.push("blocking task result not seen in time".into());
                } else if joined && obs.census_stuck.is_empty() {
                    add(
                        format!("C18/receiver-hang-after-join/{mode}"),
                        format!(
                            "join returned and all workers are gone, yet the receiver of task {} ({}, starts={starts}, end={end}) is still pending",
                            r.id,
                            r.body.enc()
                        ),
                    );
                } else {
                    inc.push("receiver pending (not joined / wait timed out)".into());
                }
            }
            _ => {}
        }
        if blocking || !joined {
            continue;
        }
        if start_seq == 0 || start_seq > jc {
            unstarted_at_join += 1;
        } else if end == END_NONE || end_seq > jc {
            running_at_join += 1;
        }
        if start_seq > jr && starts > 0 {
            add(
                format!("C18/started-after-join-returned/{mode}"),
                format!("task {} started after join had returned", r.id),
            );
        }
        if starts > 0 && (end == END_NONE || end_seq > jr) {
            add(
                format!("C18/task-alive-after-join-returned/{mode}"),
                format!("task {} was still running (or never dropped) after join returned", r.id),
            );
        }
        if starts == 0 {
            // legitimate only if the workers died
            let excused = case.bad_proactor || all_dead_by_bomb;
            if !excused {
                add(
                    format!("C18/accepted-never-started/{mode}/{}", if start_never_class(jc, r) { "queued-at-join" } else { "dispatched-after-join-call" }),
                    format!(
                        "dispatch of task {} ({}) returned Ok, join returned, the closure was never called (receiver state {rx})",
                        r.id,
                        r.body.enc()
                    ),
                );
            }
        } else if !case.concurrent {
            if r.gauge_at_start.load(SeqCst) > 1 {
                add(
                    "C18/sequential-overlap".into(),
                    format!("task {} started while another dispatched task was live on the same worker", r.id),
                );
            }
            if end == END_DROPPED {
                add(
                    "C18/sequential-unfinished-at-join".into(),
                    format!("sequential mode: task {} ({}) was dropped unfinished", r.id, r.body.enc()),
                );
            }
        }
    }

    // join outcome and worker exit
    if joined {
        for (tid, s) in &obs.exits {
            if *s > jr {
                add(
                    format!("C18/join-before-worker-exit/{mode}"),
                    format!("worker thread {tid} ran its thread-local destructors after join had returned"),
                );
            }
        }
        if !obs.census_stuck.is_empty() {
            add(
                format!("C18/join-before-worker-exit/census/{mode}"),
                format!("worker threads still alive long after join returned: {:?}", obs.census_stuck),
            );
        }
        // every worker that ran a task must have logged its exit
        let ran: BTreeSet<u64> = obs
            .recs
            .iter()
            .filter(|r| !r.body.is_blocking() && r.starts.load(SeqCst) > 0)
            .map(|r| r.start_tid.load(SeqCst))
            .collect();
        let exited: BTreeSet<u64> = obs.exits.iter().map(|x| x.0).collect();
        if let Some(t) = ran.difference(&exited).next() {
            add(
                format!("C18/join-before-worker-exit/no-exit-event/{mode}"),
                format!("worker thread {t} ran tasks but had not finished exiting when join returned"),
            );
        }
        match (&obs.join_out, worker_died) {
            (JoinOut::Ok, false) => {}
            (JoinOut::Ok, true) | (JoinOut::IoErr(_), true) => add(
                format!("C18/join-swallowed-worker-panic/{fault}"),
                format!("a worker thread panicked ({fault}) but join returned {:?}", obs.join_out),
            ),
            (JoinOut::IoErr(e), false) => add(
                format!("C18/join-io-error/{mode}"),
                format!("join returned an io error without any fault: {e}"),
            ),
            (JoinOut::Blast(id), _) => {
                // the first panicked worker in thread order is resumed
                let want = doomed.iter().next().map(|(_, (_, id))| *id);
                if want != Some(*id) {
                    add(
                        "C18/join-wrong-panic-payload".into(),
                        format!("join resumed the panic of bomb {id}, expected {want:?} (lowest-index dead worker)"),
                    );
                }
            }
            (JoinOut::PanicStr(s), _) => {
                if !(case.bad_proactor && s.contains("cannot create compio runtime")) {
                    let from_repo = obs.unexpected_panics.iter().find(|p| p.0.contains("/repo/") || p.0.starts_with("compio"));
                    match from_repo {
                        Some((file, _, msg)) => add(
                            format!("C18/panic@{}", file.trim_start_matches("/repo/")),
                            format!("a worker panicked inside compio: {msg}"),
                        ),
                        None => inc.push(format!("join re-raised an unexpected panic: {s}")),
                    }
                }
            }
            (JoinOut::PanicTask, _) => add(
                format!("C18/task-panic-killed-worker/{mode}"),
                "a panicking task body took its worker thread down (join re-raised the task's payload)".into(),
            ),
            (JoinOut::PanicOther, _) => inc.push("join re-raised an unknown payload".into()),
            (JoinOut::NotRun, _) => {}
        }
        if case.bad_proactor && !matches!(obs.join_out, JoinOut::PanicStr(_)) && !matches!(obs.join_out, JoinOut::Ok | JoinOut::IoErr(_)) {
            add(
                "C18/join-wrong-panic-payload/start-failure".into(),
                format!("workers failed to start but join ended with {:?}", obs.join_out),
            );
        }
    }
    for (file, line, msg) in &obs.unexpected_panics {
        if file.contains("/repo/") && !msg.contains("cannot create compio runtime") {
            add(
                format!("C18/panic@{}", file.trim_start_matches("/repo/")),
                format!("panic inside compio at {file}:{line}: {msg}"),
            );
        } else if !file.contains("/repo/") {
            inc.push(format!("harness panic at {file}:{line}: {msg}"));
        }
    }

    let join_class = if !joined {
        "not-joined"
    } else if unstarted_at_join > 0 {
        "join-with-unstarted"
    } else if running_at_join > 0 {
        "join-with-running"
    } else {
        "join-after-drain"
    };
    Verdicts { findings: f, inconclusive: inc, join_class, fault, cancelled_rx, rejected, worker_died }
}

// ---------------------------------------------------------------------------
// driver
// ---------------------------------------------------------------------------

enum CaseEnd {
    Done(Obs),
    /// join never returned and the rest of the process is logically quiescent
    JoinDeadlock(String),
    /// no verdict; the stuck threads are still active, the process should stop
    Watchdog(String),
}

fn run_with_watchdog(case: &Case, sched_seed: u64) -> CaseEnd {
    let (tx, rx) = mpsc::channel();
    let c = case.clone();
    let progress = Arc::new(Progress::default());
    let p2 = progress.clone();
    if std::thread::Builder::new()
        .name("v18-case".into())
        .spawn(move || {
            let o = run_case(&c, sched_seed, &p2);
            let _ = tx.send(o);
        })
        .is_err()
    {
        return CaseEnd::Watchdog("cannot spawn the case thread".into());
    }
    if let Ok(o) = rx.recv_timeout(Duration::from_secs(20)) {
        return CaseEnd::Done(o);
    }
    // Not finished. A verdict needs logical quiescence: the case is inside
    // `join` and no other thread of the process runs any more.
    if std::env::var_os("C18_HANG_PAUSE").is_some() {
        eprintln!("c18: watchdog fired, pid {} pausing for inspection", std::process::id());
        std::thread::sleep(Duration::from_secs(600));
    }
    let phase = progress.phase.load(SeqCst);
    if phase == 3 {
        let me = gettid();
        let case_tid = progress.case_tid.load(SeqCst);
        // longer than the pool's idle timeout (5 s) and every timer of the workload
        if let Some(desc) = quiescent(&[me, case_tid], Duration::from_secs(6), 2) {
            if progress.phase.load(SeqCst) == 3 {
                return CaseEnd::JoinDeadlock(desc);
            }
        }
    }
    if let Ok(o) = rx.recv_timeout(Duration::from_secs(5)) {
        return CaseEnd::Done(o);
    }
    CaseEnd::Watchdog(format!("case did not finish (phase {phase}), threads still active"))
}

fn bucket(n: usize) -> &'static str {
    match n {
        0 => "0",
        1..=4 => "1-4",
        5..=80 => "5-80",
        81..=300 => "81-300",
        _ => ">300",
    }
}

/// Evaluate one case; returns false if the process should stop (watchdog).
fn eval_case(rep: &mut Report, case: &Case, sched_seed: u64) -> (bool, bool) {
    let obs = match run_with_watchdog(case, sched_seed) {
        CaseEnd::Done(o) => o,
        CaseEnd::JoinDeadlock(desc) => {
            let mode = if case.concurrent { "concurrent" } else { "sequential" };
            rep.eval(Some(format!("w{}/{}/d{}/join-deadlock", case.workers, mode, case.lists.len())));
            rep.violation(
                &format!("C18/join-never-returns/quiescent-deadlock/{mode}"),
                &format!(
                    "Dispatcher::join did not return and every other thread of the process is asleep for good \
                     (no context switch in 6 s, longer than any timeout in play): {desc}"
                ),
                json!({"case": case.to_json(), "sched_seed": sched_seed, "reps": 3000}),
            );
            // the stuck threads sleep forever: harmless, go on
            return (true, true);
        }
        CaseEnd::Watchdog(why) => {
            rep.inconclusive(&format!("watchdog: {why} (no verdict)"));
            rep.note(format!("watchdog: sched_seed {sched_seed}; case {}", case.to_json()));
            return (false, false);
        }
    };
    let v = judge(case, &obs);
    let mode = if case.concurrent { "con" } else { "seq" };
    let ndisp = case.lists.len();
    let nontrivial = ndisp >= 2 || v.join_class != "join-after-drain";
    let sig = format!(
        "w{}/{}/d{}/{}/fault={}/n={}",
        case.workers,
        mode,
        ndisp,
        v.join_class,
        v.fault,
        bucket(case.ntasks())
    );
    rep.eval(nontrivial.then_some(sig.clone()));
    rep.count("tasks_dispatched", obs.recs.iter().filter(|r| r.accepted.load(SeqCst) != 0).count() as i64);
    rep.count("tasks_started", obs.recs.iter().filter(|r| r.starts.load(SeqCst) > 0).count() as i64);
    rep.count("receivers_cancelled", v.cancelled_rx as i64);
    rep.count("receivers_dropped_at_once_by_caller", FORGOTTEN.swap(0, SeqCst) as i64);
    rep.count("started_on_named_worker_not_in_rollcall(observation)", OFF_ROLL.swap(0, SeqCst) as i64);
    rep.count("dispatch_rejected", v.rejected as i64);
    rep.count("census_late_reaps", (obs.census_late > 0) as i64);
    rep.max("workers", case.workers as i64);
    rep.max("dispatchers", ndisp as i64);
    rep.max("tasks_per_case", case.ntasks() as i64);
    rep.floor("saw-join-with-unstarted-tasks", v.join_class == "join-with-unstarted");
    rep.floor("saw-join-with-running-tasks", v.join_class == "join-with-running");
    rep.floor("saw-cancelled-receiver", v.cancelled_rx > 0);
    rep.floor("saw-worker-panic-resumed-by-join", v.worker_died && matches!(obs.join_out, JoinOut::Blast(_) | JoinOut::PanicStr(_)));
    rep.floor("saw-dispatch-err", v.rejected > 0);
    rep.floor("saw-sequential", !case.concurrent);
    rep.floor("saw-concurrent", case.concurrent);
    rep.floor("saw-8-dispatchers", ndisp >= 8);
    rep.floor("saw-rollcall-census", !obs.roll_tids.is_empty());
    rep.floor("saw-proc-census-of-all-workers", obs.census_tids >= case.workers);
    if rep.want_sample() && nontrivial {
        rep.sample(json!({"signature": sig, "case": case.to_json(), "join": format!("{:?}", obs.join_out)}));
    }
    for i in &v.inconclusive {
        rep.inconclusive(i);
    }
    if let Some(i) = v.inconclusive.first() {
        let mut c = case.to_json().to_string();
        c.truncate(700);
        rep.note(format!("inconclusive: {i}; sched_seed {sched_seed}; case {c}"));
    }
    let violated = !v.findings.is_empty();
    for fd in v.findings {
        rep.violation(&fd.sig, &fd.what, json!({"case": case.to_json(), "sched_seed": sched_seed, "reps": 300}));
    }
    (true, violated)
}

pub fn main(args: &Args) {
    install_filter_hook();
    unsafe {
        libc::signal(libc::SIGABRT, on_abort as extern "C" fn(libc::c_int) as usize);
    }
    let leg = args.str("leg", "plain");
    let mut rep = Report::from_args("C18", &leg, args);
    rep.set_exhaustive(false);

    if let Some(path) = args.get("replay") {
        let txt = std::fs::read_to_string(path).unwrap_or_default();
        let v: Value = vcommon::serde_json::from_str(&txt).unwrap_or(Value::Null);
        let prog = &v["program"];
        match Case::from_json(&prog["case"]) {
            Some(case) => {
                let reps = args.usize("reps", prog["reps"].as_u64().unwrap_or(300) as usize);
                let s0 = prog["sched_seed"].as_u64().unwrap_or(1);
                for i in 0..reps {
                    let (go, violated) = eval_case(&mut rep, &case, s0.wrapping_add(i as u64));
                    if !go || violated || rep.out_of_time() {
                        break;
                    }
                }
            }
            None => rep.inconclusive("replay file has no usable program"),
        }
        rep.finish();
        return;
    }

    let mut rng = Rng::new(args.seed()).fork(args.shard() + 1);
    let iters = args.iters(150, 1500);
    let big_every = args.usize("big-every", 12);
    for i in 0..iters {
        if rep.out_of_time() {
            break;
        }
        let big = big_every > 0 && i % big_every == big_every - 1;
        let case = gen_case(&mut rng, big);
        let s = rng.next_u64();
        let (go, _) = eval_case(&mut rep, &case, s);
        if !go {
            break;
        }
    }
    rep.finish();
}
