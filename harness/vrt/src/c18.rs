//! C18 dispatcher starts every accepted task exactly once — not built yet.

use vcommon::Args;

pub fn main(_args: &Args) {
    eprintln!("c18: not implemented");
    std::process::exit(3);
}
