//! C19 actors: serial FIFO handling, lifecycle, names — not built yet.

use vcommon::Args;

pub fn main(_args: &Args) {
    eprintln!("c19: not implemented");
    std::process::exit(3);
}
