//! C20 — child processes: complete stdio and the real exit status.
//!
//! Every case spawns the helper `vchild` through `compio_process::Command` on
//! a fresh compio runtime (io_uring or poll driver) and plays one parent
//! scenario: who is started first (`wait`, readers, writer), which API reads /
//! writes, in which chunk sizes. Oracles (all references are plain `libc` /
//! procfs, never compio):
//!
//! * stdout / stderr bytes == the position-dependent pattern, complete, then
//!   EOF; the child's own account of its stdin (length + hash, last line of its
//!   stdout) == what the parent wrote;
//! * status == what the child's last-act marker says it was about to do (and
//!   what the case dictates); at the moment `wait` returned the marker exists,
//!   its monotonic timestamp is in the past, and a reference
//!   `waitpid(pid, WNOHANG)` says `ECHILD` (reaped once, by compio);
//! * no hang: decided by logical quiescence (see `c20_run.rs::drive` and the
//!   sentinel in `c20_sys.rs`), never by a timer; the watchdog only yields
//!   `inconclusive`.

#[path = "c20_case.rs"]
mod case;
#[path = "c20_proto.rs"]
mod proto;
#[path = "c20_run.rs"]
mod run;
#[path = "c20_sys.rs"]
mod sys;

use std::{os::unix::process::ExitStatusExt, time::Duration};

use case::{Case, ExitKind, Order, PIPE_CAP};
use run::{CaseRun, Env, Hang, StreamObs};
use sys::RefWait;
use vcommon::{Args, Report, Rng, Value, json, panics};

#[derive(Default)]
struct Judgement {
    violations: Vec<(String, String)>,
    inconclusive: Vec<String>,
}

impl Judgement {
    fn v(&mut self, sig: String, what: String) {
        self.violations.push((sig, what));
    }
}

fn judge_stream(j: &mut Judgement, case: &Case, name: &str, api: &str, s: &StreamObs, expect: usize, trailer: bool) {
    let drv = case.drv.name();
    let want_total = expect as u64 + if trailer { proto::REPORT_LINE_LEN as u64 } else { 0 };
    if let Some(o) = &s.overrun {
        j.v(format!("C20/read-overrun/{name}/{api}/{drv}"), o.clone());
    }
    if let Some(e) = &s.err {
        j.v(
            format!("C20/read-error/{name}/{api}/{drv}"),
            format!("reading the child's {name} failed after {} bytes: {e}", s.v.pos),
        );
        return;
    }
    if let Some(bad) = s.v.first_bad {
        j.v(
            format!("C20/stream-corrupt/{name}/{api}/{drv}"),
            format!(
                "{name}: byte at offset {bad} is not the byte the child wrote there ({} of {expect} pattern bytes received)",
                s.v.pos.min(expect as u64)
            ),
        );
    }
    if s.v.pos < want_total {
        j.v(
            format!("C20/stream-short/{name}/{api}/{drv}"),
            format!("{name}: end of file after {} bytes, the child wrote {want_total}", s.v.pos),
        );
    } else if s.v.extra > 0 {
        j.v(
            format!("C20/stream-extra/{name}/{api}/{drv}"),
            format!("{name}: {} bytes beyond the {want_total} the child wrote", s.v.extra),
        );
    } else if !s.eof {
        j.v(
            format!("C20/no-eof/{name}/{api}/{drv}"),
            format!("{name}: all {want_total} bytes received but no end of file reported"),
        );
    }
}

fn expected_status(exit: ExitKind) -> (Option<i32>, Option<i32>) {
    match exit {
        ExitKind::Code(c) => (Some(c), None),
        ExitKind::SelfSig(s) | ExitKind::ParentKill(s) => (None, Some(s)),
    }
}

fn judge(case: &Case, run: &CaseRun) -> Judgement {
    let mut j = Judgement::default();
    let drv = case.drv.name();
    let order = if case.order == Order::WaitFirst && !case.strict_wait_first() {
        "wait-started-first"
    } else {
        case.order.name()
    };
    if let Some(e) = &run.setup_err {
        j.inconclusive.push(format!("setup: {e}"));
        return j;
    }
    let api = match case.order {
        Order::WaitWithOutput => "wait_with_output",
        Order::CmdOutput => "output",
        Order::CmdStatus => "status",
        _ => "wait",
    };
    match &run.hang {
        Some(Hang::Stall(what)) => {
            j.v(
                format!("C20/stall/{what}/{drv}"),
                format!(
                    "{what}: the reference (poll(2) / process state) says the operation can complete, yet over {} further \
                     runtime iterations neither the parent completed anything nor the child made a step ({order}); trace {:?}",
                    run::CONFIRM_ITERS, run.trace
                ),
            );
            return j;
        }
        Some(Hang::Deadlock { child, cause }) => {
            j.v(
                format!("C20/deadlock/{cause}/{api}/{drv}"),
                format!(
                    "child blocked in {child}, nothing the parent waits for is ready, nobody moved over {} runtime \
                     iterations ({cause}, {order}); trace {:?}",
                    run::CONFIRM_ITERS, run.trace
                ),
            );
            return j;
        }
        Some(Hang::ThreadBlocked { parent, child }) => {
            j.v(
                format!("C20/deadlock/runtime-thread-blocked-in-{parent}/{drv}"),
                format!(
                    "the runtime thread sits in a blocking {parent} on the child's pipe while the child is blocked in \
                     {child}: the parent cannot drive the other direction any more (wait-for cycle, stable over 8 samples)"
                ),
            );
            return j;
        }
        Some(Hang::Watchdog(w)) => {
            j.inconclusive.push(format!("watchdog ({order}/{drv}): {}", w.chars().take(160).collect::<String>()));
            return j;
        }
        None => {}
    }
    let Some(o) = &run.outcome else {
        j.inconclusive.push("no outcome".into());
        return j;
    };
    if let Some(e) = &o.spawn_err {
        j.inconclusive.push(format!("spawn failed: {e}"));
        return j;
    }
    if let Some(e) = &o.kill_err {
        j.inconclusive.push(format!("could not kill the child: {e}"));
        return j;
    }

    // --- wait ----------------------------------------------------------------
    let mut child_failed: Option<String> = None;
    match &o.wait {
        None => j.inconclusive.push("wait was never observed".into()),
        Some(w) => {
            let marker = match &w.marker {
                Ok(m) => m.clone(),
                Err(e) => {
                    j.v(
                        format!("C20/wait-before-exit/marker-incomplete/{api}/{drv}"),
                        format!("{api} returned while the child was still writing its last-act marker: {e}"),
                    );
                    None
                }
            };
            match (&w.status, &marker) {
                (Err(e), None) if w.pid.is_none() => j.inconclusive.push(format!("{api} failed, no child seen: {e}")),
                (Err(e), _) => j.v(format!("C20/wait-error/{api}/{drv}"), format!("{api} failed: {e}")),
                (Ok(st), _) => {
                    if let Some(m) = &marker
                        && m.intended.starts_with(&format!("exit:{}", proto::CHILD_FAILED))
                    {
                        child_failed = Some(m.detail.clone());
                    }
                    if w.marker.is_ok() && marker.is_none() {
                        j.v(
                            format!("C20/wait-before-exit/no-marker/{api}/{drv}"),
                            format!("{api} returned {st:?} but the child has not performed its last act yet (marker file absent)"),
                        );
                    }
                    if let Some(m) = &marker {
                        if m.ts_ns > w.t_ns {
                            j.v(
                                format!("C20/wait-before-exit/marker-later/{api}/{drv}"),
                                format!("{api} returned at {} ns, the child's last act happened at {} ns", w.t_ns, m.ts_ns),
                            );
                        }
                        // the real status according to the child itself
                        let real = match m.intended.as_str() {
                            "pause" => expected_status(case.exit),
                            s => match s.split_once(':') {
                                Some(("exit", c)) => (c.parse().ok(), None),
                                Some(("sig", s)) => (None, s.parse().ok()),
                                _ => (None, None),
                            },
                        };
                        if (st.code(), st.signal()) != real {
                            j.v(
                                format!("C20/wrong-status/{}/{api}/{drv}", case.exit.name()),
                                format!(
                                    "{api} returned code {:?} signal {:?}; the child ended with code {:?} signal {:?}",
                                    st.code(),
                                    st.signal(),
                                    real.0,
                                    real.1
                                ),
                            );
                        } else if child_failed.is_none() && real != expected_status(case.exit) {
                            j.inconclusive.push(format!("child ended differently than configured: {}", m.intended));
                        }
                    }
                    match w.refwait {
                        Some(RefWait::NoChild) => {}
                        Some(RefWait::Running) => j.v(
                            format!("C20/wait-before-exit/still-running/{api}/{drv}"),
                            format!("{api} returned {st:?} while the child is still running (reference waitpid(WNOHANG) = 0)"),
                        ),
                        Some(RefWait::Reaped(raw)) => j.v(
                            format!("C20/not-reaped/{api}/{drv}"),
                            format!(
                                "{api} returned {st:?} but the child was still waitable: the reference waitpid reaped it (raw status {raw:#x})"
                            ),
                        ),
                        Some(RefWait::Error(e)) => j.inconclusive.push(format!("reference waitpid failed: errno {e}")),
                        None => j.inconclusive.push("child pid unknown, reaping not checked".into()),
                    }
                }
            }
        }
    }
    if run.strays > 0 && j.violations.is_empty() {
        j.v(
            format!("C20/child-left-behind/{api}/{drv}"),
            format!("{} child process(es) still existed (running or zombie) after the case had completed", run.strays),
        );
    }

    // --- streams ---------------------------------------------------------------
    let rapi = match case.order {
        Order::WaitWithOutput => "wait_with_output",
        Order::CmdOutput => "output",
        _ => case.rapi.name(),
    };
    if let Some(s) = &o.out {
        judge_stream(&mut j, case, "stdout", rapi, s, case.stdout_expect().1, case.has_trailer());
        if case.has_trailer() && s.v.trailer.len() == proto::REPORT_LINE_LEN && s.v.first_bad.is_none() {
            match (proto::parse_report_line(&s.v.trailer), &o.wr) {
                (None, _) => j.v(
                    format!("C20/stream-corrupt/stdout-trailer/{rapi}/{drv}"),
                    format!("the child's stdin report line arrived garbled: {:?}", String::from_utf8_lossy(&s.v.trailer)),
                ),
                (Some((len, hash)), Some(wr)) if wr.err.is_none() && wr.overrun.is_none() => {
                    let mut want = proto::FNV_INIT;
                    let mut buf = vec![0u8; 65536];
                    let mut off = 0u64;
                    while off < wr.written {
                        let n = ((wr.written - off) as usize).min(buf.len());
                        proto::fill(proto::SALT_IN, off, &mut buf[..n]);
                        want = proto::fnv(want, &buf[..n]);
                        off += n as u64;
                    }
                    let wapi = case.wapi.name();
                    if len < wr.written {
                        j.v(
                            format!("C20/stdin-lost/{wapi}/{drv}"),
                            format!("the parent's writes reported {} bytes accepted, the child read {len} until EOF", wr.written),
                        );
                    } else if len > wr.written {
                        j.v(
                            format!("C20/stdin-extra/{wapi}/{drv}"),
                            format!("the parent's writes reported {} bytes accepted, the child read {len}", wr.written),
                        );
                    } else if hash != want {
                        j.v(
                            format!("C20/stdin-corrupt/{wapi}/{drv}"),
                            format!("the child read {len} bytes as written, but their hash differs (reordered or altered)"),
                        );
                    }
                }
                _ => {}
            }
        }
    } else if o.wait.as_ref().is_some_and(|w| w.status.is_ok()) && case.order != Order::CmdStatus {
        j.inconclusive.push("stdout not observed".into());
    }
    if let Some(s) = &o.err {
        judge_stream(&mut j, case, "stderr", rapi, s, case.err_n, false);
    }
    if let Some(wr) = &o.wr {
        let wapi = case.wapi.name();
        if let Some(ov) = &wr.overrun {
            j.v(format!("C20/write-overrun/{wapi}/{drv}"), ov.clone());
        }
        if let Some(e) = &wr.err {
            j.v(
                format!("C20/write-error/{wapi}/{drv}"),
                format!("writing to the child's stdin failed after {} of {} bytes: {e}", wr.written, case.in_n),
            );
        } else if wr.written != case.in_n as u64 && wr.overrun.is_none() {
            j.inconclusive.push("writer stopped early without error".into());
        }
    }
    if let Some(why) = child_failed
        && j.violations.is_empty()
    {
        j.inconclusive.push(format!("helper child failed on its own: {why}"));
    }
    j
}

fn replay_value(case: &Case) -> Value {
    json!({"case": case.to_json(), "how": "vrt c20 --replay <this file>; the child is harness/vchild"})
}

struct Ctx {
    env: Env,
    watchdog: Duration,
    idx: u64,
}

fn eval_case(rep: &mut Report, ctx: &mut Ctx, case: &Case) -> (Judgement, Option<CaseRun>) {
    ctx.idx += 1;
    let idx = ctx.idx;
    let r = panics::catch(|| run::run_case(case, &ctx.env, idx, ctx.watchdog));
    // whatever happened: no child may survive the case
    let late_strays = sys::reap_strays();
    let (j, run) = match r {
        Ok(run) => {
            let _ = std::fs::remove_file(&run.marker_path);
            (judge(case, &run), Some(run))
        }
        Err(info) => {
            sys::ACTIVE.store(false, std::sync::atomic::Ordering::SeqCst);
            let mut j = Judgement::default();
            match info.origin() {
                panics::Origin::Repo(loc) => j.v(
                    format!("C20/{}/{}/{}", info.sig(), case.order.name(), case.drv.name()),
                    format!("panic inside compio at {loc}: {}", info.message),
                ),
                o => j.inconclusive.push(format!("harness panic {o:?}: {}", info.message)),
            }
            (j, None)
        }
    };
    rep.eval(Some(case.signature()));
    rep.count("children", 1);
    rep.count("late_strays", late_strays as i64);
    if let Some(run) = &run {
        rep.max("case_wall_ms", run.wall_ms as i64);
        if std::env::var_os("C20_SLOW").is_some() && run.wall_ms > 400 {
            eprintln!("[slow] {} ms, {} iterations: {}", run.wall_ms, run.polls, case.to_json());
        }
        rep.max("runtime_iterations", run.polls as i64);
        if let Some(o) = &run.outcome {
            if let Some(w) = &o.wait {
                if let (Ok(Some(m)), Ok(_)) = (&w.marker, &w.status) {
                    rep.count("marker_checked", 1);
                    rep.max("wait_latency_after_last_act_us", (w.t_ns.saturating_sub(m.ts_ns) / 1000) as i64);
                }
                if w.refwait == Some(RefWait::NoChild) {
                    rep.count("reap_confirmed", 1);
                }
            }
            let both = case.uses_stdin() && case.in_n > PIPE_CAP && (case.stdout_expect().1 > PIPE_CAP || case.err_n > PIPE_CAP);
            let clean = j.violations.is_empty() && j.inconclusive.is_empty();
            rep.floor("both-directions-above-pipe-capacity-completed", both && clean);
            rep.floor("output-drained-only-after-wait-returned", o.drained_after_wait && case.volume() > 0 && clean);
            rep.floor("signal-status-seen", clean && !matches!(case.exit, ExitKind::Code(_)));
            rep.floor("nonzero-exit-code-seen", clean && matches!(case.exit, ExitKind::Code(c) if c != 0));
            rep.floor(&format!("driver-{}-completed", case.drv.name()), clean);
            rep.floor("hold-before-exit-and-wait-pending", clean && case.hold_ms > 0);
            if let Some(s) = &o.out {
                rep.count("read_ops", s.reads as i64);
            }
            if let Some(w) = &o.wr {
                rep.count("write_ops", w.writes as i64);
            }
        }
    }
    (j, run)
}

fn record(rep: &mut Report, case: &Case, j: &Judgement) {
    for (sig, what) in &j.violations {
        rep.violation(sig, &format!("{what} [case: {}]", case.signature()), replay_value(case));
    }
    for r in &j.inconclusive {
        rep.inconclusive(r);
        if r.starts_with("watchdog") || r.starts_with("harness panic") {
            rep.note(format!("inconclusive ({}) for case {}", r.chars().take(60).collect::<String>(), case.to_json()));
        }
    }
}

pub fn main(args: &Args) {
    let leg = args.str("leg", "plain");
    let mut rep = Report::from_args("C20", &leg, args);
    rep.note(
        "compio-process is built without the nightly-only `linux_pidfd` feature (default toolchain): wait() = blocking \
         waitpid on the driver's thread pool; the pidfd path (PollOnce on the pidfd) is NOT exercised",
    );
    let vchild = std::env::current_exe().ok().and_then(|p| p.parent().map(|d| d.join("vchild")));
    let Some(vchild) = vchild.filter(|p| p.is_file()) else {
        rep.inconclusive("vchild binary missing");
        rep.finish();
        return;
    };
    let dir = match tempfile::Builder::new().prefix("c20-").tempdir() {
        Ok(d) => d,
        Err(e) => {
            rep.inconclusive(&format!("no temp dir: {e}"));
            rep.finish();
            return;
        }
    };
    let watchdog = Duration::from_millis(args.u64("watchdog-ms", 30_000));
    {
        let leg = leg.clone();
        sys::start_sentinel(watchdog, move |why| {
            // last resort: the runtime thread cannot be brought back
            let mut r = Report::new("C20", &leg, 0);
            r.inconclusive(&format!("shard aborted: {why}"));
            r.finish();
            sys::reap_strays();
            std::process::exit(0);
        });
    }
    let mut ctx = Ctx {
        env: Env {
            vchild,
            dir: dir.path().to_path_buf(),
        },
        watchdog,
        idx: 0,
    };

    if let Some(path) = args.get("replay") {
        let prog: Option<Value> = std::fs::read_to_string(path)
            .ok()
            .and_then(|s| vcommon::serde_json::from_str::<Value>(&s).ok())
            .and_then(|v| v.get("program").cloned());
        match prog.as_ref().and_then(|p| p.get("case")).and_then(Case::from_json) {
            None => rep.inconclusive("replay file has no usable program"),
            Some(case) => {
                for _ in 0..args.usize("times", 3) {
                    let (j, run) = eval_case(&mut rep, &mut ctx, &case);
                    record(&mut rep, &case, &j);
                    if rep.want_sample() {
                        rep.sample(json!({"case": case.to_json(), "violations": j.violations.len(),
                            "wall_ms": run.as_ref().map(|r| r.wall_ms)}));
                    }
                }
            }
        }
        rep.count("strays_at_end", sys::reap_strays() as i64);
        rep.finish();
        return;
    }

    let thorough = args.thorough();
    let shard = args.shard();
    let nshards = args.nshards();
    let base = Rng::new(args.seed());
    let mut rng = base.fork(shard + 1);
    let max_cases = args.iters(usize::MAX, usize::MAX);
    let stdin_left_allowed = args.usize("stdin-left", 1) != 0;
    let only_drv = args.get("only-drv").and_then(case::Drv::from_name);

    // covering prefix (same list in every shard, dealt round-robin), then
    // random cases until the budget is used
    let mut cover_rng = base.fork(0xC20);
    let cover = case::covering(&mut cover_rng);
    let mut n = 0usize;
    let mut it = cover.into_iter().enumerate().filter(|(i, _)| *i as u64 % nshards == shard).map(|(_, f)| f);
    let mut covering_done = false;
    let has_budget = args.get("budget-ms").is_some() || args.get("iters").is_some();
    loop {
        if n >= max_cases || rep.out_of_time() {
            break;
        }
        let fixed = it.next();
        if fixed.is_none() {
            covering_done = true;
            if !has_budget {
                break; // without --budget-ms / --iters: covering prefix only
            }
        }
        let mut case = case::gen_case(&mut rng, thorough, fixed);
        if !stdin_left_allowed {
            case.stdin_left = false;
        }
        if only_drv.is_some_and(|d| d != case.drv) {
            continue;
        }
        n += 1;
        let (j, run) = eval_case(&mut rep, &mut ctx, &case);
        record(&mut rep, &case, &j);
        if rep.want_sample()
            && let Some(run) = &run
        {
            rep.sample(json!({
                "case": case.to_json(),
                "signature": case.signature(),
                "wall_ms": run.wall_ms,
                "runtime_iterations": run.polls,
                "status": run.outcome.as_ref().and_then(|o| o.wait.as_ref()).map(|w| format!("{:?}", w.status)),
                "stdout_bytes": run.outcome.as_ref().and_then(|o| o.out.as_ref()).map(|s| s.v.pos),
                "stderr_bytes": run.outcome.as_ref().and_then(|o| o.err.as_ref()).map(|s| s.v.pos),
                "stdin_bytes": run.outcome.as_ref().and_then(|o| o.wr.as_ref()).map(|s| s.written),
                "verdict": if !j.violations.is_empty() { "violated" } else if !j.inconclusive.is_empty() { "inconclusive" } else { "held" },
            }));
        }
    }
    rep.floor("covering-prefix-completed", covering_done);
    rep.set_exhaustive(false);
    let strays = sys::reap_strays();
    rep.count("strays_at_end", strays as i64);
    rep.finish();
    drop(dir);
}
