//! C20 child processes: stdio and exit status — not built yet.

use vcommon::Args;

pub fn main(_args: &Args) {
    eprintln!("c20: not implemented");
    std::process::exit(3);
}
