//! C20 — the case (one child process + one parent scenario) and its
//! generation / JSON form for replay.

use vcommon::{Rng, Value, json};

pub const PIPE_CAP: usize = 65536;
pub const PAYLOADS: [usize; 6] = [0, 1, 4095, 65536, 65537, 1 << 20];
pub const CHUNKS: [usize; 4] = [1, 7, 4096, 65536];

macro_rules! named_enum {
    ($name:ident { $($v:ident => $s:expr),+ $(,)? }) => {
        #[derive(Clone, Copy, PartialEq, Eq, Debug)]
        pub enum $name { $($v),+ }
        impl $name {
            #[allow(dead_code)]
            pub const ALL: &'static [$name] = &[$($name::$v),+];
            pub fn name(self) -> &'static str { match self { $($name::$v => $s),+ } }
            pub fn from_name(s: &str) -> Option<Self> { match s { $($s => Some($name::$v),)+ _ => None } }
        }
    };
}

named_enum!(Drv { Iour => "iour", Poll => "poll" });
named_enum!(Mode { Bare => "bare", Produce => "produce", Echo => "echo", Sink => "sink", Duplex => "duplex" });
named_enum!(Order {
    WaitFirst => "wait-first",
    DrainFirst => "drain-first",
    Concurrent => "concurrent",
    WaitWithOutput => "wait_with_output",
    CmdOutput => "cmd-output",
    CmdStatus => "cmd-status",
});
named_enum!(ReadApi { Read => "read", Managed => "read_managed", ToEnd => "read_to_end" });
named_enum!(WriteApi { Write => "write", WriteAll => "write_all" });

#[derive(Clone, Copy, PartialEq, Eq, Debug)]
pub enum ExitKind {
    Code(i32),
    /// The child kills itself with this signal.
    SelfSig(i32),
    /// The child pauses; the parent kills it with this signal.
    ParentKill(i32),
}

impl ExitKind {
    pub fn name(self) -> String {
        match self {
            ExitKind::Code(c) => format!("code{c}"),
            ExitKind::SelfSig(s) => format!("selfsig{s}"),
            ExitKind::ParentKill(s) => format!("parentkill{s}"),
        }
    }

    pub fn from_name(s: &str) -> Option<Self> {
        if let Some(c) = s.strip_prefix("code") {
            return c.parse().ok().map(ExitKind::Code);
        }
        if let Some(c) = s.strip_prefix("selfsig") {
            return c.parse().ok().map(ExitKind::SelfSig);
        }
        if let Some(c) = s.strip_prefix("parentkill") {
            return c.parse().ok().map(ExitKind::ParentKill);
        }
        None
    }
}

#[derive(Clone, Debug)]
pub struct Case {
    pub drv: Drv,
    pub mode: Mode,
    pub out_n: usize,
    pub err_n: usize,
    pub in_n: usize,
    /// chunk of every read/write the child issues
    pub cchunk: usize,
    /// parent read buffer size
    pub rchunk: usize,
    /// parent write size
    pub wchunk: usize,
    pub exit: ExitKind,
    pub order: Order,
    /// stdin is not taken out of `Child`: written through `child.stdin.as_mut()`
    /// and then left to `wait()` / `wait_with_output()`.
    pub stdin_left: bool,
    pub close_first: bool,
    pub hold_ms: u64,
    pub rapi: ReadApi,
    pub wapi: WriteApi,
    /// order in which the parent spawns its tasks
    pub perm: u64,
}

pub fn size_class(n: usize) -> &'static str {
    match n {
        0 => "0",
        1 => "1",
        2..=4095 => "<4K",
        4096..=65535 => "<64K",
        65536 => "64K",
        65537 => "64K+1",
        _ if n < (1 << 20) => "<1M",
        _ => "1M",
    }
}

pub fn chunk_class(n: usize) -> String {
    match n {
        1 | 7 | 4096 | 65536 => n.to_string(),
        _ => format!("~{}", size_class(n)),
    }
}

impl Case {
    pub fn uses_stdin(&self) -> bool {
        matches!(self.mode, Mode::Echo | Mode::Sink | Mode::Duplex)
    }

    pub fn has_trailer(&self) -> bool {
        matches!(self.mode, Mode::Sink | Mode::Duplex)
    }

    /// (salt, patterned bytes) expected on the child's stdout before the
    /// optional trailer.
    pub fn stdout_expect(&self) -> (u64, usize) {
        match self.mode {
            Mode::Echo => (super::proto::SALT_IN, self.in_n),
            _ => (super::proto::SALT_OUT, self.out_n),
        }
    }

    /// Largest volume through any one pipe.
    pub fn volume(&self) -> usize {
        self.out_n.max(self.err_n).max(self.in_n)
    }

    /// Whether the child can finish all of its stdio without anybody reading
    /// its stdout/stderr (so that "wait first, drain afterwards" is a legal
    /// parent). Conservative: small writes waste the tail of each pipe page.
    pub fn outputs_fit_in_pipes(&self) -> bool {
        fn pages(n: usize, chunk: usize) -> usize {
            if n == 0 {
                return 0;
            }
            let usable = if chunk % 4096 == 0 { 4096 } else { 4096usize.saturating_sub(chunk - 1).max(1) };
            n.div_ceil(usable)
        }
        match self.mode {
            Mode::Echo => self.in_n <= 4095,
            _ => {
                let out_pages = pages(self.out_n, self.cchunk) + usize::from(self.has_trailer());
                out_pages <= 16 && pages(self.err_n, self.cchunk) <= 16
            }
        }
    }

    /// "wait first" can be taken literally (nothing is read before `wait`
    /// returned) only if the child does not need the parent to read.
    pub fn strict_wait_first(&self) -> bool {
        self.order == Order::WaitFirst && self.outputs_fit_in_pipes()
    }

    pub fn child_args(&self, marker: &str) -> Vec<String> {
        let mut v = vec![
            format!(
                "in={}",
                match self.mode {
                    Mode::Echo => "echo",
                    Mode::Sink | Mode::Duplex => "sink",
                    _ => "none",
                }
            ),
            format!("out={}", if self.mode == Mode::Echo { 0 } else { self.out_n }),
            format!("err={}", self.err_n),
            format!("chunk={}", self.cchunk),
            format!("closefirst={}", self.close_first as u8),
            format!("hold={}", self.hold_ms),
            format!("marker={marker}"),
        ];
        v.push(match self.exit {
            ExitKind::Code(c) => format!("exit={c}"),
            ExitKind::SelfSig(s) => format!("sig={s}"),
            ExitKind::ParentKill(_) => "pause=1".to_string(),
        });
        v
    }

    /// Diversity signature: (payload class, chunk class, direction mix, exit
    /// kind, wait order, driver).
    pub fn signature(&self) -> String {
        let order = if self.order == Order::WaitFirst && !self.strict_wait_first() {
            "wait-started-first"
        } else {
            self.order.name()
        };
        format!(
            "pay:in{}/out{}/err{} chunk:c{}/r{}/w{} mix:{}{} exit:{} order:{} drv:{}",
            size_class(self.in_n),
            size_class(self.out_n),
            size_class(self.err_n),
            chunk_class(self.cchunk),
            chunk_class(self.rchunk),
            chunk_class(self.wchunk),
            self.mode.name(),
            if self.stdin_left { "+stdin-left" } else { "" },
            self.exit.name(),
            order,
            self.drv.name()
        )
    }

    pub fn to_json(&self) -> Value {
        json!({
            "drv": self.drv.name(), "mode": self.mode.name(),
            "out_n": self.out_n, "err_n": self.err_n, "in_n": self.in_n,
            "cchunk": self.cchunk, "rchunk": self.rchunk, "wchunk": self.wchunk,
            "exit": self.exit.name(), "order": self.order.name(),
            "stdin_left": self.stdin_left, "close_first": self.close_first,
            "hold_ms": self.hold_ms, "rapi": self.rapi.name(), "wapi": self.wapi.name(),
            "perm": self.perm,
        })
    }

    pub fn from_json(v: &Value) -> Option<Case> {
        let s = |k: &str| v.get(k).and_then(|x| x.as_str());
        let n = |k: &str| v.get(k).and_then(|x| x.as_u64());
        let b = |k: &str| v.get(k).and_then(|x| x.as_bool());
        let mut c = Case {
            drv: Drv::from_name(s("drv")?)?,
            mode: Mode::from_name(s("mode")?)?,
            out_n: n("out_n")? as usize,
            err_n: n("err_n")? as usize,
            in_n: n("in_n")? as usize,
            cchunk: n("cchunk")? as usize,
            rchunk: n("rchunk")? as usize,
            wchunk: n("wchunk")? as usize,
            exit: ExitKind::from_name(s("exit")?)?,
            order: Order::from_name(s("order")?)?,
            stdin_left: b("stdin_left").unwrap_or(false),
            close_first: b("close_first").unwrap_or(false),
            hold_ms: n("hold_ms").unwrap_or(0),
            rapi: ReadApi::from_name(s("rapi").unwrap_or("read"))?,
            wapi: WriteApi::from_name(s("wapi").unwrap_or("write"))?,
            perm: n("perm").unwrap_or(0),
        };
        c.normalise();
        Some(c)
    }

    /// Make the combination legal (idempotent).
    pub fn normalise(&mut self) {
        self.cchunk = self.cchunk.max(1);
        self.rchunk = self.rchunk.max(1);
        self.wchunk = self.wchunk.max(1);
        match self.mode {
            Mode::Bare => {
                self.out_n = 0;
                self.err_n = 0;
                self.in_n = 0;
            }
            Mode::Produce => self.in_n = 0,
            Mode::Echo => {
                self.out_n = 0;
            }
            Mode::Sink => self.out_n = 0,
            Mode::Duplex => {}
        }
        match self.order {
            Order::CmdStatus => {
                // nothing is piped: only the status is observable
                self.mode = Mode::Bare;
                self.out_n = 0;
                self.err_n = 0;
                self.in_n = 0;
            }
            Order::CmdOutput => {
                // `output()` gives no access to stdin
                if self.uses_stdin() {
                    self.mode = Mode::Produce;
                    self.in_n = 0;
                }
            }
            _ => {}
        }
        if !self.uses_stdin() || !matches!(self.order, Order::WaitFirst | Order::WaitWithOutput) {
            self.stdin_left = false;
        }
        if self.stdin_left && self.order == Order::WaitWithOutput && !self.outputs_fit_in_pipes() {
            // the parent writes before wait_with_output (the only reader) runs
            self.stdin_left = false;
        }
        if matches!(self.exit, ExitKind::ParentKill(_)) && self.order == Order::DrainFirst {
            // otherwise EOF never comes before the kill
            self.close_first = true;
        }
    }
}

fn pick_chunk(rng: &mut Rng, volume: usize, thorough: bool) -> usize {
    loop {
        let c = *rng.pick(&CHUNKS);
        let ok = match c {
            1 => volume <= 4095,
            7 => volume <= 65537 || (thorough && rng.chance(1, 6)),
            _ => true,
        };
        if ok {
            return c;
        }
    }
}

fn pick_payload(rng: &mut Rng, thorough: bool) -> usize {
    // 1 MiB is the expensive class
    let w: [usize; 6] = if thorough { [2, 2, 3, 3, 3, 2] } else { [2, 2, 3, 3, 3, 1] };
    let total: usize = w.iter().sum();
    let mut r = rng.below(total);
    for (i, wi) in w.iter().enumerate() {
        if r < *wi {
            return PAYLOADS[i];
        }
        r -= wi;
    }
    PAYLOADS[0]
}

/// A random case; `fixed` pins (driver, mode, order, payload) for the
/// covering prefix of a run.
pub fn gen_case(rng: &mut Rng, thorough: bool, fixed: Option<(Drv, Mode, Order, usize)>) -> Case {
    let (drv, mode, order, pay) = match fixed {
        Some(f) => f,
        None => {
            let mode = *rng.pick(&[
                Mode::Produce,
                Mode::Produce,
                Mode::Echo,
                Mode::Echo,
                Mode::Echo,
                Mode::Sink,
                Mode::Sink,
                Mode::Duplex,
                Mode::Duplex,
                Mode::Duplex,
                Mode::Bare,
            ]);
            let order = *rng.pick(&[
                Order::WaitFirst,
                Order::WaitFirst,
                Order::DrainFirst,
                Order::DrainFirst,
                Order::Concurrent,
                Order::Concurrent,
                Order::WaitWithOutput,
                Order::WaitWithOutput,
                Order::CmdOutput,
                Order::CmdStatus,
            ]);
            (*rng.pick(Drv::ALL), mode, order, pick_payload(rng, thorough))
        }
    };
    let other = |rng: &mut Rng| {
        // the other pipes carry an independent class, rarely the expensive one
        let p = pick_payload(rng, thorough);
        if p == 1 << 20 && pay == 1 << 20 && !rng.chance(1, 4) { 65537 } else { p }
    };
    let (mut out_n, mut err_n, mut in_n) = (0, 0, 0);
    match mode {
        Mode::Bare => {}
        Mode::Produce => {
            out_n = pay;
            err_n = other(rng);
            if rng.chance(1, 2) {
                std::mem::swap(&mut out_n, &mut err_n);
            }
        }
        Mode::Echo => {
            in_n = pay;
            err_n = 0;
        }
        Mode::Sink => {
            in_n = pay;
            err_n = if rng.chance(1, 3) { other(rng) } else { 0 };
        }
        Mode::Duplex => {
            in_n = pay;
            out_n = other(rng);
            err_n = other(rng);
            match rng.below(3) {
                0 => std::mem::swap(&mut in_n, &mut out_n),
                1 => std::mem::swap(&mut in_n, &mut err_n),
                _ => {}
            }
        }
    }
    let volume = out_n.max(err_n).max(in_n);
    let exit = match rng.below(20) {
        0..=9 => ExitKind::Code(*rng.pick(&[0, 1, 255])),
        10..=16 => ExitKind::SelfSig(*rng.pick(&[libc::SIGTERM, libc::SIGKILL])),
        _ => ExitKind::ParentKill(*rng.pick(&[libc::SIGTERM, libc::SIGKILL])),
    };
    let mut c = Case {
        drv,
        mode,
        out_n,
        err_n,
        in_n,
        cchunk: pick_chunk(rng, volume, thorough),
        rchunk: pick_chunk(rng, volume, thorough),
        wchunk: pick_chunk(rng, volume, thorough),
        exit,
        order,
        stdin_left: rng.chance(1, 10),
        close_first: rng.chance(1, 3),
        hold_ms: *rng.pick(&[0, 0, 0, 3, 25]),
        rapi: *rng.pick(&[ReadApi::Read, ReadApi::Read, ReadApi::Read, ReadApi::Managed, ReadApi::ToEnd]),
        wapi: *rng.pick(WriteApi::ALL),
        perm: rng.next_u64() % 720,
    };
    c.normalise();
    c
}

/// The covering prefix: every (driver, mode, order, payload) once.
pub fn covering(rng: &mut Rng) -> Vec<(Drv, Mode, Order, usize)> {
    let mut v = Vec::new();
    for d in Drv::ALL {
        for m in Mode::ALL {
            for o in Order::ALL {
                let legal = match o {
                    Order::CmdStatus => *m == Mode::Bare,
                    Order::CmdOutput => matches!(m, Mode::Bare | Mode::Produce),
                    _ => true,
                };
                if !legal {
                    continue;
                }
                if *m == Mode::Bare {
                    v.push((*d, *m, *o, 0));
                    continue;
                }
                for p in PAYLOADS {
                    v.push((*d, *m, *o, p));
                }
            }
        }
    }
    rng.shuffle(&mut v);
    v
}
