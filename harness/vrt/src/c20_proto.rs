//! C20 — what the harness (`vrt c20`) and the helper child (`vchild`) agree on.
//! Included by both crates with `#[path]`; std only.

#![allow(dead_code)]

/// Salt of the pattern written by the child on its stdout.
pub const SALT_OUT: u64 = 0x11;
/// Salt of the pattern written by the child on its stderr.
pub const SALT_ERR: u64 = 0x22;
/// Salt of the pattern the parent writes to the child's stdin.
pub const SALT_IN: u64 = 0x33;

/// Exit code used by the child when something went wrong *inside the child*
/// (bad arguments, I/O error on its stdio). Never a configured exit code.
pub const CHILD_FAILED: i32 = 97;

/// Position-dependent byte: a shift, a duplicated or a dropped chunk of any
/// size changes the stream (period far beyond 1 MiB).
#[inline]
pub fn pat(salt: u64, i: u64) -> u8 {
    let x = (i ^ (salt << 40)).wrapping_add(salt).wrapping_mul(0x9E37_79B9_7F4A_7C15);
    ((x >> 56) ^ (x >> 29)) as u8
}

pub fn fill(salt: u64, start: u64, buf: &mut [u8]) {
    for (k, b) in buf.iter_mut().enumerate() {
        *b = pat(salt, start + k as u64);
    }
}

pub const FNV_INIT: u64 = 0xcbf2_9ce4_8422_2325;

#[inline]
pub fn fnv(mut h: u64, data: &[u8]) -> u64 {
    for b in data {
        h ^= *b as u64;
        h = h.wrapping_mul(0x0000_0100_0000_01B3);
    }
    h
}

/// The line the child prints on stdout after having read all of its stdin
/// (modes `sink`).
pub fn report_line(len: u64, hash: u64) -> String {
    format!("\nLEN={len:020} HASH={hash:016x}\n")
}

pub const REPORT_LINE_LEN: usize = 1 + 4 + 20 + 1 + 5 + 16 + 1;

pub fn parse_report_line(s: &[u8]) -> Option<(u64, u64)> {
    let s = std::str::from_utf8(s).ok()?;
    let s = s.strip_prefix("\nLEN=")?;
    let (len, rest) = s.split_once(" HASH=")?;
    let hash = rest.strip_suffix('\n')?;
    Some((len.parse().ok()?, u64::from_str_radix(hash, 16).ok()?))
}
