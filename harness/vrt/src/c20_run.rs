//! C20 — one case: the parent scenario on a compio runtime, driven by our own
//! loop (so that logical quiescence can be decided), and what it observed.

use std::{
    cell::{Cell, RefCell},
    future::Future,
    pin::pin,
    process::{ExitStatus, Stdio},
    rc::Rc,
    sync::atomic::Ordering::SeqCst,
    task::{Context, Poll},
    time::{Duration, Instant},
};

use compio_buf::{BufResult, IoBuf};
use compio_driver::{AsRawFd, DriverType, ProactorBuilder};
use compio_io::{AsyncRead, AsyncReadExt, AsyncReadManaged, AsyncWrite, AsyncWriteExt};
use compio_process::{Child, Command};
use compio_runtime::{JoinHandle, ResumeUnwind, Runtime};

use super::{
    case::{Case, Drv, ExitKind, Mode, Order, ReadApi, WriteApi},
    proto::*,
    sys::{self, BlockedOn, ProcSnap, RefWait, SentFinding},
};

// ---------------------------------------------------------------------------
// Observations
// ---------------------------------------------------------------------------

/// Incremental check of a stream against `pat(salt, 0..n)` + optional trailer.
#[derive(Debug, Clone)]
pub struct Verifier {
    salt: u64,
    n: u64,
    want_trailer: bool,
    pub pos: u64,
    pub first_bad: Option<u64>,
    pub trailer: Vec<u8>,
    pub extra: u64,
}

impl Verifier {
    pub fn new(salt: u64, n: usize, want_trailer: bool) -> Self {
        Self {
            salt,
            n: n as u64,
            want_trailer,
            pos: 0,
            first_bad: None,
            trailer: Vec::new(),
            extra: 0,
        }
    }

    pub fn feed(&mut self, data: &[u8]) {
        for b in data {
            if self.pos < self.n {
                if self.first_bad.is_none() && *b != pat(self.salt, self.pos) {
                    self.first_bad = Some(self.pos);
                }
            } else if self.want_trailer && self.trailer.len() < REPORT_LINE_LEN {
                self.trailer.push(*b);
            } else {
                self.extra += 1;
            }
            self.pos += 1;
        }
    }
}

#[derive(Debug, Clone)]
pub struct StreamObs {
    pub v: Verifier,
    pub eof: bool,
    pub err: Option<String>,
    /// a read reported more bytes than the buffer could take / inconsistent length
    pub overrun: Option<String>,
    pub reads: u64,
}

#[derive(Debug, Clone, Default)]
pub struct WriteObs {
    pub written: u64,
    pub err: Option<String>,
    pub overrun: Option<String>,
    pub writes: u64,
}

#[derive(Debug, Clone)]
pub struct Marker {
    pub pid: i32,
    pub ts_ns: u64,
    pub intended: String,
    pub detail: String,
}

pub fn read_marker(path: &str) -> Result<Option<Marker>, String> {
    let s = match std::fs::read_to_string(path) {
        Ok(s) => s,
        Err(e) if e.kind() == std::io::ErrorKind::NotFound => return Ok(None),
        Err(e) => return Err(format!("marker unreadable: {e}")),
    };
    if !s.ends_with('\n') {
        return Err(format!("marker incomplete: {s:?}"));
    }
    let mut it = s.trim_end().splitn(4, ' ');
    let pid = it.next().and_then(|x| x.parse().ok());
    let ts = it.next().and_then(|x| x.parse().ok());
    let intended = it.next();
    match (pid, ts, intended) {
        (Some(pid), Some(ts_ns), Some(i)) => Ok(Some(Marker {
            pid,
            ts_ns,
            intended: i.to_string(),
            detail: it.next().unwrap_or("").to_string(),
        })),
        _ => Err(format!("marker malformed: {s:?}")),
    }
}

/// Everything recorded synchronously at the moment `wait` (or an API built on
/// it) returned.
#[derive(Debug, Clone)]
pub struct WaitObs {
    pub status: Result<ExitStatus, String>,
    pub t_ns: u64,
    pub marker: Result<Option<Marker>, String>,
    pub pid: Option<i32>,
    pub refwait: Option<RefWait>,
}

fn observe_wait(status: std::io::Result<ExitStatus>, pid: Option<i32>, marker_path: &str) -> WaitObs {
    let t_ns = sys::now_ns();
    let marker = read_marker(marker_path);
    let pid = pid.or_else(|| marker.as_ref().ok().and_then(|m| m.as_ref().map(|m| m.pid)));
    let refwait = pid.map(sys::ref_waitpid);
    WaitObs {
        status: status.map_err(|e| format!("{e}")),
        t_ns,
        marker,
        pid,
        refwait,
    }
}

#[derive(Debug, Default)]
pub struct Outcome {
    pub spawn_err: Option<String>,
    pub out: Option<StreamObs>,
    pub err: Option<StreamObs>,
    pub wr: Option<WriteObs>,
    pub wait: Option<WaitObs>,
    /// stdout was read only after `wait` had returned
    pub drained_after_wait: bool,
    pub kill_err: Option<String>,
}

#[derive(Debug, Clone)]
pub enum Hang {
    /// An operation the parent has in flight is ready according to the
    /// reference (`poll(2)` / child is a zombie) but is not completed.
    Stall(String),
    /// Child blocked on a pipe, nothing the parent waits for is ready.
    Deadlock { child: String, cause: String },
    ThreadBlocked { parent: String, child: String },
    Watchdog(String),
}

// ---------------------------------------------------------------------------
// Shared state between scenario tasks and the driving loop
// ---------------------------------------------------------------------------

#[derive(Clone, Copy, PartialEq, Eq, Debug)]
pub enum StdinState {
    NotUsed,
    Held,
    Dropped,
    InChild,
}

pub struct Shared {
    pub progress: Cell<u64>,
    pub fl_out: Cell<bool>,
    pub fl_err: Cell<bool>,
    pub fl_in: Cell<bool>,
    pub fl_wait: Cell<bool>,
    /// an API call that hides its operations is in flight
    pub fl_api: Cell<Option<&'static str>>,
    pub fd_out: Cell<i32>,
    pub fd_err: Cell<i32>,
    pub fd_in: Cell<i32>,
    pub in_ident: Cell<Option<(u64, u64)>>,
    pub stdin_state: Cell<StdinState>,
    pub pid: Cell<i32>,
    pub trace: RefCell<Vec<String>>,
}

impl Shared {
    fn new() -> Rc<Self> {
        Rc::new(Self {
            progress: Cell::new(0),
            fl_out: Cell::new(false),
            fl_err: Cell::new(false),
            fl_in: Cell::new(false),
            fl_wait: Cell::new(false),
            fl_api: Cell::new(None),
            fd_out: Cell::new(-1),
            fd_err: Cell::new(-1),
            fd_in: Cell::new(-1),
            in_ident: Cell::new(None),
            stdin_state: Cell::new(StdinState::NotUsed),
            pid: Cell::new(0),
            trace: RefCell::new(Vec::new()),
        })
    }

    fn step(&self) {
        self.progress.set(self.progress.get() + 1);
    }

    fn log(&self, s: impl Into<String>) {
        let mut t = self.trace.borrow_mut();
        if t.len() < 64 {
            t.push(s.into());
        }
    }
}

#[derive(Clone, Copy, PartialEq, Eq)]
enum Stream {
    Out,
    Err,
}

impl Shared {
    fn flag(&self, s: Stream) -> &Cell<bool> {
        match s {
            Stream::Out => &self.fl_out,
            Stream::Err => &self.fl_err,
        }
    }
}

// ---------------------------------------------------------------------------
// Scenario pieces
// ---------------------------------------------------------------------------

async fn read_stream<R>(mut r: R, which: Stream, case: Case, sh: Rc<Shared>, v: Verifier) -> StreamObs
where
    R: AsyncRead + AsyncReadManaged,
{
    let mut o = StreamObs {
        v,
        eof: false,
        err: None,
        overrun: None,
        reads: 0,
    };
    let fl = sh.flag(which);
    match case.rapi {
        ReadApi::Read => loop {
            let buf = Vec::<u8>::with_capacity(case.rchunk);
            fl.set(true);
            let BufResult(res, buf) = r.read(buf).await;
            fl.set(false);
            sh.step();
            o.reads += 1;
            match res {
                Ok(0) => {
                    o.eof = true;
                    if !buf.is_empty() {
                        o.overrun = Some(format!("read returned 0 but the buffer has {} bytes", buf.len()));
                    }
                    break;
                }
                Ok(n) => {
                    if n > case.rchunk || buf.len() != n {
                        o.overrun = Some(format!(
                            "read into a buffer of capacity {} returned {n}, buffer length {}",
                            case.rchunk,
                            buf.len()
                        ));
                        break;
                    }
                    o.v.feed(&buf);
                }
                Err(e) => {
                    o.err = Some(format!("{e}"));
                    break;
                }
            }
        },
        ReadApi::Managed => loop {
            fl.set(true);
            let res = r.read_managed(case.rchunk).await;
            fl.set(false);
            sh.step();
            o.reads += 1;
            match res {
                Ok(None) => {
                    o.eof = true;
                    break;
                }
                Ok(Some(b)) => {
                    let s = b.as_init();
                    if s.is_empty() {
                        o.eof = true;
                        break;
                    }
                    if s.len() > case.rchunk {
                        o.overrun = Some(format!("read_managed({}) returned {} bytes", case.rchunk, s.len()));
                        break;
                    }
                    o.v.feed(s);
                }
                Err(e) => {
                    o.err = Some(format!("{e}"));
                    break;
                }
            }
        },
        ReadApi::ToEnd => {
            fl.set(true);
            let BufResult(res, buf) = r.read_to_end(Vec::new()).await;
            fl.set(false);
            sh.step();
            o.reads += 1;
            match res {
                Ok(n) => {
                    if n != buf.len() {
                        o.overrun = Some(format!("read_to_end returned {n}, buffer length {}", buf.len()));
                    }
                    o.v.feed(&buf);
                    o.eof = true;
                }
                Err(e) => {
                    o.v.feed(&buf);
                    o.err = Some(format!("{e}"));
                }
            }
        }
    }
    drop(r);
    o
}

async fn write_stream<W: AsyncWrite>(mut w: W, case: &Case, sh: &Shared) -> WriteObs {
    let mut o = WriteObs::default();
    let total = case.in_n as u64;
    while o.written < total {
        let len = ((total - o.written) as usize).min(case.wchunk);
        let mut data = vec![0u8; len];
        fill(SALT_IN, o.written, &mut data);
        sh.fl_in.set(true);
        let res = match case.wapi {
            WriteApi::Write => w.write(data).await.0,
            WriteApi::WriteAll => w.write_all(data).await.0.map(|()| len),
        };
        sh.fl_in.set(false);
        sh.step();
        o.writes += 1;
        match res {
            Ok(0) => {
                o.err = Some("write returned 0 for a non-empty buffer".into());
                break;
            }
            Ok(n) if n > len => {
                o.overrun = Some(format!("write of {len} bytes returned {n}"));
                break;
            }
            Ok(n) => o.written += n as u64,
            Err(e) => {
                o.err = Some(format!("{e}"));
                break;
            }
        }
    }
    o
}

/// Wait until the child wrote its marker (it is then pausing), then kill it.
async fn killer(marker: String, pid_hint: i32, sig: i32) -> Option<String> {
    loop {
        match read_marker(&marker) {
            Ok(Some(m)) => {
                let pid = if pid_hint > 0 { pid_hint } else { m.pid };
                // The child is pausing and not reaped: the pid is ours.
                let r = unsafe { libc::kill(pid, sig) };
                return (r != 0).then(|| format!("kill({pid},{sig}): {}", std::io::Error::last_os_error()));
            }
            Ok(None) | Err(_) => compio_runtime::time::sleep(Duration::from_millis(1)).await,
        }
    }
}

async fn join<T>(h: JoinHandle<T>) -> T {
    h.await.resume_unwind().expect("harness task cancelled")
}

fn stdio(piped: bool) -> Stdio {
    if piped { Stdio::piped() } else { Stdio::null() }
}

pub struct Env {
    pub vchild: std::path::PathBuf,
    pub dir: std::path::PathBuf,
}

async fn scenario(case: Case, sh: Rc<Shared>, vchild: std::path::PathBuf, marker: String) -> Outcome {
    let mut o = Outcome::default();
    let mut cmd = Command::new(&vchild);
    cmd.args(case.child_args(&marker));
    let piped = case.order != Order::CmdStatus;
    cmd.stdin(stdio(case.uses_stdin())).unwrap();
    cmd.stdout(stdio(piped)).unwrap();
    cmd.stderr(stdio(piped)).unwrap();
    let (salt, n) = case.stdout_expect();
    let v_out = Verifier::new(salt, n, case.has_trailer());
    let v_err = Verifier::new(SALT_ERR, case.err_n, false);

    // --- APIs that hide the child -----------------------------------------
    if matches!(case.order, Order::CmdStatus | Order::CmdOutput) {
        let k = match case.exit {
            ExitKind::ParentKill(sig) => Some(compio_runtime::spawn(killer(marker.clone(), 0, sig))),
            _ => None,
        };
        if case.order == Order::CmdStatus {
            sh.fl_api.set(Some("status"));
            let st = cmd.status().await;
            sh.fl_api.set(None);
            o.wait = Some(observe_wait(st, None, &marker));
        } else {
            sh.fl_api.set(Some("output"));
            let res = cmd.output().await;
            sh.fl_api.set(None);
            let (st, out, err) = match res {
                Ok(out) => (Ok(out.status), out.stdout, out.stderr),
                Err(e) => (Err(e), vec![], vec![]),
            };
            let ok = st.is_ok();
            o.wait = Some(observe_wait(st, None, &marker));
            if ok {
                let mut so = StreamObs { v: v_out, eof: true, err: None, overrun: None, reads: 1 };
                so.v.feed(&out);
                o.out = Some(so);
                let mut se = StreamObs { v: v_err, eof: true, err: None, overrun: None, reads: 1 };
                se.v.feed(&err);
                o.err = Some(se);
            }
        }
        sh.step();
        if let Some(k) = k {
            o.kill_err = join(k).await;
        }
        return o;
    }

    // --- spawn ------------------------------------------------------------
    let mut child: Child = match cmd.spawn() {
        Ok(c) => c,
        Err(e) => {
            o.spawn_err = Some(format!("{e}"));
            return o;
        }
    };
    let pid = child.id() as i32;
    sh.pid.set(pid);
    sys::PID.store(pid, SeqCst);
    let rawfd = |x: Option<i32>| x.unwrap_or(-1);
    sh.fd_in.set(rawfd(child.stdin.as_ref().map(|s| s.as_raw_fd())));
    sh.fd_out.set(rawfd(child.stdout.as_ref().map(|s| s.as_raw_fd())));
    sh.fd_err.set(rawfd(child.stderr.as_ref().map(|s| s.as_raw_fd())));
    sys::FD_IN.store(sh.fd_in.get(), SeqCst);
    sys::FD_OUT.store(sh.fd_out.get(), SeqCst);
    sys::FD_ERR.store(sh.fd_err.get(), SeqCst);
    sh.in_ident.set(sys::fd_ident(sh.fd_in.get()));
    if case.uses_stdin() {
        sh.stdin_state.set(StdinState::Held);
    }

    let spawn_reader_out = |child: &mut Child, sh: &Rc<Shared>| {
        let r = child.stdout.take().expect("stdout piped");
        compio_runtime::spawn(read_stream(r, Stream::Out, case.clone(), sh.clone(), v_out.clone()))
    };
    let spawn_reader_err = |child: &mut Child, sh: &Rc<Shared>| {
        let r = child.stderr.take().expect("stderr piped");
        compio_runtime::spawn(read_stream(r, Stream::Err, case.clone(), sh.clone(), v_err.clone()))
    };
    let spawn_writer = |child: &mut Child, sh: &Rc<Shared>| {
        let w = child.stdin.take().expect("stdin piped");
        let (case, sh) = (case.clone(), sh.clone());
        compio_runtime::spawn(async move {
            let o = write_stream(w, &case, &sh).await;
            // `w` was moved into write_stream and is dropped there: closed
            sh.stdin_state.set(StdinState::Dropped);
            sh.log("stdin dropped");
            o
        })
    };
    let kill_sig = match case.exit {
        ExitKind::ParentKill(s) => Some(s),
        _ => None,
    };

    match case.order {
        Order::WaitWithOutput => {
            let wr = if case.uses_stdin() && !case.stdin_left {
                Some(spawn_writer(&mut child, &sh))
            } else {
                None
            };
            let k = kill_sig.map(|s| compio_runtime::spawn(killer(marker.clone(), pid, s)));
            if case.uses_stdin() && case.stdin_left {
                // Needs concurrent readers only if the child's output does not
                // fit; wait_with_output is the only reader here, so write
                // through a helper task on a borrowed handle is impossible:
                // write first (legal when the outputs fit), else hand over a
                // taken handle's clone is not available -> write first.
                let w = child.stdin.as_mut().expect("stdin piped");
                o.wr = Some(write_stream(w, &case, &sh).await);
                sh.stdin_state.set(StdinState::InChild);
                sh.log("stdin left in Child");
            }
            sh.fl_api.set(Some("wait_with_output"));
            let res = child.wait_with_output().await;
            sh.fl_api.set(None);
            sh.step();
            let (st, out, err) = match res {
                Ok(out) => (Ok(out.status), out.stdout, out.stderr),
                Err(e) => (Err(e), vec![], vec![]),
            };
            let ok = st.is_ok();
            o.wait = Some(observe_wait(st, Some(pid), &marker));
            if ok {
                let mut so = StreamObs { v: v_out, eof: true, err: None, overrun: None, reads: 1 };
                so.v.feed(&out);
                o.out = Some(so);
                let mut se = StreamObs { v: v_err, eof: true, err: None, overrun: None, reads: 1 };
                se.v.feed(&err);
                o.err = Some(se);
            }
            if let Some(wr) = wr {
                o.wr = Some(join(wr).await);
            }
            if let Some(k) = k {
                o.kill_err = join(k).await;
            }
        }
        Order::WaitFirst => {
            let strict = case.strict_wait_first();
            let mut readers = None;
            if !strict {
                // the child needs its output read to get anywhere: the wait is
                // merely *started* first
            }
            if case.uses_stdin() && case.stdin_left {
                if !strict {
                    readers = Some((spawn_reader_out(&mut child, &sh), spawn_reader_err(&mut child, &sh)));
                }
                let w = child.stdin.as_mut().expect("stdin piped");
                o.wr = Some(write_stream(w, &case, &sh).await);
                sh.stdin_state.set(StdinState::InChild);
                sh.log("stdin left in Child");
            } else if case.uses_stdin() && strict {
                let w = child.stdin.take().expect("stdin piped");
                o.wr = Some(write_stream(w, &case, &sh).await);
                sh.stdin_state.set(StdinState::Dropped);
            }
            let mut wr = None;
            let (out_h, err_h) = (child.stdout.take(), child.stderr.take());
            let stdin_h = child.stdin.take_if(|_| !case.stdin_left);
            if case.stdin_left {
                // keep stdin inside `child`
            }
            let k = kill_sig.map(|s| compio_runtime::spawn(killer(marker.clone(), pid, s)));
            let (sh2, marker2) = (sh.clone(), marker.clone());
            let wait_h = compio_runtime::spawn(async move {
                sh2.fl_wait.set(true);
                let st = child.wait().await;
                sh2.fl_wait.set(false);
                sh2.step();
                observe_wait(st, Some(pid), &marker2)
            });
            if strict {
                o.wait = Some(join(wait_h).await);
                o.drained_after_wait = true;
                let ro = out_h.map(|r| compio_runtime::spawn(read_stream(r, Stream::Out, case.clone(), sh.clone(), v_out.clone())));
                let re = err_h.map(|r| compio_runtime::spawn(read_stream(r, Stream::Err, case.clone(), sh.clone(), v_err.clone())));
                if let Some(h) = ro {
                    o.out = Some(join(h).await);
                }
                if let Some(h) = re {
                    o.err = Some(join(h).await);
                }
            } else {
                // let the wait be submitted before anything else starts
                compio_runtime::time::sleep(Duration::from_millis(1)).await;
                let (ro, re) = match readers {
                    Some((a, b)) => (Some(a), Some(b)),
                    None => (
                        out_h.map(|r| compio_runtime::spawn(read_stream(r, Stream::Out, case.clone(), sh.clone(), v_out.clone()))),
                        err_h.map(|r| compio_runtime::spawn(read_stream(r, Stream::Err, case.clone(), sh.clone(), v_err.clone()))),
                    ),
                };
                if let Some(w) = stdin_h {
                    let (case2, sh2) = (case.clone(), sh.clone());
                    wr = Some(compio_runtime::spawn(async move {
                        let o = write_stream(w, &case2, &sh2).await;
                        sh2.stdin_state.set(StdinState::Dropped);
                        o
                    }));
                }
                if let Some(h) = wr {
                    o.wr = Some(join(h).await);
                }
                if let Some(h) = ro {
                    o.out = Some(join(h).await);
                }
                if let Some(h) = re {
                    o.err = Some(join(h).await);
                }
                o.wait = Some(join(wait_h).await);
            }
            if let Some(k) = k {
                o.kill_err = join(k).await;
            }
        }
        Order::DrainFirst | Order::Concurrent => {
            // spawn order of the parent's tasks is part of the case
            let mut wr = None;
            let mut ro = None;
            let mut re = None;
            let mut wait_h = None;
            let mut k = None;
            let mut what: Vec<u8> = vec![0, 1];
            if case.uses_stdin() {
                what.push(2);
            }
            let concurrent = case.order == Order::Concurrent;
            if concurrent {
                what.push(3);
            }
            let mut p = case.perm;
            let mut order = Vec::new();
            while !what.is_empty() {
                let i = (p % what.len() as u64) as usize;
                p /= what.len() as u64;
                order.push(what.remove(i));
            }
            let (h_out, h_err, h_in) = (child.stdout.take(), child.stderr.take(), child.stdin.take());
            let (mut h_out, mut h_err, mut h_in) = (h_out, h_err, h_in);
            let mut child = Some(child);
            for w in order {
                match w {
                    0 => {
                        let r = h_out.take().expect("stdout piped");
                        ro = Some(compio_runtime::spawn(read_stream(r, Stream::Out, case.clone(), sh.clone(), v_out.clone())));
                    }
                    1 => {
                        let r = h_err.take().expect("stderr piped");
                        re = Some(compio_runtime::spawn(read_stream(r, Stream::Err, case.clone(), sh.clone(), v_err.clone())));
                    }
                    2 => {
                        let w = h_in.take().expect("stdin piped");
                        let (case2, sh2) = (case.clone(), sh.clone());
                        wr = Some(compio_runtime::spawn(async move {
                            let o = write_stream(w, &case2, &sh2).await;
                            sh2.stdin_state.set(StdinState::Dropped);
                            sh2.log("stdin dropped");
                            o
                        }));
                    }
                    _ => {
                        let c = child.take().unwrap();
                        let (sh2, marker2) = (sh.clone(), marker.clone());
                        wait_h = Some(compio_runtime::spawn(async move {
                            sh2.fl_wait.set(true);
                            let st = c.wait().await;
                            sh2.fl_wait.set(false);
                            sh2.step();
                            observe_wait(st, Some(pid), &marker2)
                        }));
                    }
                }
            }
            if concurrent && let Some(s) = kill_sig {
                k = Some(compio_runtime::spawn(killer(marker.clone(), pid, s)));
            }
            if let Some(h) = wr {
                o.wr = Some(join(h).await);
            }
            if let Some(h) = ro {
                o.out = Some(join(h).await);
            }
            if let Some(h) = re {
                o.err = Some(join(h).await);
            }
            if let Some(mut c) = child {
                // drain-first: everything is at EOF now
                if let Some(s) = kill_sig {
                    // the child closed its stdio, wrote its marker, pauses
                    loop {
                        match read_marker(&marker) {
                            Ok(Some(_)) => break,
                            _ => compio_runtime::time::sleep(Duration::from_millis(1)).await,
                        }
                    }
                    if s == libc::SIGKILL {
                        if let Err(e) = c.kill() {
                            o.kill_err = Some(format!("Child::kill: {e}"));
                        }
                    } else if unsafe { libc::kill(pid, s) } != 0 {
                        o.kill_err = Some(format!("kill: {}", std::io::Error::last_os_error()));
                    }
                }
                sh.fl_wait.set(true);
                let st = c.wait().await;
                sh.fl_wait.set(false);
                sh.step();
                o.wait = Some(observe_wait(st, Some(pid), &marker));
            } else if let Some(h) = wait_h {
                o.wait = Some(join(h).await);
            }
            if let Some(k) = k {
                o.kill_err = join(k).await;
            }
        }
        Order::CmdOutput | Order::CmdStatus => unreachable!(),
    }
    o
}

// ---------------------------------------------------------------------------
// Driving loop with logical-quiescence detection
// ---------------------------------------------------------------------------

const SLICE: Duration = Duration::from_millis(10);
/// idle runtime iterations a quiescent state must survive unchanged
pub const CONFIRM_ITERS: u32 = 50;

#[derive(PartialEq, Eq, Clone, Debug)]
struct Fingerprint {
    progress: u64,
    kids: Vec<(i32, ProcSnap)>,
    /// bytes sitting in the three pipes (moves when an API that hides its
    /// operations, or `read_to_end`, makes progress)
    fill: [i32; 3],
}

fn fingerprint(sh: &Shared) -> Fingerprint {
    let pids = if sh.pid.get() > 0 { vec![sh.pid.get()] } else { sys::children() };
    Fingerprint {
        progress: sh.progress.get(),
        kids: pids.into_iter().map(|p| (p, sys::snap(p))).collect(),
        fill: [sys::unread(sh.fd_in.get()), sys::unread(sh.fd_out.get()), sys::unread(sh.fd_err.get())],
    }
}

/// The reference's view: which in-flight parent operations could complete
/// right now.
fn ready_set(sh: &Shared, fp: &Fingerprint) -> Vec<String> {
    let mut r = Vec::new();
    let rd = libc::POLLIN | libc::POLLHUP | libc::POLLERR;
    if sh.fl_out.get() && sys::poll_fd(sh.fd_out.get(), libc::POLLIN) & rd != 0 {
        r.push("read-stdout-ready".to_string());
    }
    if sh.fl_err.get() && sys::poll_fd(sh.fd_err.get(), libc::POLLIN) & rd != 0 {
        r.push("read-stderr-ready".to_string());
    }
    if sh.fl_in.get() && sys::poll_fd(sh.fd_in.get(), libc::POLLOUT) & (libc::POLLOUT | libc::POLLERR | libc::POLLHUP) != 0 {
        r.push("write-stdin-ready".to_string());
    }
    let zombie = !fp.kids.is_empty() && fp.kids.iter().all(|(_, s)| s.state == 'Z');
    if zombie && sh.fl_wait.get() {
        r.push("wait-child-exited".to_string());
    }
    if let Some(api) = sh.fl_api.get() {
        if zombie {
            r.push(format!("{api}-child-exited"));
        }
        // data sitting unread in a pipe the API is supposed to drain
        if sys::poll_fd(sh.fd_out.get(), libc::POLLIN) & libc::POLLIN != 0 {
            r.push(format!("{api}-stdout-unread"));
        }
        if sys::poll_fd(sh.fd_err.get(), libc::POLLIN) & libc::POLLIN != 0 {
            r.push(format!("{api}-stderr-unread"));
        }
    }
    r
}

fn classify_deadlock(sh: &Shared, on: BlockedOn) -> Option<(String, String)> {
    let child = sys::describe_child(on);
    let cause = match on {
        BlockedOn::Read(0) => {
            let open = sh.in_ident.get().is_some_and(sys::have_write_end);
            match (sh.stdin_state.get(), open) {
                (StdinState::InChild, true) => "stdin-kept-open-by-wait",
                (StdinState::Dropped, true) => "stdin-not-closed-on-drop",
                (StdinState::Held, _) => "writer-task-idle",
                (_, false) => "stdin-closed-but-no-eof",
                (StdinState::NotUsed, true) => "unclassified",
            }
        }
        BlockedOn::Write(1) => "stdout-not-being-read",
        BlockedOn::Write(2) => "stderr-not-being-read",
        _ => return None,
    };
    Some((child, cause.to_string()))
}

fn hang_key(h: &Hang) -> String {
    match h {
        Hang::Stall(w) => format!("stall/{w}"),
        Hang::Deadlock { child, cause } => format!("deadlock/{child}/{cause}"),
        Hang::ThreadBlocked { parent, child } => format!("blocked/{parent}/{child}"),
        Hang::Watchdog(_) => "watchdog".into(),
    }
}

pub struct Driven<T> {
    pub out: Option<T>,
    pub hang: Option<Hang>,
    pub polls: u64,
    pub completed_after_kill: bool,
}

fn kill_children(sh: &Shared) {
    let pids = if sh.pid.get() > 0 { vec![sh.pid.get()] } else { sys::children() };
    for p in pids {
        // still ours (not reaped) as long as procfs shows us as its parent
        if sys::snap(p).ppid == unsafe { libc::getpid() } {
            unsafe { libc::kill(p, libc::SIGKILL) };
        }
    }
}

pub fn drive<T>(rt: &Runtime, fut: impl Future<Output = T>, sh: &Rc<Shared>, watchdog: Duration) -> Driven<T> {
    rt.enter(|| {
        let waker = rt.waker();
        let mut cx = Context::from_waker(&waker);
        let mut fut = pin!(fut);
        let t0 = Instant::now();
        let mut hang: Option<Hang> = None;
        let mut killed_at: Option<Instant> = None;
        let mut polls = 0u64;
        let mut wd_progress = u64::MAX;
        let mut wd_since = Instant::now();
        let mut last_progress = u64::MAX;
        let mut idle_iters = 0u32;
        let mut idle_since = Instant::now();
        // candidate = (fingerprint, description, idle_iters at first sight, time)
        let mut candidate: Option<(Fingerprint, Hang, u32, Instant)> = None;
        loop {
            sys::HEARTBEAT.fetch_add(1, SeqCst);
            polls += 1;
            if let Poll::Ready(v) = fut.as_mut().poll(&mut cx) {
                rt.run();
                return Driven { out: Some(v), hang, polls, completed_after_kill: killed_at.is_some() };
            }
            let more = rt.run();
            let slice = if more { Duration::ZERO } else { rt.current_timeout().map_or(SLICE, |t| t.min(SLICE)) };
            rt.poll_with(Some(slice));

            // the sentinel may have found the runtime thread blocked
            if hang.is_none()
                && let Some(f) = sys::FINDING.lock().unwrap().take()
            {
                hang = Some(match f {
                    SentFinding::ThreadBlocked { parent, child } => Hang::ThreadBlocked { parent, child },
                    SentFinding::Watchdog(w) => Hang::Watchdog(w),
                });
                kill_children(sh);
                killed_at = Some(Instant::now());
            }
            if let Some(k) = killed_at {
                if k.elapsed() > Duration::from_secs(5) {
                    return Driven { out: None, hang, polls, completed_after_kill: false };
                }
                continue;
            }
            if wd_progress != sh.progress.get() {
                wd_progress = sh.progress.get();
                wd_since = Instant::now();
            }
            if wd_since.elapsed() > watchdog || t0.elapsed() > watchdog * 6 {
                hang = Some(Hang::Watchdog(format!(
                    "case not finished: no completed operation for {} ms, {} ms in total; trace: {:?}",
                    wd_since.elapsed().as_millis(),
                    t0.elapsed().as_millis(),
                    sh.trace.borrow()
                )));
                kill_children(sh);
                killed_at = Some(Instant::now());
                continue;
            }

            let p = sh.progress.get();
            if p != last_progress || more {
                if p != last_progress {
                    candidate = None;
                    idle_since = Instant::now();
                    idle_iters = 0;
                }
                last_progress = p;
                continue;
            }
            idle_iters += 1;
            if idle_iters < 20 || idle_since.elapsed() < Duration::from_millis(200) || idle_iters % 10 != 0 {
                continue;
            }
            // --- analysis -------------------------------------------------
            let fp = fingerprint(sh);
            if let Some((cfp, _, _, _)) = &candidate
                && *cfp != fp
            {
                candidate = None; // somebody moved
            }
            let ready = ready_set(sh, &fp);
            let found: Option<Hang> = if let Some(r) = ready.first() {
                sh.log(format!(
                    "ready={ready:?} in-flight: out={} err={} in={} wait={} api={:?}; unread: stdout={} stderr={}; child={:?}",
                    sh.fl_out.get(), sh.fl_err.get(), sh.fl_in.get(), sh.fl_wait.get(), sh.fl_api.get(),
                    sys::unread(sh.fd_out.get()), sys::unread(sh.fd_err.get()),
                    fp.kids.iter().map(|(_, s)| (s.state, sys::blocked_on(s))).collect::<Vec<_>>()
                ));
                Some(Hang::Stall(r.clone()))
            } else if let [(_, s)] = &fp.kids[..]
                && let Some(on) = sys::blocked_on(s)
                && let Some((child, cause)) = classify_deadlock(sh, on)
            {
                Some(Hang::Deadlock { child, cause })
            } else {
                None
            };
            // a candidate stands only while the *same* diagnosis is made
            if let (Some(f), Some((_, h, _, _))) = (&found, &candidate)
                && hang_key(f) != hang_key(h)
            {
                candidate = None;
            }
            match (found, &candidate) {
                (None, _) => candidate = None,
                (Some(h), None) => candidate = Some((fp, h, idle_iters, Instant::now())),
                (Some(_), Some((_, h, since_iters, since))) => {
                    // unchanged fingerprint (no parent completion, no child
                    // step, same blocked syscalls) over CONFIRM further idle
                    // runtime iterations; the time floor only gives the kernel
                    // / pool thread the chance to have been scheduled at all
                    let (iters, settle) = match h {
                        Hang::Stall(_) => (CONFIRM_ITERS, Duration::from_millis(3000)),
                        _ => (CONFIRM_ITERS, Duration::from_millis(500)),
                    };
                    if idle_iters - since_iters >= iters && since.elapsed() >= settle {
                        sh.trace.borrow_mut().push(format!(
                            "at verdict: ready={ready:?} fill={:?} idle_iters={idle_iters} (candidate since {since_iters})",
                            fp.fill
                        ));
                        hang = Some(h.clone());
                        kill_children(sh);
                        killed_at = Some(Instant::now());
                    }
                }
            }
        }
    })
}

pub struct CaseRun {
    pub outcome: Option<Outcome>,
    pub hang: Option<Hang>,
    pub setup_err: Option<String>,
    pub strays: usize,
    pub polls: u64,
    pub wall_ms: u64,
    pub trace: Vec<String>,
    pub marker_path: String,
    pub completed_after_kill: bool,
}

pub fn run_case(case: &Case, env: &Env, idx: u64, watchdog: Duration) -> CaseRun {
    let t0 = Instant::now();
    let marker = env.dir.join(format!("m{idx}")).to_string_lossy().into_owned();
    let _ = std::fs::remove_file(&marker);
    let mut run = CaseRun {
        outcome: None,
        hang: None,
        setup_err: None,
        strays: 0,
        polls: 0,
        wall_ms: 0,
        trace: vec![],
        marker_path: marker.clone(),
        completed_after_kill: false,
    };
    let mut pb = ProactorBuilder::new();
    pb.driver_type(match case.drv {
        Drv::Iour => DriverType::IoUring,
        Drv::Poll => DriverType::Poll,
    });
    let rt = match Runtime::builder().with_proactor(pb).build() {
        Ok(rt) => rt,
        Err(e) => {
            run.setup_err = Some(format!("runtime for driver {}: {e}", case.drv.name()));
            return run;
        }
    };
    let want = match case.drv {
        Drv::Iour => DriverType::IoUring,
        Drv::Poll => DriverType::Poll,
    };
    if rt.driver_type() != want {
        run.setup_err = Some(format!("driver {} not available here", case.drv.name()));
        return run;
    }
    let sh = Shared::new();
    sys::PID.store(0, SeqCst);
    sys::FD_IN.store(-1, SeqCst);
    sys::FD_OUT.store(-1, SeqCst);
    sys::FD_ERR.store(-1, SeqCst);
    *sys::FINDING.lock().unwrap() = None;
    sys::HEARTBEAT.fetch_add(1, SeqCst);
    sys::ACTIVE.store(true, SeqCst);
    let d = drive(&rt, scenario(case.clone(), sh.clone(), env.vchild.clone(), marker.clone()), &sh, watchdog);
    sys::ACTIVE.store(false, SeqCst);
    // a finding raised in the very last moment belongs to this case
    if d.hang.is_none()
        && let Some(f) = sys::FINDING.lock().unwrap().take()
    {
        run.hang = Some(match f {
            SentFinding::ThreadBlocked { parent, child } => Hang::ThreadBlocked { parent, child },
            SentFinding::Watchdog(w) => Hang::Watchdog(w),
        });
    } else {
        run.hang = d.hang;
    }
    run.outcome = d.out;
    run.polls = d.polls;
    run.completed_after_kill = d.completed_after_kill;
    drop(rt);
    run.strays = sys::reap_strays();
    run.trace = sh.trace.borrow().clone();
    run.wall_ms = t0.elapsed().as_millis() as u64;
    if matches!(case.mode, Mode::Bare) && run.outcome.is_none() && run.hang.is_none() {
        run.setup_err = Some("case ended without outcome".into());
    }
    run
}
