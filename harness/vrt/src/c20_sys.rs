//! C20 — reference observations made with plain `libc` / procfs, independent
//! of compio: process states, pipe readiness, the reference `waitpid`, and the
//! sentinel thread that notices a runtime thread stuck inside a blocking
//! syscall (which the in-loop quiescence detector cannot see).

use std::{
    sync::{
        Mutex,
        atomic::{AtomicBool, AtomicI32, AtomicU64, Ordering::SeqCst},
    },
    time::{Duration, Instant},
};

pub fn now_ns() -> u64 {
    let mut ts = libc::timespec {
        tv_sec: 0,
        tv_nsec: 0,
    };
    unsafe { libc::clock_gettime(libc::CLOCK_MONOTONIC, &mut ts) };
    ts.tv_sec as u64 * 1_000_000_000 + ts.tv_nsec as u64
}

pub fn gettid() -> i32 {
    unsafe { libc::syscall(libc::SYS_gettid) as i32 }
}

/// What procfs says about a process (or one of our threads).
#[derive(Clone, Debug, PartialEq, Eq, Default)]
pub struct ProcSnap {
    /// 'R', 'S', 'D', 'Z', ... ; '?' when the process does not exist
    pub state: char,
    pub ppid: i32,
    pub utime: u64,
    pub stime: u64,
    /// `/proc/<pid>/syscall`: number and first argument of the syscall the
    /// task is blocked in (None when running / unreadable)
    pub syscall: Option<(i64, u64)>,
    pub ctxt: u64,
}

fn parse_stat(s: &str) -> Option<(char, i32, u64, u64)> {
    // pid (comm) state ppid ... utime(14) stime(15)
    let rest = &s[s.rfind(')')? + 1..];
    let f: Vec<&str> = rest.split_whitespace().collect();
    Some((
        f.first()?.chars().next()?,
        f.get(1)?.parse().ok()?,
        f.get(11)?.parse().ok()?,
        f.get(12)?.parse().ok()?,
    ))
}

fn parse_syscall(s: &str) -> Option<(i64, u64)> {
    let mut it = s.split_whitespace();
    let nr: i64 = it.next()?.parse().ok()?;
    let a0 = it.next()?;
    let a0 = u64::from_str_radix(a0.trim_start_matches("0x"), 16).ok()?;
    Some((nr, a0))
}

pub fn snap_path(dir: &str) -> ProcSnap {
    let Some((state, ppid, utime, stime)) =
        std::fs::read_to_string(format!("{dir}/stat")).ok().as_deref().and_then(parse_stat)
    else {
        return ProcSnap {
            state: '?',
            ..Default::default()
        };
    };
    let syscall = std::fs::read_to_string(format!("{dir}/syscall"))
        .ok()
        .as_deref()
        .and_then(parse_syscall);
    let ctxt = std::fs::read_to_string(format!("{dir}/status"))
        .map(|s| {
            s.lines()
                .filter(|l| l.contains("ctxt_switches"))
                .filter_map(|l| l.split_whitespace().nth(1)?.parse::<u64>().ok())
                .sum()
        })
        .unwrap_or(0);
    ProcSnap {
        state,
        ppid,
        utime,
        stime,
        syscall,
        ctxt,
    }
}

pub fn snap(pid: i32) -> ProcSnap {
    snap_path(&format!("/proc/{pid}"))
}

/// What a blocked task waits for, as far as C20 cares.
#[derive(Clone, Copy, Debug, PartialEq, Eq)]
pub enum BlockedOn {
    Read(i32),
    Write(i32),
    Sleep,
    Pause,
    Other(i64),
}

pub fn blocked_on(s: &ProcSnap) -> Option<BlockedOn> {
    if !matches!(s.state, 'S' | 'D') {
        return None;
    }
    let (nr, a0) = s.syscall?;
    Some(if nr == libc::SYS_read || nr == libc::SYS_readv {
        BlockedOn::Read(a0 as i32)
    } else if nr == libc::SYS_write || nr == libc::SYS_writev {
        BlockedOn::Write(a0 as i32)
    } else if nr == libc::SYS_nanosleep || nr == libc::SYS_clock_nanosleep {
        BlockedOn::Sleep
    } else if is_pause(nr) {
        BlockedOn::Pause
    } else {
        BlockedOn::Other(nr)
    })
}

#[cfg(target_arch = "x86_64")]
fn is_pause(nr: i64) -> bool {
    nr == libc::SYS_pause
}
#[cfg(not(target_arch = "x86_64"))]
fn is_pause(nr: i64) -> bool {
    nr == libc::SYS_ppoll || nr == libc::SYS_rt_sigsuspend
}

/// Direct children of this process (any thread), from procfs.
pub fn children() -> Vec<i32> {
    let me = unsafe { libc::getpid() };
    let mut v = Vec::new();
    let mut ok = false;
    if let Ok(tasks) = std::fs::read_dir("/proc/self/task") {
        ok = true;
        for t in tasks.flatten() {
            match std::fs::read_to_string(t.path().join("children")) {
                Ok(s) => v.extend(s.split_whitespace().filter_map(|p| p.parse::<i32>().ok())),
                Err(_) => ok = false,
            }
        }
    }
    if !ok {
        v.clear();
        if let Ok(rd) = std::fs::read_dir("/proc") {
            for e in rd.flatten() {
                if let Some(pid) = e.file_name().to_str().and_then(|s| s.parse::<i32>().ok())
                    && snap(pid).ppid == me
                {
                    v.push(pid);
                }
            }
        }
    }
    v.sort_unstable();
    v.dedup();
    v
}

/// `poll(2)` with zero timeout: revents.
pub fn poll_fd(fd: i32, events: i16) -> i16 {
    if fd < 0 {
        return 0;
    }
    let mut p = libc::pollfd {
        fd,
        events,
        revents: 0,
    };
    let r = unsafe { libc::poll(&mut p, 1, 0) };
    if r <= 0 { 0 } else { p.revents }
}

/// FIONREAD: bytes sitting in the pipe (-1 if unknown).
pub fn unread(fd: i32) -> i32 {
    let mut n: libc::c_int = -1;
    if fd < 0 || unsafe { libc::ioctl(fd, libc::FIONREAD, &mut n) } != 0 {
        return -1;
    }
    n
}

/// (st_dev, st_ino) of an open descriptor.
pub fn fd_ident(fd: i32) -> Option<(u64, u64)> {
    let mut st: libc::stat = unsafe { std::mem::zeroed() };
    if fd < 0 || unsafe { libc::fstat(fd, &mut st) } != 0 {
        return None;
    }
    Some((st.st_dev as u64, st.st_ino as u64))
}

/// Is there a descriptor in this process that is a *write* end of the pipe
/// with this identity?
pub fn have_write_end(ident: (u64, u64)) -> bool {
    let Ok(rd) = std::fs::read_dir("/proc/self/fd") else {
        return false;
    };
    for e in rd.flatten() {
        let Some(fd) = e.file_name().to_str().and_then(|s| s.parse::<i32>().ok()) else {
            continue;
        };
        if fd_ident(fd) == Some(ident) {
            let fl = unsafe { libc::fcntl(fd, libc::F_GETFL) };
            if fl >= 0 && (fl & libc::O_ACCMODE) != libc::O_RDONLY {
                return true;
            }
        }
    }
    false
}

/// Reference `waitpid(pid, WNOHANG)`.
#[derive(Clone, Copy, Debug, PartialEq, Eq)]
pub enum RefWait {
    /// ECHILD: not our child (any more) — it has been reaped.
    NoChild,
    /// 0: our child, still running.
    Running,
    /// We reaped it ourselves: raw status.
    Reaped(i32),
    Error(i32),
}

pub fn ref_waitpid(pid: i32) -> RefWait {
    let mut st = 0;
    loop {
        let r = unsafe { libc::waitpid(pid, &mut st, libc::WNOHANG) };
        if r == 0 {
            return RefWait::Running;
        }
        if r == pid {
            return RefWait::Reaped(st);
        }
        let e = unsafe { *libc::__errno_location() };
        if e == libc::EINTR {
            continue;
        }
        return if e == libc::ECHILD { RefWait::NoChild } else { RefWait::Error(e) };
    }
}

/// Kill and reap whatever children are left. Returns how many there were.
pub fn reap_strays() -> usize {
    let kids = children();
    for pid in &kids {
        unsafe { libc::kill(*pid, libc::SIGKILL) };
    }
    let deadline = Instant::now() + Duration::from_secs(5);
    for pid in &kids {
        loop {
            match ref_waitpid(*pid) {
                RefWait::Running if Instant::now() < deadline => std::thread::sleep(Duration::from_millis(1)),
                _ => break,
            }
        }
    }
    kids.len()
}

// ---------------------------------------------------------------------------
// Sentinel
// ---------------------------------------------------------------------------

pub static HEARTBEAT: AtomicU64 = AtomicU64::new(0);
pub static ACTIVE: AtomicBool = AtomicBool::new(false);
pub static PID: AtomicI32 = AtomicI32::new(0);
pub static FD_IN: AtomicI32 = AtomicI32::new(-1);
pub static FD_OUT: AtomicI32 = AtomicI32::new(-1);
pub static FD_ERR: AtomicI32 = AtomicI32::new(-1);
static MAIN_TID: AtomicI32 = AtomicI32::new(0);
static WATCHDOG_MS: AtomicU64 = AtomicU64::new(30_000);

#[derive(Clone, Debug)]
pub enum SentFinding {
    /// The runtime thread sits in a blocking `read`/`write` on one of the
    /// child's pipes while the child itself is blocked on a pipe: nobody can
    /// move. (`parent`, `child`) describe the two blocked calls.
    ThreadBlocked { parent: String, child: String },
    /// The runtime thread made no iteration for the whole watchdog period.
    Watchdog(String),
}

pub static FINDING: Mutex<Option<SentFinding>> = Mutex::new(None);

pub fn stream_name(fd: i32) -> Option<&'static str> {
    if fd < 0 {
        None
    } else if fd == FD_IN.load(SeqCst) {
        Some("stdin")
    } else if fd == FD_OUT.load(SeqCst) {
        Some("stdout")
    } else if fd == FD_ERR.load(SeqCst) {
        Some("stderr")
    } else {
        None
    }
}

fn describe(b: BlockedOn, child: bool) -> String {
    let name = |fd: i32| {
        if child {
            match fd {
                0 => "stdin".to_string(),
                1 => "stdout".to_string(),
                2 => "stderr".to_string(),
                _ => format!("fd{fd}"),
            }
        } else {
            stream_name(fd).map_or_else(|| "other-fd".to_string(), |s| s.to_string())
        }
    };
    match b {
        BlockedOn::Read(fd) => format!("read-{}", name(fd)),
        BlockedOn::Write(fd) => format!("write-{}", name(fd)),
        BlockedOn::Sleep => "sleep".into(),
        BlockedOn::Pause => "pause".into(),
        BlockedOn::Other(_) => "other-syscall".into(),
    }
}

pub fn describe_child(b: BlockedOn) -> String {
    describe(b, true)
}

fn target_pids() -> Vec<i32> {
    let p = PID.load(SeqCst);
    if p > 0 { vec![p] } else { children() }
}

/// Start the sentinel (once per process). `emergency` is called if the
/// runtime thread stays stuck even after the child was killed; it must not
/// return.
pub fn start_sentinel(watchdog: Duration, emergency: impl Fn(&str) + Send + 'static) {
    MAIN_TID.store(gettid(), SeqCst);
    WATCHDOG_MS.store(watchdog.as_millis() as u64, SeqCst);
    std::thread::Builder::new()
        .name("c20-sentinel".into())
        .spawn(move || {
            let mut last = u64::MAX;
            let mut stale_since = Instant::now();
            let mut killed_at: Option<Instant> = None;
            loop {
                std::thread::sleep(Duration::from_millis(25));
                if !ACTIVE.load(SeqCst) {
                    last = u64::MAX;
                    killed_at = None;
                    continue;
                }
                let hb = HEARTBEAT.load(SeqCst);
                if hb != last {
                    last = hb;
                    stale_since = Instant::now();
                    killed_at = None;
                    continue;
                }
                let stale = stale_since.elapsed();
                if let Some(k) = killed_at {
                    if k.elapsed() > Duration::from_secs(15) {
                        emergency("runtime thread still stuck 15 s after the child was killed");
                    }
                    continue;
                }
                if stale < Duration::from_millis(400) {
                    continue;
                }
                let tid = MAIN_TID.load(SeqCst);
                let me = snap_path(&format!("/proc/self/task/{tid}"));
                let mine = blocked_on(&me);
                let on_pipe = match mine {
                    Some(BlockedOn::Read(fd)) | Some(BlockedOn::Write(fd)) => stream_name(fd).is_some(),
                    _ => false,
                };
                if on_pipe {
                    let pids = target_pids();
                    if let [pid] = pids[..] {
                        let c0 = snap(pid);
                        let cb = blocked_on(&c0);
                        if matches!(cb, Some(BlockedOn::Read(0..=2)) | Some(BlockedOn::Write(0..=2))) {
                            // confirm: nothing moves at all over several samples
                            let mut stable = true;
                            for _ in 0..8 {
                                std::thread::sleep(Duration::from_millis(50));
                                if HEARTBEAT.load(SeqCst) != hb
                                    || snap(pid) != c0
                                    || snap_path(&format!("/proc/self/task/{tid}")) != me
                                {
                                    stable = false;
                                    break;
                                }
                            }
                            if stable {
                                *FINDING.lock().unwrap() = Some(SentFinding::ThreadBlocked {
                                    parent: describe(mine.unwrap(), false),
                                    child: describe(cb.unwrap(), true),
                                });
                                unsafe { libc::kill(pid, libc::SIGKILL) };
                                killed_at = Some(Instant::now());
                                continue;
                            }
                        }
                    }
                }
                if stale > Duration::from_millis(WATCHDOG_MS.load(SeqCst)) {
                    let what = format!(
                        "runtime thread made no iteration for {} ms (state {}, {})",
                        stale.as_millis(),
                        me.state,
                        mine.map_or_else(|| "not in a syscall".to_string(), |b| describe(b, false))
                    );
                    *FINDING.lock().unwrap() = Some(SentFinding::Watchdog(what));
                    for pid in target_pids() {
                        unsafe { libc::kill(pid, libc::SIGKILL) };
                    }
                    killed_at = Some(Instant::now());
                }
            }
        })
        .expect("spawn sentinel");
}
