//! C20 (wait keeps the output pipes) — a child whose piped stdout / stderr is
//! left inside `Child` writes *after* the parent has called `wait()` and then
//! exits with its own code: the status must be that code, as with
//! `std::process::Child::wait` (which only closes stdin). The reference is
//! std itself, run on the same command line: a differential oracle.
//!
//! Programs: which of stdout/stderr are piped and left in place, size of the
//! late write (small enough to fit the pipe: nobody reads), delay before it,
//! exit code or self-signal, driver. Hang = watchdog = inconclusive.

use std::{
    os::unix::process::ExitStatusExt,
    process::Stdio,
    time::{Duration, Instant},
};

use compio_driver::{DriverType, ProactorBuilder};
use compio_runtime::Runtime;
use vcommon::{Args, Report, Rng, Value, json, panics};

#[derive(Debug, Clone)]
struct Prog {
    driver: &'static str,
    out_piped: bool,
    err_piped: bool,
    /// the late write goes to stdout (true) or stderr
    to_out: bool,
    size: usize,
    delay_ms: u64,
    /// exit code, or 256 + signal number for a child that kills itself
    end: u32,
}

impl Prog {
    fn to_json(&self) -> Value {
        json!({"driver": self.driver, "out_piped": self.out_piped, "err_piped": self.err_piped, "to_out": self.to_out,
               "size": self.size, "delay_ms": self.delay_ms, "end": self.end})
    }

    fn from_json(v: &Value) -> Option<Prog> {
        Some(Prog {
            driver: if v["driver"].as_str()? == "poll" { "poll" } else { "iour" },
            out_piped: v["out_piped"].as_bool()?,
            err_piped: v["err_piped"].as_bool()?,
            to_out: v["to_out"].as_bool()?,
            size: v["size"].as_u64()? as usize,
            delay_ms: v["delay_ms"].as_u64()?,
            end: v["end"].as_u64()? as u32,
        })
    }

    fn script(&self) -> String {
        let redir = if self.to_out { "" } else { " >&2" };
        let end = if self.end >= 256 { format!("kill -{} $$", self.end - 256) } else { format!("exit {}", self.end) };
        // the shell itself must be the writer (a builtin), so that a closed pipe hits the shell
        let write = if self.size == 0 { String::new() } else { format!("printf '%{}s' x{redir}; ", self.size) };
        format!("sleep {}.{:03}; {write}{end}", self.delay_ms / 1000, self.delay_ms % 1000)
    }
}

fn generate(rng: &mut Rng, driver: &'static str) -> Prog {
    let to_out = rng.chance(1, 2);
    Prog {
        driver,
        out_piped: to_out || rng.chance(1, 2),
        err_piped: !to_out || rng.chance(1, 2),
        to_out,
        size: *rng.pick(&[0usize, 1, 100, 5000, 60000]),
        delay_ms: *rng.pick(&[0u64, 20, 120, 400]),
        end: *rng.pick(&[0u32, 7, 200, 256 + 15, 256 + 9]),
    }
}

fn stdio(piped: bool) -> Stdio {
    if piped { Stdio::piped() } else { Stdio::null() }
}

fn class(st: &std::process::ExitStatus) -> String {
    match (st.code(), st.signal()) {
        (Some(c), _) => format!("exit:{c}"),
        (None, Some(s)) => format!("signal:{s}"),
        _ => "unknown".into(),
    }
}

fn run_prog(p: &Prog) -> Result<(Option<(String, String)>, String), String> {
    // reference: std::process on the very same command
    let mut c = std::process::Command::new("sh");
    c.arg("-c").arg(p.script()).stdin(Stdio::null()).stdout(stdio(p.out_piped)).stderr(stdio(p.err_piped));
    let mut child = c.spawn().map_err(|e| format!("std spawn: {e}"))?;
    let want = class(&child.wait().map_err(|e| format!("std wait: {e}"))?);
    drop(child);
    // compio
    let mut pb = ProactorBuilder::new();
    pb.driver_type(if p.driver == "poll" { DriverType::Poll } else { DriverType::IoUring });
    let rt = Runtime::builder().with_proactor(pb).build().map_err(|e| format!("runtime: {e}"))?;
    let script = p.script();
    let (op, ep) = (p.out_piped, p.err_piped);
    let t0 = Instant::now();
    let got = rt.block_on(async move {
        let mut c = compio_process::Command::new("sh");
        c.arg("-c").arg(script);
        c.stdin(Stdio::null()).map_err(|_| "stdin".to_string())?;
        c.stdout(stdio(op)).map_err(|_| "stdout".to_string())?;
        c.stderr(stdio(ep)).map_err(|_| "stderr".to_string())?;
        let child = c.spawn().map_err(|e| format!("compio spawn: {e}"))?;
        // stdout / stderr stay inside `child`
        match compio_runtime::time::timeout(Duration::from_secs(20), child.wait()).await {
            Ok(Ok(st)) => Ok(class(&st)),
            Ok(Err(e)) => Err(format!("compio wait: {e}")),
            Err(_) => Err("compio wait did not return within 20 s (watchdog)".to_string()),
        }
    })?;
    let _ = t0;
    let ctx = format!("{}/{}{}", p.driver, if p.to_out { "stdout" } else { "stderr" }, if p.end >= 256 { "/self-signal" } else { "" });
    let sig = format!("{}|{}|size{}|delay{}|{}", p.driver, if p.to_out { "stdout" } else { "stderr" },
        match p.size { 0 => "0", 1..=4096 => "small", _ => "large" }, if p.delay_ms == 0 { "0" } else { "late" }, want);
    if got != want {
        return Ok((Some((format!("C20/wait-status-differs-from-std/{ctx}"),
            format!("a child that writes {} bytes to its piped {} {} ms after start and then ends with `{}`: std::process::Child::wait reports {want}, \
                     compio_process::Child::wait reports {got} (output pipes left inside Child during wait)",
                p.size, if p.to_out { "stdout" } else { "stderr" }, p.delay_ms, if p.end >= 256 { format!("kill -{}", p.end - 256) } else { format!("exit {}", p.end) }))), sig));
    }
    Ok((None, sig))
}

pub fn main(args: &Args) {
    let mut rep = Report::from_args("C20", &args.str("leg", "wait-keeps-pipes"), args);
    let drivers: Vec<&'static str> = match args.get("driver") {
        Some("poll") => vec!["poll"],
        Some("iour") => vec!["iour"],
        _ => vec!["iour", "poll"],
    };
    let progs: Vec<Prog> = if let Some(path) = args.get("replay") {
        let text = std::fs::read_to_string(path).expect("replay file");
        let v: Value = vcommon::serde_json::from_str(&text).expect("json");
        match Prog::from_json(&v["program"]) {
            Some(p) => vec![p; args.usize("repeat", 3)],
            None => {
                rep.inconclusive("replay file has no program");
                rep.finish();
                return;
            }
        }
    } else {
        let base = Rng::new(args.seed()).fork(args.shard() + 1);
        (0..args.iters(40, 1500)).map(|i| generate(&mut base.fork(i as u64), drivers[i % drivers.len()])).collect()
    };
    for p in progs {
        if rep.out_of_time() {
            break;
        }
        match panics::catch(|| run_prog(&p)) {
            Ok(Ok((None, sig))) => {
                rep.eval(if p.size > 0 { Some(sig) } else { None });
                if rep.want_sample() {
                    rep.sample(p.to_json());
                }
            }
            Ok(Ok((Some((s, w)), _))) => {
                rep.eval(None);
                rep.violation(&s, &w, p.to_json());
            }
            Ok(Err(e)) => {
                rep.eval(None);
                rep.inconclusive(&e);
            }
            Err(pi) => {
                rep.eval(None);
                match pi.origin() {
                    panics::Origin::Repo(_) => rep.violation(
                        &format!("C20/{}/{}", pi.sig(), p.driver),
                        &format!("panic in compio at {}:{}: {}", pi.file, pi.line, pi.message),
                        p.to_json(),
                    ),
                    o => rep.inconclusive(&format!("harness panic {o:?}: {}", pi.message)),
                }
            }
        }
    }
    rep.finish();
}
