//! Native harness binary (fusion build: io_uring + polling drivers).

mod c08;
mod c09;
mod c14;
mod c18;
mod c19;
mod c20;
mod c20w;

use vcommon::Args;


fn main() {
    vcommon::panics::install_hook();
    let args = Args::parse();
    match args.cmd.as_str() {
        "noop" => {}
        "c08" => c08::main(&args),
        "c09" => c09::main(&args),
        "c14" => c14::main(&args),
        "c18" => c18::main(&args),
        "c19" => c19::main(&args),
        "c20" => c20::main(&args),
        "c20w" => c20w::main(&args),
        other => {
            eprintln!("unknown subcommand {other:?}");
            std::process::exit(3);
        }
    }
}
