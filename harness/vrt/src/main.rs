//! Native harness binary (fusion build: io_uring + polling drivers).

mod c01;
mod c02;
mod c03r;
mod c05;
mod c06;
mod c07;
mod c08;
mod c09;
mod c14;
mod c17;
mod c18;
mod c19;
mod c20;

use vcommon::Args;

fn main() {
    vcommon::panics::install_hook();
    let args = Args::parse();
    match args.cmd.as_str() {
        "noop" => {}
        "c01" => c01::main(&args),
        "c02" => c02::main(&args),
        "c03r" => c03r::main(&args),
        "c05" => c05::main(&args),
        "c06" => c06::main(&args),
        "c07" => c07::main(&args),
        "c08" => c08::main(&args),
        "c09" => c09::main(&args),
        "c14" => c14::main(&args),
        "c17" => c17::main(&args),
        "c18" => c18::main(&args),
        "c19" => c19::main(&args),
        "c20" => c20::main(&args),
        other => {
            eprintln!("unknown subcommand {other:?}");
            std::process::exit(3);
        }
    }
}
