//! C15 (TLS half) — the TLS layer preserves the stream over any transport
//! behaviour.
//!
//! `compio_tls::{TlsConnector, TlsAcceptor, TlsStream}` are generic over
//! `futures_io::{AsyncRead, AsyncWrite}` and need no runtime, so a client and a
//! server run here against an **in-memory duplex** (`End`) whose two ends each
//! follow a *transfer script*:
//!
//! * per-call read limit and per-call write limit (cyclic sequences, 0 =
//!   unbounded) -> fragmented reads, partial writes;
//! * `Pending` injections per call kind (read / write / flush / close) from a
//!   cyclic pattern; an injected `Pending` leaves the kind *blocked* until a
//!   **deferred wake** matures `delay` executor steps later (a transport that
//!   is "not ready now, ready later");
//! * *buffering* mode: written bytes are staged and reach the peer only on
//!   `poll_flush` / `poll_close` (a `BufWriter`-like transport).
//!
//! Both tasks are polled by a tiny deterministic two-task executor that counts
//! steps (= polls). Verdicts are logical, never by time:
//!
//! * **deadlock**: no task is woken, no deferred wake is outstanding, and not
//!   both tasks are done (sub-classified by where bytes sit: staged/unflushed,
//!   delivered-but-unread, or nowhere);
//! * **spin**: steps exceed a bound proportional to the transport work that was
//!   really done, or a task is polled many times in a row without any progress
//!   anywhere, or a single poll makes an unbounded number of transport calls;
//! * **stream**: plaintext read == plaintext written, in order, exactly once
//!   (position-dependent pattern), for message lists 0 B .. 64 KiB, both
//!   directions;
//! * **close**: after `close()` the peer reads a clean EOF (`Ok(0)`), both ways;
//! * **residue**: at the end nothing is left staged or unread in the duplex.
//!
//! Back-ends: native-tls (OpenSSL) and rustls+ring, in all four client/server
//! combinations; TLS 1.3 and TLS 1.2 (the last flight of the handshake is sent
//! by a different role).
//!
//! Transports (`Case::transport`):
//!
//! * `direct` — `End` implements `futures_io::{AsyncRead, AsyncWrite}` itself
//!   (*readiness model*: a `Pending` call did nothing and must be retried);
//!   with `buffering` a retry of `poll_flush` is what delivers staged bytes.
//! * `compat` — `CompEnd` implements compio-io's completion-style
//!   `AsyncRead`/`AsyncWrite` (+ `Splittable`) and is wrapped in the real
//!   `compio_io::compat::AsyncStream` (the adapter compio offers for
//!   futures-based layers; `SyncStream` is then the buffering transport).
//!   *Completion model*: a submitted write belongs to the "kernel" and is
//!   delivered when its latency (the same `Pending` pattern) is over, whether
//!   or not the future is polled again — as with a proactor. A pass-through
//!   `Probe` between the TLS layer and `AsyncStream` records what the TLS
//!   layer was told, so that a deadlock can be attributed: bytes accepted by
//!   `AsyncStream` but never submitted + last `poll_flush` said `Pending` and
//!   was not retried (TLS layer's fault) vs. said `Ok` (AsyncStream's fault).
//!
//! Signatures. `eval`: (layer+version, back-end, role carrying the hostile
//! script, read limit, write limit, pending pattern, transport). Violations:
//! `C15/tls/<rule>/<diagnosed cause or script class>/<back-end>-<role the
//! failure is attributed to>/<handshake|data|close>[/via-asyncstream]`.
//!
//! `C15T_TRACE=1` prints every transport call of a replay to stderr.

use std::{
    cell::RefCell,
    collections::VecDeque,
    future::Future,
    io,
    pin::Pin,
    rc::Rc,
    sync::{
        Arc,
        atomic::{AtomicBool, Ordering},
    },
    task::{Context, Poll, Wake, Waker},
};

use compio_tls::{TlsAcceptor, TlsConnector, TlsStream};
use futures_util::{AsyncRead, AsyncReadExt, AsyncWrite, AsyncWriteExt};
use vcommon::{Args, Report, Rng, Value, json, panics};

// ---------------------------------------------------------------------------
// Scripts and cases
// ---------------------------------------------------------------------------

const READ: usize = 0;
const WRITE: usize = 1;
const FLUSH: usize = 2;
const CLOSE: usize = 3;
const KIND_NAMES: [&str; 4] = ["read", "write", "flush", "close"];

#[derive(Clone, Debug, PartialEq)]
pub struct EndScript {
    /// Cyclic per-call read limits (0 = unbounded). Empty = unbounded.
    pub rl: Vec<usize>,
    /// Cyclic per-call write limits (0 = unbounded). Empty = unbounded.
    pub wl: Vec<usize>,
    /// Per call kind a cyclic pattern: `true` = this call returns `Pending`
    /// and the kind stays blocked until the deferred wake matures.
    pub pend: [Vec<bool>; 4],
    /// The deferred wake matures this many executor steps after the injection.
    pub delay: u64,
    /// Written bytes reach the peer only on flush / close.
    pub buffering: bool,
}

impl EndScript {
    pub fn benign() -> Self {
        Self {
            rl: vec![],
            wl: vec![],
            pend: Default::default(),
            delay: 0,
            buffering: false,
        }
    }

    /// The enumerated family: fixed limits, `Pending` then `k` ready calls.
    pub fn regular(rl: usize, wl: usize, k: usize, buffering: bool, flush_too: bool) -> Self {
        let pat: Vec<bool> = if k == 0 {
            vec![]
        } else {
            std::iter::once(true)
                .chain(std::iter::repeat_n(false, k))
                .collect()
        };
        Self {
            rl: if rl == 0 { vec![] } else { vec![rl] },
            wl: if wl == 0 { vec![] } else { vec![wl] },
            pend: if flush_too {
                [pat.clone(), pat.clone(), pat.clone(), pat]
            } else {
                [pat.clone(), pat, vec![], vec![]]
            },
            delay: 0,
            buffering,
        }
    }

    fn is_benign(&self) -> bool {
        *self == Self::benign()
    }

    fn has_pending(&self) -> bool {
        self.pend.iter().any(|p| p.iter().any(|b| *b))
    }

    fn to_json(&self) -> Value {
        json!({"rl": self.rl, "wl": self.wl,
               "pend": self.pend.iter().map(|p| p.iter().map(|b| *b as u8).collect::<Vec<_>>()).collect::<Vec<_>>(),
               "delay": self.delay, "buffering": self.buffering})
    }

    fn from_json(v: &Value) -> Self {
        let us = |v: &Value| -> Vec<usize> {
            v.as_array()
                .map(|a| a.iter().map(|x| x.as_u64().unwrap_or(0) as usize).collect())
                .unwrap_or_default()
        };
        let mut pend: [Vec<bool>; 4] = Default::default();
        if let Some(a) = v["pend"].as_array() {
            for (i, p) in a.iter().enumerate().take(4) {
                pend[i] = us(p).into_iter().map(|x| x != 0).collect();
            }
        }
        Self {
            rl: us(&v["rl"]),
            wl: us(&v["wl"]),
            pend,
            delay: v["delay"].as_u64().unwrap_or(0),
            buffering: v["buffering"].as_bool().unwrap_or(false),
        }
    }
}

#[derive(Clone, Copy, Debug, PartialEq, Eq)]
pub enum Backend {
    Native,
    Rustls,
}

impl Backend {
    fn name(self) -> &'static str {
        match self {
            Backend::Native => "native",
            Backend::Rustls => "rustls",
        }
    }

    fn parse(s: &str) -> Self {
        if s == "native" { Backend::Native } else { Backend::Rustls }
    }
}

#[derive(Clone, Debug)]
pub struct Case {
    /// Human label of the generator family ("enum" / "seeded").
    family: String,
    backend: [Backend; 2],
    /// 13 = TLS 1.3, 12 = TLS 1.2 (both sides capped).
    version: u8,
    script: [EndScript; 2],
    /// Which role carries the hostile script: "client" | "server" | "both".
    hostile: String,
    /// Message lists (lengths), client->server then server->client.
    msgs: [Vec<usize>; 2],
    /// Flush after each message (else once after the list).
    flush_each: bool,
    /// Cyclic read buffer sizes of the receiving application.
    read_sizes: Vec<usize>,
    /// 0 = client closes first, 1 = server closes first.
    closer: usize,
    /// 0 round robin, 1 prefer client, 2 prefer server, 3 seeded.
    sched: u8,
    sched_seed: u64,
    pattern_seed: u64,
    /// "direct": the scripted duplex implements the futures-io traits itself
    /// (readiness model). "compat": the duplex implements compio-io's
    /// completion-style traits and is wrapped in the real
    /// `compio_io::compat::AsyncStream` (its `SyncStream` buffers are then
    /// the buffering transport; `buffering` of the script is ignored).
    transport: String,
    /// `AsyncStream::with_limits(compat_cap, compat_max, ..)`; 0 = defaults.
    compat_cap: usize,
    compat_max: usize,
}

impl Case {
    fn to_json(&self) -> Value {
        json!({
            "family": self.family,
            "backend": [self.backend[0].name(), self.backend[1].name()],
            "version": self.version,
            "script": [self.script[0].to_json(), self.script[1].to_json()],
            "hostile": self.hostile,
            "msgs": [self.msgs[0], self.msgs[1]],
            "flush_each": self.flush_each,
            "read_sizes": self.read_sizes,
            "closer": self.closer,
            "sched": self.sched,
            "sched_seed": self.sched_seed,
            "pattern_seed": self.pattern_seed,
            "transport": self.transport,
            "compat_cap": self.compat_cap,
            "compat_max": self.compat_max,
        })
    }

    fn from_json(v: &Value) -> Self {
        let us = |v: &Value| -> Vec<usize> {
            v.as_array()
                .map(|a| a.iter().map(|x| x.as_u64().unwrap_or(0) as usize).collect())
                .unwrap_or_default()
        };
        Self {
            family: v["family"].as_str().unwrap_or("replay").to_string(),
            backend: [
                Backend::parse(v["backend"][0].as_str().unwrap_or("rustls")),
                Backend::parse(v["backend"][1].as_str().unwrap_or("rustls")),
            ],
            version: v["version"].as_u64().unwrap_or(13) as u8,
            script: [
                EndScript::from_json(&v["script"][0]),
                EndScript::from_json(&v["script"][1]),
            ],
            hostile: v["hostile"].as_str().unwrap_or("both").to_string(),
            msgs: [us(&v["msgs"][0]), us(&v["msgs"][1])],
            flush_each: v["flush_each"].as_bool().unwrap_or(true),
            read_sizes: {
                let r = us(&v["read_sizes"]);
                if r.is_empty() { vec![4096] } else { r }
            },
            closer: v["closer"].as_u64().unwrap_or(0) as usize,
            sched: v["sched"].as_u64().unwrap_or(0) as u8,
            sched_seed: v["sched_seed"].as_u64().unwrap_or(0),
            pattern_seed: v["pattern_seed"].as_u64().unwrap_or(0),
            transport: v["transport"].as_str().unwrap_or("direct").to_string(),
            compat_cap: v["compat_cap"].as_u64().unwrap_or(0) as usize,
            compat_max: v["compat_max"].as_u64().unwrap_or(0) as usize,
        }
    }

    /// The script whose class goes into signatures: the hostile role's.
    fn hostile_script(&self) -> &EndScript {
        if self.hostile == "server" { &self.script[1] } else { &self.script[0] }
    }

    /// Class of the transport scripts of the whole case (union of both ends).
    fn script_class(&self) -> String {
        let lim = |f: fn(&EndScript) -> bool| self.script.iter().any(f);
        let r = lim(|s| s.rl.iter().any(|x| *x != 0));
        let w = lim(|s| s.wl.iter().any(|x| *x != 0));
        format!(
            "{}+{}+{}",
            match (r, w) {
                (false, false) => "nolimit",
                (true, false) => "rlimit",
                (false, true) => "wlimit",
                (true, true) => "rwlimit",
            },
            if self.script.iter().any(|s| s.has_pending()) { "pending" } else { "nopending" },
            if self.transport == "compat" {
                "asyncstream"
            } else if self.script.iter().any(|s| s.buffering) {
                "buffering"
            } else {
                "direct"
            }
        )
    }

    fn backends(&self) -> String {
        format!("{}-client+{}-server", self.backend[0].name(), self.backend[1].name())
    }
}

// ---------------------------------------------------------------------------
// The in-memory duplex
// ---------------------------------------------------------------------------

#[derive(Default)]
struct Pipe {
    /// Written but held back until flush (buffering mode only).
    staged: Vec<u8>,
    /// Delivered, readable by the peer.
    wire: VecDeque<u8>,
    closed: bool,
    reader: Option<Waker>,
    /// Total bytes that reached the wire / were consumed from it.
    delivered: u64,
    consumed: u64,
}

impl Pipe {
    fn deliver(&mut self, data: &[u8]) {
        self.wire.extend(data.iter().copied());
        self.delivered += data.len() as u64;
        if let Some(w) = self.reader.take() {
            w.wake();
        }
    }

    fn flush_staged(&mut self) -> usize {
        let n = self.staged.len();
        if n > 0 {
            let s = std::mem::take(&mut self.staged);
            self.deliver(&s);
        }
        n
    }
}

#[derive(Default, Clone, Debug)]
struct EndStats {
    calls: [u64; 4],
    injected: [u64; 4],
    genuine_pending: u64,
    partial_writes: u64,
    short_reads: u64,
    flushes_with_data: u64,
    closes: u64,
    /// Progress-making calls (moved bytes, delivered staged bytes, closed).
    useful: u64,
    /// The last flush/close call returned `Pending` and no flush/close call
    /// was made since.
    flush_pending_outstanding: bool,
    /// Number of flush/close calls after the last staged write.
    flush_calls_since_write: u64,
    /// compat transport: bytes the TLS layer handed to `AsyncStream`
    /// (`poll_write` returned `Ok(n)`), and bytes `AsyncStream` submitted to
    /// the completion-model end. The difference sits in `SyncStream`.
    probe_accepted: u64,
    comp_submitted: u64,
    /// compat transport: result of the last `poll_flush`/`poll_close` the TLS
    /// layer made on `AsyncStream` after its last write: 0 none, 1 Pending,
    /// 2 Ready(Ok), 3 Ready(Err).
    probe_last_flush: u8,
}

struct EndState {
    script: EndScript,
    idx: [usize; 4],
    rl_i: usize,
    wl_i: usize,
    blocked: [bool; 4],
    blocked_waker: [Option<Waker>; 4],
    stats: EndStats,
}

struct Deferred {
    fire_at: u64,
    end: usize,
    kind: usize,
    /// `None`: readiness model, the call kind becomes ready again.
    /// `Some`: completion model, an operation that was submitted finishes now
    /// (a write is delivered to the peer at this moment, whether or not
    /// anybody polls the operation's future: the "kernel" owns it).
    op: Option<Completion>,
}

struct Completion {
    state: Rc<OpState>,
    /// Bytes a write operation delivers on completion.
    data: Option<Vec<u8>>,
    /// A shutdown operation closes the pipe on completion.
    close: bool,
}

#[derive(Default)]
struct OpState {
    done: std::cell::Cell<bool>,
    waker: RefCell<Option<Waker>>,
}

/// Future of a submitted completion-model operation.
struct OpFuture(Rc<OpState>);

impl Future for OpFuture {
    type Output = ();

    fn poll(self: Pin<&mut Self>, cx: &mut Context<'_>) -> Poll<()> {
        if self.0.done.get() {
            Poll::Ready(())
        } else {
            *self.0.waker.borrow_mut() = Some(cx.waker().clone());
            Poll::Pending
        }
    }
}

struct Net {
    /// pipes[0]: client -> server, pipes[1]: server -> client.
    pipes: [Pipe; 2],
    ends: [EndState; 2],
    deferred: Vec<Deferred>,
    step: u64,
    /// Monotone counter of anything that counts as progress.
    progress: u64,
    /// Transport calls without progress inside the current poll.
    idle_calls_in_poll: u64,
}

fn trace_on() -> bool {
    thread_local!(static ON: bool = std::env::var_os("C15T_TRACE").is_some());
    ON.with(|o| *o)
}

macro_rules! trace {
    ($($a:tt)*) => { if trace_on() { eprintln!($($a)*); } };
}

const INPOLL_MARK: &str = "C15T-INPOLL-SPIN";
const INPOLL_LIMIT: u64 = 200_000;

impl Net {
    fn new(scripts: [EndScript; 2]) -> Self {
        let mk = |s: EndScript| EndState {
            script: s,
            idx: [0; 4],
            rl_i: 0,
            wl_i: 0,
            blocked: [false; 4],
            blocked_waker: Default::default(),
            stats: EndStats::default(),
        };
        let [a, b] = scripts;
        Self {
            pipes: Default::default(),
            ends: [mk(a), mk(b)],
            deferred: Vec::new(),
            step: 0,
            progress: 0,
            idle_calls_in_poll: 0,
        }
    }

    fn idle_call(&mut self) {
        self.idle_calls_in_poll += 1;
        if self.idle_calls_in_poll > INPOLL_LIMIT {
            panic!("{INPOLL_MARK}: more than {INPOLL_LIMIT} transport calls without progress inside one poll");
        }
    }

    fn useful(&mut self, me: usize) {
        self.progress += 1;
        self.idle_calls_in_poll = 0;
        self.ends[me].stats.useful += 1;
    }

    /// Returns true if this call must return `Pending` (script injection).
    fn inject(&mut self, me: usize, kind: usize, cx: &mut Context<'_>) -> bool {
        let step = self.step;
        let e = &mut self.ends[me];
        e.stats.calls[kind] += 1;
        if e.blocked[kind] {
            // Still not ready: keep the most recent waker (poll contract).
            e.blocked_waker[kind] = Some(cx.waker().clone());
            self.idle_call();
            return true;
        }
        let pat = &e.script.pend[kind];
        if pat.is_empty() {
            return false;
        }
        let p = pat[e.idx[kind] % pat.len()];
        e.idx[kind] += 1;
        if p {
            e.blocked[kind] = true;
            e.blocked_waker[kind] = Some(cx.waker().clone());
            e.stats.injected[kind] += 1;
            let delay = e.script.delay;
            self.deferred.push(Deferred {
                fire_at: step + delay,
                end: me,
                kind,
                op: None,
            });
            // an injected Pending is transport behaviour, i.e. "work" the
            // layer legitimately has to wait for
            self.progress += 1;
            self.idle_calls_in_poll = 0;
            return true;
        }
        false
    }

    /// Completion model: how many steps the operation submitted now stays in
    /// flight (0 = completes at once), from the same cyclic pattern.
    fn latency(&mut self, me: usize, kind: usize) -> Option<u64> {
        let e = &mut self.ends[me];
        e.stats.calls[kind] += 1;
        let pat = &e.script.pend[kind];
        if pat.is_empty() {
            return None;
        }
        let p = pat[e.idx[kind] % pat.len()];
        e.idx[kind] += 1;
        if p {
            e.stats.injected[kind] += 1;
            Some(e.script.delay)
        } else {
            None
        }
    }

    fn submit(&mut self, me: usize, kind: usize, delay: u64, data: Option<Vec<u8>>, close: bool) -> Rc<OpState> {
        let state = Rc::new(OpState::default());
        self.deferred.push(Deferred {
            fire_at: self.step + delay,
            end: me,
            kind,
            op: Some(Completion {
                state: state.clone(),
                data,
                close,
            }),
        });
        self.progress += 1;
        self.idle_calls_in_poll = 0;
        state
    }

    /// Fire the deferred wakes that are due (all of them if `force`).
    fn fire_due(&mut self, force_one: bool) -> bool {
        let mut fired = false;
        let step = self.step;
        let mut i = 0;
        // when forcing, fire the earliest one only
        let earliest = self.deferred.iter().map(|d| d.fire_at).min();
        while i < self.deferred.len() {
            let due = self.deferred[i].fire_at <= step
                || (force_one && !fired && Some(self.deferred[i].fire_at) == earliest);
            if due {
                let d = self.deferred.remove(i);
                match d.op {
                    None => {
                        let e = &mut self.ends[d.end];
                        e.blocked[d.kind] = false;
                        if let Some(w) = e.blocked_waker[d.kind].take() {
                            w.wake();
                        }
                    }
                    Some(c) => {
                        trace!("  fire completion end={} kind={} data={:?} close={}", d.end, KIND_NAMES[d.kind], c.data.as_ref().map(|x| x.len()), c.close);
                        if let Some(data) = &c.data {
                            self.pipes[d.end].deliver(data);
                        }
                        if c.close {
                            let tx = &mut self.pipes[d.end];
                            tx.closed = true;
                            if let Some(w) = tx.reader.take() {
                                w.wake();
                            }
                        }
                        self.useful(d.end);
                        c.state.done.set(true);
                        if let Some(w) = c.state.waker.borrow_mut().take() {
                            w.wake();
                        }
                    }
                }
                fired = true;
            } else {
                i += 1;
            }
        }
        fired
    }
}

pub struct End {
    net: Rc<RefCell<Net>>,
    me: usize,
}

impl AsyncRead for End {
    fn poll_read(
        self: Pin<&mut Self>,
        cx: &mut Context<'_>,
        buf: &mut [u8],
    ) -> Poll<io::Result<usize>> {
        let me = self.me;
        let net = &mut *self.net.borrow_mut();
        if buf.is_empty() {
            net.idle_call();
            return Poll::Ready(Ok(0));
        }
        if net.inject(me, READ, cx) {
            return Poll::Pending;
        }
        let lim = {
            let e = &mut net.ends[me];
            let l = if e.script.rl.is_empty() {
                0
            } else {
                let l = e.script.rl[e.rl_i % e.script.rl.len()];
                e.rl_i += 1;
                l
            };
            if l == 0 { usize::MAX } else { l }
        };
        let rx = &mut net.pipes[1 - me];
        if rx.wire.is_empty() {
            if rx.closed {
                net.useful(me);
                return Poll::Ready(Ok(0));
            }
            rx.reader = Some(cx.waker().clone());
            net.ends[me].stats.genuine_pending += 1;
            net.idle_call();
            return Poll::Pending;
        }
        let avail = rx.wire.len();
        let n = buf.len().min(avail).min(lim);
        for b in buf.iter_mut().take(n) {
            *b = rx.wire.pop_front().expect("wire has n bytes");
        }
        rx.consumed += n as u64;
        if n < buf.len().min(avail) {
            net.ends[me].stats.short_reads += 1;
        }
        net.useful(me);
        Poll::Ready(Ok(n))
    }
}

impl AsyncWrite for End {
    fn poll_write(
        self: Pin<&mut Self>,
        cx: &mut Context<'_>,
        buf: &[u8],
    ) -> Poll<io::Result<usize>> {
        let me = self.me;
        let net = &mut *self.net.borrow_mut();
        if buf.is_empty() {
            net.idle_call();
            return Poll::Ready(Ok(0));
        }
        if net.inject(me, WRITE, cx) {
            return Poll::Pending;
        }
        if net.pipes[me].closed {
            net.idle_call();
            return Poll::Ready(Err(io::Error::new(
                io::ErrorKind::BrokenPipe,
                "write after close on the scripted duplex",
            )));
        }
        let e = &mut net.ends[me];
        let lim = if e.script.wl.is_empty() {
            0
        } else {
            let l = e.script.wl[e.wl_i % e.script.wl.len()];
            e.wl_i += 1;
            l
        };
        let n = if lim == 0 { buf.len() } else { buf.len().min(lim) };
        if n < buf.len() {
            e.stats.partial_writes += 1;
        }
        let buffering = e.script.buffering;
        let tx = &mut net.pipes[me];
        if buffering {
            tx.staged.extend_from_slice(&buf[..n]);
            e.stats.flush_calls_since_write = 0;
        } else {
            tx.deliver(&buf[..n]);
        }
        net.useful(me);
        Poll::Ready(Ok(n))
    }

    fn poll_flush(self: Pin<&mut Self>, cx: &mut Context<'_>) -> Poll<io::Result<()>> {
        let me = self.me;
        let net = &mut *self.net.borrow_mut();
        net.ends[me].stats.flush_calls_since_write += 1;
        if net.inject(me, FLUSH, cx) {
            net.ends[me].stats.flush_pending_outstanding = true;
            return Poll::Pending;
        }
        net.ends[me].stats.flush_pending_outstanding = false;
        if net.pipes[me].flush_staged() > 0 {
            net.ends[me].stats.flushes_with_data += 1;
            net.useful(me);
        } else {
            net.idle_call();
        }
        Poll::Ready(Ok(()))
    }

    fn poll_close(self: Pin<&mut Self>, cx: &mut Context<'_>) -> Poll<io::Result<()>> {
        let me = self.me;
        let net = &mut *self.net.borrow_mut();
        net.ends[me].stats.flush_calls_since_write += 1;
        if net.inject(me, CLOSE, cx) {
            net.ends[me].stats.flush_pending_outstanding = true;
            return Poll::Pending;
        }
        net.ends[me].stats.flush_pending_outstanding = false;
        let tx = &mut net.pipes[me];
        tx.flush_staged();
        if !tx.closed {
            tx.closed = true;
            if let Some(w) = tx.reader.take() {
                w.wake();
            }
            net.ends[me].stats.closes += 1;
            net.useful(me);
        } else {
            net.idle_call();
        }
        Poll::Ready(Ok(()))
    }
}

// ---------------------------------------------------------------------------
// Completion-model end: compio-io `AsyncRead`/`AsyncWrite` (what compio's own
// streams implement), to be wrapped in the real `compio_io::compat::AsyncStream`
// ---------------------------------------------------------------------------

pub struct CompEnd {
    net: Rc<RefCell<Net>>,
    me: usize,
}

pub struct CompRead {
    net: Rc<RefCell<Net>>,
    me: usize,
}

pub struct CompWrite {
    net: Rc<RefCell<Net>>,
    me: usize,
}

impl compio_io::util::Splittable for CompEnd {
    type ReadHalf = CompRead;
    type WriteHalf = CompWrite;

    fn split(self) -> (CompRead, CompWrite) {
        (
            CompRead {
                net: self.net.clone(),
                me: self.me,
            },
            CompWrite {
                net: self.net,
                me: self.me,
            },
        )
    }
}

/// Wait until the incoming pipe has data or is closed.
struct Readable<'a>(&'a Rc<RefCell<Net>>, usize);

impl Future for Readable<'_> {
    type Output = ();

    fn poll(self: Pin<&mut Self>, cx: &mut Context<'_>) -> Poll<()> {
        let net = &mut *self.0.borrow_mut();
        let me = self.1;
        let rx = &mut net.pipes[1 - me];
        if rx.wire.is_empty() && !rx.closed {
            rx.reader = Some(cx.waker().clone());
            net.ends[me].stats.genuine_pending += 1;
            net.idle_call();
            Poll::Pending
        } else {
            Poll::Ready(())
        }
    }
}

impl compio_io::AsyncRead for CompRead {
    async fn read<B: compio_buf::IoBufMut>(&mut self, mut buf: B) -> compio_buf::BufResult<usize, B> {
        use compio_buf::SetLenExt;
        let me = self.me;
        if buf.as_uninit().is_empty() {
            return compio_buf::BufResult(Ok(0), buf);
        }
        // the operation is submitted; it may stay in flight for a while
        let lat = self.net.borrow_mut().latency(me, READ);
        trace!("  [{}] comp.read submit lat={lat:?}", me);
        if let Some(delay) = lat {
            let st = self.net.borrow_mut().submit(me, READ, delay, None, false);
            OpFuture(st).await;
        }
        Readable(&self.net, me).await;
        let net = &mut *self.net.borrow_mut();
        let lim = {
            let e = &mut net.ends[me];
            let l = if e.script.rl.is_empty() {
                0
            } else {
                let l = e.script.rl[e.rl_i % e.script.rl.len()];
                e.rl_i += 1;
                l
            };
            if l == 0 { usize::MAX } else { l }
        };
        let rx = &mut net.pipes[1 - me];
        let dst = buf.as_uninit();
        let avail = rx.wire.len();
        let n = dst.len().min(avail).min(lim);
        for d in dst.iter_mut().take(n) {
            d.write(rx.wire.pop_front().expect("wire has n bytes"));
        }
        rx.consumed += n as u64;
        if n < dst.len().min(avail) {
            net.ends[me].stats.short_reads += 1;
        }
        net.useful(me);
        trace!("  [{}] comp.read -> {n} (avail {avail}) step={}", me, net.step);
        unsafe { buf.advance_to(n) };
        compio_buf::BufResult(Ok(n), buf)
    }
}

impl compio_io::AsyncWrite for CompWrite {
    async fn write<T: compio_buf::IoBuf>(&mut self, buf: T) -> compio_buf::BufResult<usize, T> {
        let me = self.me;
        let n = {
            let net = &mut *self.net.borrow_mut();
            let src = buf.as_init();
            if src.is_empty() {
                net.idle_call();
                None
            } else if net.pipes[me].closed {
                net.idle_call();
                return compio_buf::BufResult(
                    Err(io::Error::new(io::ErrorKind::BrokenPipe, "write after shutdown on the scripted duplex")),
                    buf,
                );
            } else {
                let lat = net.latency(me, WRITE);
                let e = &mut net.ends[me];
                let lim = if e.script.wl.is_empty() {
                    0
                } else {
                    let l = e.script.wl[e.wl_i % e.script.wl.len()];
                    e.wl_i += 1;
                    l
                };
                let n = if lim == 0 { src.len() } else { src.len().min(lim) };
                if n < src.len() {
                    e.stats.partial_writes += 1;
                }
                e.stats.comp_submitted += n as u64;
                trace!("  [{}] comp.write submit len={} n={n} lat={lat:?} step={}", me, src.len(), net.step);
                match lat {
                    None => {
                        net.pipes[me].deliver(&src[..n]);
                        net.useful(me);
                        Some((n, None))
                    }
                    Some(delay) => {
                        // the "kernel" owns a copy and will deliver it
                        let st = net.submit(me, WRITE, delay, Some(src[..n].to_vec()), false);
                        Some((n, Some(st)))
                    }
                }
            }
        };
        match n {
            None => compio_buf::BufResult(Ok(0), buf),
            Some((n, None)) => compio_buf::BufResult(Ok(n), buf),
            Some((n, Some(st))) => {
                OpFuture(st).await;
                compio_buf::BufResult(Ok(n), buf)
            }
        }
    }

    async fn flush(&mut self) -> io::Result<()> {
        // like a socket: nothing is buffered below; the call may still take time
        let me = self.me;
        let lat = self.net.borrow_mut().latency(me, FLUSH);
        trace!("  [{}] comp.flush lat={lat:?}", me);
        if let Some(delay) = lat {
            let st = self.net.borrow_mut().submit(me, FLUSH, delay, None, false);
            OpFuture(st).await;
        } else {
            self.net.borrow_mut().idle_call();
        }
        Ok(())
    }

    async fn shutdown(&mut self) -> io::Result<()> {
        let me = self.me;
        let lat = self.net.borrow_mut().latency(me, CLOSE);
        let already = self.net.borrow().pipes[me].closed;
        if already {
            self.net.borrow_mut().idle_call();
            return Ok(());
        }
        self.net.borrow_mut().ends[me].stats.closes += 1;
        let st = self.net.borrow_mut().submit(me, CLOSE, lat.unwrap_or(0), None, true);
        OpFuture(st).await;
        Ok(())
    }
}

/// Pass-through between the TLS layer and `AsyncStream` that only records
/// what the TLS layer was told (for attributing a deadlock to the right
/// layer). It never changes a result.
pub struct Probe<S> {
    inner: S,
    net: Rc<RefCell<Net>>,
    me: usize,
}

impl<S: AsyncRead + Unpin> AsyncRead for Probe<S> {
    fn poll_read(mut self: Pin<&mut Self>, cx: &mut Context<'_>, buf: &mut [u8]) -> Poll<io::Result<usize>> {
        Pin::new(&mut self.inner).poll_read(cx, buf)
    }
}

impl<S: AsyncWrite + Unpin> AsyncWrite for Probe<S> {
    fn poll_write(mut self: Pin<&mut Self>, cx: &mut Context<'_>, buf: &[u8]) -> Poll<io::Result<usize>> {
        let r = Pin::new(&mut self.inner).poll_write(cx, buf);
        if let Poll::Ready(Ok(n)) = &r
            && *n > 0
        {
            let me = self.me;
            let st = &mut self.net.borrow_mut().ends[me].stats;
            st.probe_accepted += *n as u64;
            st.probe_last_flush = 0;
        }
        trace!("  [{}] asyncstream.poll_write({}) -> {:?}", self.me, buf.len(), match &r { Poll::Pending => "Pending".to_string(), Poll::Ready(x) => format!("{:?}", x.as_ref().map_err(|e| e.kind())) });
        r
    }

    fn poll_flush(mut self: Pin<&mut Self>, cx: &mut Context<'_>) -> Poll<io::Result<()>> {
        let r = Pin::new(&mut self.inner).poll_flush(cx);
        let me = self.me;
        self.net.borrow_mut().ends[me].stats.probe_last_flush = match &r {
            Poll::Pending => 1,
            Poll::Ready(Ok(())) => 2,
            Poll::Ready(Err(_)) => 3,
        };
        trace!("  [{}] asyncstream.poll_flush -> {:?}", self.me, match &r { Poll::Pending => "Pending".to_string(), Poll::Ready(x) => format!("{:?}", x.as_ref().map_err(|e| e.kind())) });
        r
    }

    fn poll_close(mut self: Pin<&mut Self>, cx: &mut Context<'_>) -> Poll<io::Result<()>> {
        let r = Pin::new(&mut self.inner).poll_close(cx);
        let me = self.me;
        self.net.borrow_mut().ends[me].stats.probe_last_flush = match &r {
            Poll::Pending => 1,
            Poll::Ready(Ok(())) => 2,
            Poll::Ready(Err(_)) => 3,
        };
        trace!("  [{}] asyncstream.poll_close -> {:?}", self.me, match &r { Poll::Pending => "Pending".to_string(), Poll::Ready(x) => format!("{:?}", x.as_ref().map_err(|e| e.kind())) });
        r
    }
}

// ---------------------------------------------------------------------------
// TLS material (once per process)
// ---------------------------------------------------------------------------

/// Acceptors / connectors for the process-wide self-signed certificate;
/// index 0 = default protocol versions (TLS 1.3), 1 = capped at TLS 1.2.
/// Shared with the WebSocket module (`c15w`).
pub(crate) struct Material {
    pub(crate) native_acc: [TlsAcceptor; 2],
    pub(crate) native_con: [TlsConnector; 2],
    pub(crate) rustls_acc: [TlsAcceptor; 2],
    pub(crate) rustls_con: [TlsConnector; 2],
}

thread_local! {
    static MATERIAL: RefCell<Option<Rc<Material>>> = const { RefCell::new(None) };
}

fn build_material() -> Result<Material, String> {
    let rcgen::CertifiedKey { cert, signing_key } =
        rcgen::generate_simple_self_signed(vec!["localhost".to_string()])
            .map_err(|e| format!("rcgen: {e}"))?;
    let cert_pem = cert.pem();
    let key_pem = signing_key.serialize_pem();
    let cert_der = cert.der().clone();
    let key_der = signing_key.serialize_der();

    // [0] = TLS 1.3 allowed (default), [1] = capped at TLS 1.2
    let native = |cap12: bool| -> Result<(TlsAcceptor, TlsConnector), String> {
        let id = native_tls::Identity::from_pkcs8(cert_pem.as_bytes(), key_pem.as_bytes())
            .map_err(|e| format!("native identity: {e}"))?;
        let mut ab = native_tls::TlsAcceptor::builder(id);
        let mut cb = native_tls::TlsConnector::builder();
        cb.add_root_certificate(
            native_tls::Certificate::from_pem(cert_pem.as_bytes())
                .map_err(|e| format!("native cert: {e}"))?,
        );
        if cap12 {
            ab.max_protocol_version(Some(native_tls::Protocol::Tlsv12));
            cb.max_protocol_version(Some(native_tls::Protocol::Tlsv12));
        }
        Ok((
            TlsAcceptor::from(ab.build().map_err(|e| format!("native acceptor: {e}"))?),
            TlsConnector::from(cb.build().map_err(|e| format!("native connector: {e}"))?),
        ))
    };
    let rtls = |cap12: bool| -> Result<(TlsAcceptor, TlsConnector), String> {
        let provider = Arc::new(rustls::crypto::ring::default_provider());
        let versions: &[&rustls::SupportedProtocolVersion] = if cap12 {
            &[&rustls::version::TLS12]
        } else {
            rustls::ALL_VERSIONS
        };
        let key = rustls::pki_types::PrivateKeyDer::Pkcs8(
            rustls::pki_types::PrivatePkcs8KeyDer::from(key_der.clone()),
        );
        let sc = rustls::ServerConfig::builder_with_provider(provider.clone())
            .with_protocol_versions(versions)
            .map_err(|e| format!("rustls versions: {e}"))?
            .with_no_client_auth()
            .with_single_cert(vec![cert_der.clone()], key)
            .map_err(|e| format!("rustls server cert: {e}"))?;
        let mut store = rustls::RootCertStore::empty();
        store
            .add(cert_der.clone())
            .map_err(|e| format!("rustls root: {e}"))?;
        let cc = rustls::ClientConfig::builder_with_provider(provider)
            .with_protocol_versions(versions)
            .map_err(|e| format!("rustls versions: {e}"))?
            .with_root_certificates(store)
            .with_no_client_auth();
        Ok((TlsAcceptor::from(Arc::new(sc)), TlsConnector::from(Arc::new(cc))))
    };
    let (na0, nc0) = native(false)?;
    let (na1, nc1) = native(true)?;
    let (ra0, rc0) = rtls(false)?;
    let (ra1, rc1) = rtls(true)?;
    Ok(Material {
        native_acc: [na0, na1],
        native_con: [nc0, nc1],
        rustls_acc: [ra0, ra1],
        rustls_con: [rc0, rc1],
    })
}

pub(crate) fn material() -> Result<Rc<Material>, String> {
    MATERIAL.with(|m| {
        if let Some(m) = m.borrow().as_ref() {
            return Ok(m.clone());
        }
        let built = Rc::new(build_material()?);
        *m.borrow_mut() = Some(built.clone());
        Ok(built)
    })
}

// ---------------------------------------------------------------------------
// The two application tasks
// ---------------------------------------------------------------------------

#[derive(Clone, Copy, Debug, PartialEq, Eq)]
enum Phase {
    Handshake,
    Send,
    Recv,
    Close,
    WaitEof,
    Done,
}

impl Phase {
    fn name(self) -> &'static str {
        match self {
            Phase::Handshake => "handshake",
            Phase::Send => "send",
            Phase::Recv => "recv",
            Phase::Close => "close",
            Phase::WaitEof => "wait-eof",
            Phase::Done => "done",
        }
    }
}

#[derive(Debug)]
struct SideLog {
    phase: Phase,
    /// (rule, detail)
    failure: Option<(String, String)>,
    handshake_done_at: Option<u64>,
    written: u64,
    read: u64,
    /// Application-level progress events (phase changes, bytes).
    events: u64,
}

type Shared = Rc<RefCell<SideLog>>;

fn pattern_byte(seed: u64, dir: usize, i: u64) -> u8 {
    let mut x = i
        .wrapping_add(seed)
        .wrapping_mul(0x9E37_79B9_7F4A_7C15)
        .wrapping_add(dir as u64 * 0x5851_F42D_4C95_7F2D);
    x ^= x >> 29;
    x = x.wrapping_mul(0xBF58_476D_1CE4_E5B9);
    (x >> 32) as u8
}

fn set_phase(log: &Shared, net: &Rc<RefCell<Net>>, p: Phase) {
    let mut l = log.borrow_mut();
    l.phase = p;
    l.events += 1;
    net.borrow_mut().progress += 1;
}

fn fail(log: &Shared, rule: &str, detail: String) {
    let mut l = log.borrow_mut();
    if l.failure.is_none() {
        l.failure = Some((rule.to_string(), detail));
    }
}

async fn send_list<S: AsyncRead + AsyncWrite + Unpin>(
    s: &mut TlsStream<S>,
    case: &Case,
    dir: usize,
    log: &Shared,
    net: &Rc<RefCell<Net>>,
) -> Result<(), ()> {
    let mut off = 0u64;
    for len in case.msgs[dir].iter().copied() {
        let data: Vec<u8> = (0..len as u64)
            .map(|i| pattern_byte(case.pattern_seed, dir, off + i))
            .collect();
        if len == 0 {
            // a zero-length application write: must be harmless
            let r = std::future::poll_fn(|cx| Pin::new(&mut *s).poll_write(cx, &[])).await;
            match r {
                Ok(0) => {}
                Ok(n) => {
                    fail(log, "zero-write-count", format!("write(&[]) returned Ok({n})"));
                    return Err(());
                }
                Err(e) => {
                    fail(log, "zero-write-error", format!("write(&[]) failed: {e}"));
                    return Err(());
                }
            }
        } else if let Err(e) = s.write_all(&data).await {
            fail(log, "write-error", format!("write_all of {len} bytes at offset {off} failed: {e}"));
            return Err(());
        }
        off += len as u64;
        {
            let mut l = log.borrow_mut();
            l.written = off;
            l.events += 1;
        }
        net.borrow_mut().progress += 1;
        if case.flush_each
            && let Err(e) = s.flush().await
        {
            fail(log, "flush-error", format!("flush after offset {off} failed: {e}"));
            return Err(());
        }
    }
    if let Err(e) = s.flush().await {
        fail(log, "flush-error", format!("final flush failed: {e}"));
        return Err(());
    }
    Ok(())
}

async fn recv_list<S: AsyncRead + AsyncWrite + Unpin>(
    s: &mut TlsStream<S>,
    case: &Case,
    dir: usize,
    role: usize,
    log: &Shared,
    net: &Rc<RefCell<Net>>,
) -> Result<(), ()> {
    let total: u64 = case.msgs[dir].iter().map(|x| *x as u64).sum();
    let mut got = 0u64;
    let mut i = role * 3; // the two roles walk the size list out of phase
    let mut buf = vec![0u8; case.read_sizes.iter().copied().max().unwrap_or(1).max(1)];
    while got < total {
        let sz = case.read_sizes[i % case.read_sizes.len()].max(1);
        i += 1;
        // never ask for more than what is still expected, so that data of the
        // next phase cannot be swallowed here
        let want = (sz as u64).min(total - got) as usize;
        let n = match s.read(&mut buf[..want]).await {
            Ok(n) => n,
            Err(e) => {
                fail(log, "read-error", format!("read at offset {got}/{total} failed: {e}"));
                return Err(());
            }
        };
        if n == 0 {
            fail(log, "early-eof", format!("EOF at offset {got} of {total}"));
            return Err(());
        }
        if n > want {
            fail(log, "read-overrun", format!("read returned {n} for a {want}-byte buffer"));
            return Err(());
        }
        for (k, b) in buf[..n].iter().enumerate() {
            let exp = pattern_byte(case.pattern_seed, dir, got + k as u64);
            if *b != exp {
                fail(
                    log,
                    "data-mismatch",
                    format!("byte {} of the stream is {b:#04x}, expected {exp:#04x} (read of {n} at offset {got})", got + k as u64),
                );
                return Err(());
            }
        }
        got += n as u64;
        {
            let mut l = log.borrow_mut();
            l.read = got;
            l.events += 1;
        }
        net.borrow_mut().progress += 1;
    }
    Ok(())
}

async fn expect_eof<S: AsyncRead + AsyncWrite + Unpin>(s: &mut TlsStream<S>, log: &Shared) -> Result<(), ()> {
    let mut b = [0u8; 16];
    match s.read(&mut b).await {
        Ok(0) => Ok(()),
        Ok(n) => {
            fail(log, "extra-data", format!("{n} unexpected plaintext bytes where EOF was due (duplicate or invented data)"));
            Err(())
        }
        Err(e) => {
            fail(log, "eof-not-clean", format!("read after the peer's close failed instead of returning EOF: {e} ({:?})", e.kind()));
            Err(())
        }
    }
}

async fn side<S: AsyncRead + AsyncWrite + Unpin>(role: usize, end: S, case: Rc<Case>, log: Shared, net: Rc<RefCell<Net>>) {
    let m = match material() {
        Ok(m) => m,
        Err(e) => {
            fail(&log, "harness", e);
            return;
        }
    };
    let v = if case.version == 12 { 1 } else { 0 };
    let hs = if role == 0 {
        let c = match case.backend[0] {
            Backend::Native => m.native_con[v].clone(),
            Backend::Rustls => m.rustls_con[v].clone(),
        };
        c.connect("localhost", end).await
    } else {
        let a = match case.backend[1] {
            Backend::Native => m.native_acc[v].clone(),
            Backend::Rustls => m.rustls_acc[v].clone(),
        };
        a.accept(end).await
    };
    let mut s = match hs {
        Ok(s) => s,
        Err(e) => {
            fail(&log, "handshake-error", format!("{e}"));
            return;
        }
    };
    log.borrow_mut().handshake_done_at = Some(net.borrow().step);
    // phase A: client -> server; phase B: server -> client
    for dir in 0..2 {
        if role == dir {
            set_phase(&log, &net, Phase::Send);
            if send_list(&mut s, &case, dir, &log, &net).await.is_err() {
                return;
            }
        } else {
            set_phase(&log, &net, Phase::Recv);
            if recv_list(&mut s, &case, dir, role, &log, &net).await.is_err() {
                return;
            }
        }
    }
    if role == case.closer {
        set_phase(&log, &net, Phase::Close);
        if let Err(e) = s.close().await {
            fail(&log, "close-error", format!("close failed: {e}"));
            return;
        }
        set_phase(&log, &net, Phase::WaitEof);
        if expect_eof(&mut s, &log).await.is_err() {
            return;
        }
    } else {
        set_phase(&log, &net, Phase::WaitEof);
        if expect_eof(&mut s, &log).await.is_err() {
            return;
        }
        set_phase(&log, &net, Phase::Close);
        if let Err(e) = s.close().await {
            fail(&log, "close-error", format!("close after the peer's close failed: {e}"));
            return;
        }
    }
    set_phase(&log, &net, Phase::Done);
    drop(s);
}

// ---------------------------------------------------------------------------
// The deterministic two-task executor
// ---------------------------------------------------------------------------

struct TaskWaker {
    woken: AtomicBool,
}

impl Wake for TaskWaker {
    fn wake(self: Arc<Self>) {
        self.woken.store(true, Ordering::SeqCst);
    }

    fn wake_by_ref(self: &Arc<Self>) {
        self.woken.store(true, Ordering::SeqCst);
    }
}

#[derive(Debug, Clone)]
pub struct Failure {
    rule: String,
    /// Diagnosed cause (deadlocks) or empty.
    cause: String,
    /// The side the failure is attributed to: 0 client, 1 server.
    side: usize,
    detail: String,
}

#[derive(Debug)]
pub struct Outcome {
    /// None = held.
    failure: Option<Failure>,
    steps: u64,
    hs_steps: [Option<u64>; 2],
    stats: [EndStats; 2],
    delivered: [u64; 2],
    phases: [Phase; 2],
}

const STREAK_LIMIT: u64 = 2_000;

fn run_case(case: &Case) -> Outcome {
    let case = Rc::new(case.clone());
    let net = Rc::new(RefCell::new(Net::new(case.script.clone())));
    let logs: [Shared; 2] = std::array::from_fn(|_| {
        Rc::new(RefCell::new(SideLog {
            phase: Phase::Handshake,
            failure: None,
            handshake_done_at: None,
            written: 0,
            read: 0,
            events: 0,
        }))
    });
    let mut tasks: [Option<Pin<Box<dyn Future<Output = ()>>>>; 2] = std::array::from_fn(|r| {
        if case.transport == "compat" {
            use compio_io::compat::AsyncStream;
            let ce = CompEnd {
                net: net.clone(),
                me: r,
            };
            // `AsyncStream` is `!Unpin`; a pinned box is `Unpin` and forwards
            // the futures-io traits
            let st: Pin<Box<AsyncStream<CompEnd>>> = Box::pin(match (case.compat_cap, case.compat_max) {
                (0, _) => AsyncStream::new(ce),
                (c, 0) => AsyncStream::with_capacity(c, ce),
                (c, m) => AsyncStream::with_limits(c, m.max(c), ce),
            });
            let st = Probe {
                inner: st,
                net: net.clone(),
                me: r,
            };
            Some(Box::pin(side(r, st, case.clone(), logs[r].clone(), net.clone())) as Pin<Box<dyn Future<Output = ()>>>)
        } else {
            let end = End {
                net: net.clone(),
                me: r,
            };
            Some(Box::pin(side(r, end, case.clone(), logs[r].clone(), net.clone())) as Pin<Box<dyn Future<Output = ()>>>)
        }
    });
    let wakers: [Arc<TaskWaker>; 2] = std::array::from_fn(|_| {
        Arc::new(TaskWaker {
            woken: AtomicBool::new(true),
        })
    });
    let mut rng = Rng::new(case.sched_seed ^ 0x5eed);
    let mut last = 1usize;
    let mut streak = [0u64; 2];
    let mut failure: Option<Failure> = None;
    // generous hard cap; the proportional bound is checked at the end
    let total_bytes: u64 = case.msgs.iter().flatten().map(|x| *x as u64).sum();
    let hard_cap: u64 = 2_000_000 + 200 * total_bytes;

    loop {
        if tasks.iter().all(|t| t.is_none()) {
            break;
        }
        net.borrow_mut().fire_due(false);
        let runnable: Vec<usize> = (0..2)
            .filter(|i| tasks[*i].is_some() && wakers[*i].woken.load(Ordering::SeqCst))
            .collect();
        if runnable.is_empty() {
            if net.borrow_mut().fire_due(true) {
                continue;
            }
            // logical deadlock: nobody is woken, nothing will ever wake anybody
            let n = net.borrow();
            let staged = [n.pipes[0].staged.len(), n.pipes[1].staged.len()];
            let wire = [n.pipes[0].wire.len(), n.pipes[1].wire.len()];
            // attribute: the side whose written bytes are stuck in its own
            // transport buffer; else the side that does not read what was
            // delivered to it; else the first side still pending
            // compat transport: bytes accepted by AsyncStream but not handed on
            let held: [u64; 2] = std::array::from_fn(|i| {
                n.ends[i].stats.probe_accepted.saturating_sub(n.ends[i].stats.comp_submitted)
            });
            let (kind, side, cause) = if let Some(i) = (0..2).find(|i| held[*i] > 0) {
                let cause = match n.ends[i].stats.probe_last_flush {
                    0 => "no-flush-after-write",
                    1 => "flush-pending-never-retried",
                    2 => "asyncstream-flush-returned-ok-with-bytes-buffered",
                    _ => "flush-failed",
                };
                ("deadlock-unflushed", i, cause)
            } else if let Some(i) = (0..2).find(|i| staged[*i] > 0) {
                let st = &n.ends[i].stats;
                let cause = if st.flush_pending_outstanding {
                    "flush-pending-never-retried"
                } else if st.flush_calls_since_write == 0 {
                    "no-flush-after-write"
                } else {
                    "flushed-but-staged"
                };
                ("deadlock-unflushed", i, cause)
            } else if let Some(i) = (0..2).find(|i| wire[*i] > 0) {
                ("deadlock-unread", 1 - i, if n.pipes[i].reader.is_some() { "reader-waker-not-woken" } else { "reader-not-waiting" })
            } else {
                ("deadlock-silent", (0..2).find(|i| tasks[*i].is_some()).unwrap_or(0), "nothing-in-transit")
            };
            let pending_sides: Vec<&str> = (0..2)
                .filter(|i| tasks[*i].is_some())
                .map(|i| ["client", "server"][i])
                .collect();
            failure = Some(Failure {
                rule: kind.to_string(),
                cause: cause.to_string(),
                side,
                detail: format!(
                    "no task is woken and no wake is outstanding at step {}; still pending: {pending_sides:?} (client in {}, server in {}); bytes held inside AsyncStream/SyncStream: client {} server {}; staged (unflushed) bytes c->s {} s->c {}; delivered-but-unread c->s {} s->c {}; reader wakers registered: c->s {} s->c {}; flush calls since last staged write: client {} server {}; last flush returned Pending and was never retried: client {} server {}",
                    n.step,
                    logs[0].borrow().phase.name(),
                    logs[1].borrow().phase.name(),
                    held[0], held[1],
                    staged[0], staged[1], wire[0], wire[1],
                    n.pipes[0].reader.is_some(), n.pipes[1].reader.is_some(),
                    n.ends[0].stats.flush_calls_since_write, n.ends[1].stats.flush_calls_since_write,
                    n.ends[0].stats.flush_pending_outstanding, n.ends[1].stats.flush_pending_outstanding,
                ),
            });
            break;
        }
        let pick = match case.sched {
            1 => runnable[0],
            2 => *runnable.last().expect("non-empty"),
            3 => runnable[rng.below(runnable.len())],
            _ => {
                if runnable.len() == 2 { 1 - last } else { runnable[0] }
            }
        };
        last = pick;
        wakers[pick].woken.store(false, Ordering::SeqCst);
        let before = {
            let mut n = net.borrow_mut();
            n.idle_calls_in_poll = 0;
            n.progress
        };
        let w = Waker::from(wakers[pick].clone());
        let mut cx = Context::from_waker(&w);
        trace!("step {} poll {} (phase {})", net.borrow().step, ["client", "server"][pick], logs[pick].borrow().phase.name());
        let r = tasks[pick].as_mut().expect("runnable task").as_mut().poll(&mut cx);
        trace!("   -> {}", if r.is_ready() { "ready" } else { "pending" });
        let after = {
            let mut n = net.borrow_mut();
            n.step += 1;
            n.progress
        };
        if r.is_ready() {
            tasks[pick] = None;
            if let Some((rule, detail)) = logs[pick].borrow().failure.clone() {
                failure = Some(Failure { rule, cause: String::new(), side: pick, detail });
                break;
            }
        }
        if after == before {
            streak[pick] += 1;
            if streak[pick] > STREAK_LIMIT {
                failure = Some(Failure {
                    rule: "spin".to_string(),
                    cause: String::new(),
                    side: pick,
                    detail: format!(
                        "{} was polled {STREAK_LIMIT} times in a row without any progress anywhere (phase {})",
                        ["client", "server"][pick],
                        logs[pick].borrow().phase.name()
                    ),
                });
                break;
            }
        } else {
            streak = [0, 0];
        }
        if net.borrow().step > hard_cap {
            failure = Some(Failure { rule: "steps-exceeded".to_string(), cause: String::new(), side: pick, detail: format!("more than {hard_cap} executor steps") });
            break;
        }
    }
    // a failure recorded by a task that is still pending (cannot happen: tasks
    // return after recording) or by the finished one
    if failure.is_none() {
        for (i, l) in logs.iter().enumerate() {
            if let Some((rule, detail)) = l.borrow().failure.clone() {
                failure = Some(Failure { rule, cause: String::new(), side: i, detail });
                break;
            }
        }
    }
    let n = net.borrow();
    let steps = n.step;
    if failure.is_none() {
        // proportional step bound: every poll must be explained by transport
        // work: a progress-making call, an injected Pending, a genuine Pending
        // (waiting for the peer) or an application event
        let work: u64 = n
            .ends
            .iter()
            .map(|e| e.stats.useful + e.stats.injected.iter().sum::<u64>() + e.stats.genuine_pending)
            .sum::<u64>()
            + logs.iter().map(|l| l.borrow().events).sum::<u64>();
        let bound = 64 + 4 * work;
        if steps > bound {
            failure = Some(Failure {
                rule: "steps-disproportionate".to_string(),
                cause: String::new(),
                side: 0,
                detail: format!("{steps} polls for {work} units of transport work (bound {bound})"),
            });
        }
    }
    if failure.is_none() {
        // residue: nothing may be left staged or unread
        let staged = [n.pipes[0].staged.len(), n.pipes[1].staged.len()];
        let wire = [n.pipes[0].wire.len(), n.pipes[1].wire.len()];
        let held: [u64; 2] = std::array::from_fn(|i| {
            n.ends[i].stats.probe_accepted.saturating_sub(n.ends[i].stats.comp_submitted)
        });
        if held.iter().any(|x| *x > 0) {
            failure = Some(Failure {
                rule: "residue-asyncstream".to_string(),
                cause: String::new(),
                side: if held[0] > 0 { 0 } else { 1 },
                detail: format!("both sides finished but bytes the TLS layer wrote are still inside AsyncStream/SyncStream: client {} server {}", held[0], held[1]),
            });
        } else if staged.iter().any(|x| *x > 0) {
            failure = Some(Failure {
                rule: "residue-staged".to_string(),
                cause: String::new(),
                side: if staged[0] > 0 { 0 } else { 1 },
                detail: format!("both sides finished but unflushed bytes remain in the transport: c->s {} s->c {}", staged[0], staged[1]),
            });
        } else if wire.iter().any(|x| *x > 0) {
            failure = Some(Failure {
                rule: "residue-unread".to_string(),
                cause: String::new(),
                side: if wire[0] > 0 { 1 } else { 0 },
                detail: format!("both sides finished (EOF seen) but delivered bytes were never read: c->s {} s->c {}", wire[0], wire[1]),
            });
        }
    }
    Outcome {
        failure,
        steps,
        hs_steps: [logs[0].borrow().handshake_done_at, logs[1].borrow().handshake_done_at],
        stats: [n.ends[0].stats.clone(), n.ends[1].stats.clone()],
        delivered: [n.pipes[0].delivered, n.pipes[1].delivered],
        phases: [logs[0].borrow().phase, logs[1].borrow().phase],
    }
}

// ---------------------------------------------------------------------------
// Case generation
// ---------------------------------------------------------------------------

const LIMITS: [usize; 5] = [1, 2, 3, 5, 0];
const PAIRS: [(Backend, Backend); 4] = [
    (Backend::Native, Backend::Native),
    (Backend::Rustls, Backend::Rustls),
    (Backend::Native, Backend::Rustls),
    (Backend::Rustls, Backend::Native),
];

/// The enumerated family: limits^2 x buffering x pending k x hostile role x
/// back-end pair x TLS version.
fn enumerated(thorough: bool) -> Vec<Case> {
    let mut out = Vec::new();
    let mut n = 0u64;
    for (bc, bs) in PAIRS {
        for version in [13u8, 12] {
            for hostile in ["client", "server", "both"] {
                for rl in LIMITS {
                    for wl in LIMITS {
                        // variant 0/1: readiness-model duplex without/with
                        // buffering; 2: completion-model duplex behind the real
                        // compio_io::compat::AsyncStream
                        for variant in 0..3usize {
                            let buffering = variant == 1;
                            // k = 0: never Pending; else Pending-then-k-ready on
                            // read+write only (kf < 4) or on all four call kinds
                            for kf in 0..9usize {
                                let (k, flush_too) = if kf == 0 { (0, false) } else { ((kf - 1) % 4 + 1, kf > 4) };
                                let s = EndScript::regular(rl, wl, k, buffering, flush_too);
                                if s.is_benign() && hostile != "both" {
                                    continue;
                                }
                                let script = match hostile {
                                    "client" => [s, EndScript::benign()],
                                    "server" => [EndScript::benign(), s],
                                    _ => [s.clone(), s],
                                };
                                n += 1;
                                // message lists cross the 16 KiB record size in one direction
                                let msgs = if thorough {
                                    match n % 3 {
                                        0 => [vec![0, 1, 16384, 700], vec![3, 0, 16385]],
                                        1 => [vec![65536], vec![1, 1, 1, 0, 40000]],
                                        _ => [vec![], vec![17, 32768, 2]],
                                    }
                                } else {
                                    // small in the quick tier (1-byte limits make every
                                    // byte a poll); records > 16 KiB come from the
                                    // seeded family and the thorough tier
                                    match n % 3 {
                                        0 => [vec![0, 1, 700], vec![3, 0, 2500]],
                                        1 => [vec![2100, 2], vec![1, 1, 0, 300]],
                                        _ => [vec![], vec![17, 1000]],
                                    }
                                };
                                out.push(Case {
                                    family: "enum".into(),
                                    backend: [bc, bs],
                                    version,
                                    script,
                                    hostile: hostile.into(),
                                    msgs,
                                    flush_each: n % 2 == 0,
                                    read_sizes: match n % 4 {
                                        0 => vec![1, 7, 4096],
                                        1 => vec![16384],
                                        2 => vec![100_000],
                                        _ => vec![3, 1, 20000, 5],
                                    },
                                    closer: (n % 2) as usize,
                                    sched: 0,
                                    sched_seed: 0,
                                    pattern_seed: n,
                                    transport: if variant == 2 { "compat".into() } else { "direct".into() },
                                    compat_cap: if variant == 2 { [0usize, 1, 64, 4096][(n % 4) as usize] } else { 0 },
                                    compat_max: if variant == 2 { [0usize, 0, 100, 0, 20000][(n % 5) as usize] } else { 0 },
                                });
                            }
                        }
                    }
                }
            }
        }
    }
    out
}

fn seeded_script(rng: &mut Rng) -> EndScript {
    if rng.chance(1, 8) {
        return EndScript::benign();
    }
    let lim_seq = |rng: &mut Rng| -> Vec<usize> {
        match rng.below(5) {
            0 => vec![],
            1 => vec![*rng.pick(&[1usize, 2, 3, 5, 7, 16, 100, 1000, 16384])],
            _ => (0..rng.range(2, 6))
                .map(|_| *rng.pick(&[0usize, 1, 1, 2, 3, 5, 8, 13, 64, 500, 4096, 16384, 20000]))
                .collect(),
        }
    };
    let pat = |rng: &mut Rng| -> Vec<bool> {
        match rng.below(4) {
            0 => vec![],
            1 => {
                let k = rng.range(1, 4);
                std::iter::once(true).chain(std::iter::repeat_n(false, k)).collect()
            }
            _ => {
                let mut p: Vec<bool> = (0..rng.range(2, 9)).map(|_| rng.chance(1, 2)).collect();
                // at least one ready call per cycle, else no progress is possible
                let i = rng.below(p.len());
                p[i] = false;
                p
            }
        }
    };
    EndScript {
        rl: lim_seq(rng),
        wl: lim_seq(rng),
        pend: [pat(rng), pat(rng), pat(rng), pat(rng)],
        delay: *rng.pick(&[0u64, 0, 1, 2, 3, 7]),
        buffering: rng.chance(1, 2),
    }
}

fn seeded_case(rng: &mut Rng, thorough: bool) -> Case {
    let (bc, bs) = *rng.pick(&PAIRS);
    let hostile = *rng.pick(&["client", "server", "both", "both"]);
    let script = match hostile {
        "client" => [seeded_script(rng), EndScript::benign()],
        "server" => [EndScript::benign(), seeded_script(rng)],
        _ => [seeded_script(rng), seeded_script(rng)],
    };
    // bound the cost: tiny limits with big payloads are covered by the
    // enumerated family; here the total stays moderate
    let max_total = if thorough { 160 * 1024 } else { 96 * 1024 };
    let mut lists: [Vec<usize>; 2] = Default::default();
    for l in lists.iter_mut() {
        let n = rng.below(6);
        let mut total = 0usize;
        for _ in 0..n {
            let len = match rng.below(10) {
                0 => 0,
                1 => 1,
                2 => 16384,
                3 => 16385,
                4 => 65536,
                5 => 16383,
                _ => rng.size(20000),
            };
            if total + len > max_total {
                continue;
            }
            total += len;
            l.push(len);
        }
    }
    Case {
        family: "seeded".into(),
        backend: [bc, bs],
        version: if rng.chance(1, 3) { 12 } else { 13 },
        script,
        hostile: hostile.into(),
        msgs: lists,
        flush_each: rng.chance(1, 2),
        read_sizes: (0..rng.range(1, 4))
            .map(|_| *rng.pick(&[1usize, 2, 5, 100, 4096, 16384, 16385, 70000]))
            .collect(),
        closer: rng.below(2),
        sched: rng.below(4) as u8,
        sched_seed: rng.next_u64(),
        pattern_seed: rng.next_u64(),
        transport: if rng.chance(2, 5) { "compat".into() } else { "direct".into() },
        compat_cap: *rng.pick(&[0usize, 0, 1, 16, 300, 8192]),
        compat_max: *rng.pick(&[0usize, 0, 0, 64, 1000, 20000]),
    }
}

// ---------------------------------------------------------------------------
// Evaluation and reporting
// ---------------------------------------------------------------------------

fn lim_str(v: &[usize]) -> String {
    match v {
        [] => "inf".into(),
        [x] => if *x == 0 { "inf".into() } else { x.to_string() },
        _ => "seq".into(),
    }
}

fn pend_str(s: &EndScript) -> String {
    // regular family: patterns equal [true, false x k] on read+write or on all kinds
    let p = &s.pend[0];
    let all = s.pend.iter().all(|q| q == p);
    let rw = s.pend[1] == *p && s.pend[2].is_empty() && s.pend[3].is_empty();
    if all || rw {
        if p.is_empty() {
            return "p0".into();
        }
        if p[0] && p[1..].iter().all(|b| !*b) {
            return format!("p{}{}", p.len() - 1, if all { "all" } else { "rw" });
        }
    }
    let kinds: String = (0..4)
        .filter(|k| s.pend[*k].iter().any(|b| *b))
        .map(|k| &KIND_NAMES[k][..1])
        .collect();
    format!("pseq[{kinds}]d{}", s.delay)
}

/// (layer, back-end, role, read limit, write limit, pending pattern, buffering?)
fn eval_sig(case: &Case) -> String {
    let s = case.hostile_script();
    let (role, be) = match case.hostile.as_str() {
        "client" => ("client", case.backend[0].name().to_string()),
        "server" => ("server", case.backend[1].name().to_string()),
        _ => ("both", format!("{}+{}", case.backend[0].name(), case.backend[1].name())),
    };
    let peer = match case.hostile.as_str() {
        "client" => format!("/peer={}", case.backend[1].name()),
        "server" => format!("/peer={}", case.backend[0].name()),
        _ => String::new(),
    };
    format!(
        "tls{}/{be}/{role}/r{}/w{}/{}/{}{peer}",
        case.version,
        lim_str(&s.rl),
        lim_str(&s.wl),
        pend_str(s),
        if case.transport == "compat" {
            format!("asyncstream[{},{}]", case.compat_cap, case.compat_max)
        } else if s.buffering {
            "buf".to_string()
        } else {
            "direct".to_string()
        }
    )
}

/// Stable class of a violation: rule, diagnosed cause, TLS version, the
/// back-end and role the failure is attributed to, the phase that side was
/// in, and (when no cause was diagnosed) the class of the transport script.
fn violation_sig(case: &Case, f: &Failure, phases: [Phase; 2]) -> String {
    let who = format!("{}-{}", case.backend[f.side].name(), ["client", "server"][f.side]);
    let cause = if f.cause.is_empty() { case.script_class() } else { f.cause.clone() };
    let via = if case.transport == "compat" { "/via-asyncstream" } else { "" };
    if f.cause == "asyncstream-flush-returned-ok-with-bytes-buffered" {
        // compio-io's AsyncStream itself: TLS back-end, role and phase are incidental
        return format!("C15/tls/{}/{}{via}", f.rule, f.cause);
    }
    // stage instead of the exact phase, no TLS version: one root cause = few
    // signatures (both stay visible in the replay program and the eval
    // signatures)
    let stage = match phases[f.side] {
        Phase::Handshake => "handshake",
        Phase::Send | Phase::Recv => "data",
        Phase::Close | Phase::WaitEof | Phase::Done => "close",
    };
    format!("C15/tls/{}/{cause}/{who}/{stage}{via}", f.rule)
}

fn execute(case: &Case, rep: &mut Report) {
    let r = panics::catch(|| run_case(case));
    match r {
        Ok(out) => {
            let trivial = case.script.iter().all(|s| s.is_benign());
            rep.eval(if trivial { None } else { Some(eval_sig(case)) });
            rep.max("steps", out.steps as i64);
            for (i, s) in out.stats.iter().enumerate() {
                rep.count("transport_calls", s.calls.iter().sum::<u64>() as i64);
                rep.count("injected_pendings", s.injected.iter().sum::<u64>() as i64);
                rep.count("partial_writes", s.partial_writes as i64);
                rep.count("short_reads", s.short_reads as i64);
                rep.count("flushes_delivering_staged_bytes", s.flushes_with_data as i64);
                if s.closes > 0 {
                    rep.count(&format!("transport_closed_by_{}", case.backend[i].name()), 1);
                }
            }
            rep.count("ciphertext_bytes", (out.delivered[0] + out.delivered[1]) as i64);
            if let [Some(a), Some(b)] = out.hs_steps {
                rep.max("handshake_steps", a.max(b) as i64);
            }
            match &out.failure {
                None => {
                    let hostile_buf = case.script.iter().any(|s| s.buffering);
                    let pend = case.script.iter().any(|s| s.has_pending());
                    rep.floor("held: handshake+data+close over a buffering transport", hostile_buf);
                    rep.floor("held: with injected Pending + deferred wake", pend && out.stats.iter().any(|s| s.injected.iter().sum::<u64>() > 0));
                    rep.floor("held: with 1-byte partial writes", out.stats.iter().any(|s| s.partial_writes > 0));
                    rep.floor("held: with fragmented reads", out.stats.iter().any(|s| s.short_reads > 0));
                    rep.floor("held: native-tls client", case.backend[0] == Backend::Native);
                    rep.floor("held: native-tls server", case.backend[1] == Backend::Native);
                    rep.floor("held: rustls client", case.backend[0] == Backend::Rustls);
                    rep.floor("held: rustls server", case.backend[1] == Backend::Rustls);
                    rep.floor("held: TLS 1.2", case.version == 12);
                    rep.floor("held: TLS 1.3", case.version == 13);
                    rep.floor("held: 64 KiB message", case.msgs.iter().flatten().any(|m| *m >= 65536));
                    rep.floor("held: 0-byte message", case.msgs.iter().flatten().any(|m| *m == 0));
                    if rep.want_sample() && !trivial {
                        rep.sample(json!({"case": case.to_json(), "steps": out.steps, "handshake_steps": out.hs_steps,
                            "ciphertext_bytes": out.delivered}));
                    }
                }
                Some(f) if f.rule == "harness" => {
                    rep.inconclusive(&format!("harness: {}", f.detail));
                }
                Some(f) => {
                    rep.violation(&violation_sig(case, f, out.phases), &f.detail, case.to_json());
                }
            }
        }
        Err(p) => {
            rep.eval(None);
            if p.message.starts_with(INPOLL_MARK) {
                rep.violation(
                    &format!("C15/tls/spin-inside-poll/tls{}/{}/hostile={}/{}", case.version, case.backends(), case.hostile, case.script_class()),
                    &p.message,
                    case.to_json(),
                );
                return;
            }
            match p.origin() {
                panics::Origin::Repo(loc) if loc.starts_with("compio-io/src/compat/") => rep.violation(
                    // AsyncStream/SyncStream itself: back-ends and roles are incidental
                    &format!("C15/tls/{}/via-asyncstream", p.sig()),
                    &format!("panic in compio at {loc}: {}", p.message),
                    case.to_json(),
                ),
                panics::Origin::Repo(loc) => rep.violation(
                    &format!("C15/tls/{}/tls{}/{}/hostile={}/{}", p.sig(), case.version, case.backends(), case.hostile, case.script_class()),
                    &format!("panic in compio at {loc}: {}", p.message),
                    case.to_json(),
                ),
                o => rep.inconclusive(&format!("harness panic {o:?}: {}", p.message)),
            }
        }
    }
}

pub fn main(args: &Args) {
    let mut rep = Report::from_args("C15", &args.str("leg", "tls"), args);
    if let Err(e) = material() {
        rep.inconclusive(&format!("cannot build TLS material: {e}"));
        rep.finish();
        return;
    }
    if let Some(path) = args.get("replay") {
        let text = std::fs::read_to_string(path).expect("replay file");
        let v: Value = vcommon::serde_json::from_str(&text).expect("replay json");
        let case = Case::from_json(&v["program"]);
        execute(&case, &mut rep);
        rep.finish();
        return;
    }
    let shard = args.shard();
    let nshards = args.nshards();
    let thorough = args.thorough();

    // --- enumerated family, sharded by index
    if !args.flag("no-enum") {
        let cases = enumerated(thorough);
        let stride = args.usize("enum-stride", 1).max(1);
        let mut complete = true;
        let mut ran = 0i64;
        for (i, c) in cases.iter().enumerate() {
            if (i / stride) as u64 % nshards != shard || i % stride != 0 {
                continue;
            }
            if rep.out_of_time() {
                complete = false;
                break;
            }
            execute(c, &mut rep);
            ran += 1;
        }
        if shard == 0 {
            rep.count("enumerated_cases_total", cases.len() as i64);
        }
        rep.count("enumerated_cases_run", ran);
        // a strided leg (sanitizer) samples the family; only the full walk
        // makes a statement about exhaustiveness
        if stride == 1 {
            rep.set_exhaustive(complete);
        }
        rep.note(format!(
            "enumerated family: limits {{1,2,3,5,inf}}^2 x transport {{direct, buffering, AsyncStream}} x Pending-then-k-ready (k=0, k=1..4 on read+write, k=1..4 on read+write+flush+close) x hostile role {{client,server,both}} x 4 back-end pairs x TLS {{1.3,1.2}} = {} cases over all shards, stride {stride}, complete={complete}",
            cases.len()
        ));
    }
    // --- seeded family
    let iters = args.iters(150, 3000);
    let base = Rng::new(args.seed()).fork(shard + 1);
    for i in 0..iters {
        if rep.out_of_time() {
            break;
        }
        let mut rng = base.fork(i as u64);
        let c = seeded_case(&mut rng, thorough);
        execute(&c, &mut rep);
        rep.count("seeded_cases_run", 1);
    }
    rep.finish();
}
