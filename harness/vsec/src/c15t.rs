//! C15 TLS over an in-memory scripted duplex (both back-ends) — not built yet.

use vcommon::Args;

pub fn main(_args: &Args) {
    eprintln!("c15t: not implemented");
    std::process::exit(3);
}
