//! C15 WebSocket over a fragmenting relay — not built yet.

use vcommon::Args;

pub fn main(_args: &Args) {
    eprintln!("c15w: not implemented");
    std::process::exit(3);
}
