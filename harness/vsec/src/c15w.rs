//! C15 (WebSocket half) — the WebSocket layer preserves the message stream
//! over any transport behaviour.
//!
//! `compio_ws::WebSocketStream` is sealed to `PollFd`-based streams, so it runs
//! inside a compio runtime (both drivers) over a **fragmenting relay**:
//!
//! ```text
//!   client task  <-- link A -->  relay thread  <-- link B -->  server task
//!   (compio rt)    socketpair    (std thread,    socketpair    (compio rt)
//!                  or TCP lo     libc poll/recv/send)
//! ```
//!
//! All four sockets can get the kernel-minimum `SO_SNDBUF`/`SO_RCVBUF`; the
//! relay forwards each direction with a seeded cyclic script of
//! `(max bytes per recv, max bytes per send, pause)` and a small internal
//! buffer, which produces real partial writes, `EAGAIN` and 1-byte reads on
//! the compio side. Plain and TLS-wrapped (rustls and native-tls through
//! `compio_tls`, handshake through the same relay).
//!
//! Workload: WebSocket handshake, message lists in both directions (text,
//! binary, ping, ping-and-wait-for-pong; 0 B .. 1 MiB), half-duplex phases or
//! full duplex through `split()`, then the close handshake started by either
//! role, then the transport close.
//!
//! Oracle: messages read == messages sent (kind and payload), in order,
//! exactly once; pongs seen are a subsequence of the pings sent; the close
//! frame arrives unchanged, is echoed, and both sides then observe
//! `ConnectionClosed` (not a reset/protocol error); both tasks terminate.
//!
//! Not judged: tungstenite's handshake "attack check" deliberately rejects an
//! upgrade header that arrives in more than 64 reads averaging under 128 B;
//! plain-ws cases therefore forward the header in chunks of `hs_chunk` bytes
//! (512/64/16/8, sometimes 0 = hostile from the first byte) and an
//! `AttackAttempt` with `hs_chunk < 128` is only counted.
//!
//! Replay-only switches: `control_raw` runs the duplex data phase on a bare
//! `async_tungstenite::WebSocketStream` over the same transport (attribution
//! of a hang to the compio-ws wrapper); `relay.selftest_blackhole` makes the
//! relay swallow bytes (self-test of the hang detector). `C15W_VERBOSE=1`
//! prints one line per case.
//!
//! Signatures. `eval`: (layer, driver, link, relay class, socket buffers,
//! duplex mode, size class[kinds], closer). Violations:
//! `C15/ws/<rule>/<layer>/<role>/<phase>/<driver>/relay=<class>`; the symmetric
//! `hang-mutual-backpressure` only carries layer and duplex mode, other hangs
//! in the full-duplex data phase `C15/ws/<rule>/<layer>/<duplex|duplex-tasks>`.
//!
//! Hangs are decided by **logical quiescence**, never by time: when nothing
//! moved for a while the supervisor asks the relay (probe/ack) whether it is
//! *stalled* (per direction: nothing to forward or the destination socket not
//! writable; nothing readable or its buffer full; no EOF to forward; no pause
//! running), checks the kernel queues of the peers' sockets (TCP: nothing
//! sent-but-unacknowledged), then runs 150 further runtime iterations; if
//! the picture is unchanged, only the peers could change it and they do not:
//! a task that is still pending can never finish: a hang = violation. The per-case watchdog only yields `inconclusive`.

use std::{
    cell::RefCell,
    io,
    os::fd::{AsRawFd, RawFd},
    rc::Rc,
    sync::{
        Arc,
        atomic::{AtomicBool, AtomicU64, Ordering},
    },
    task::{Context, Poll, Waker},
    time::{Duration, Instant},
};

use compio_buf::IntoInner;
use compio_driver::{DriverType, ProactorBuilder};
use compio_runtime::{Runtime, fd::PollFd};
use compio_tls::MaybeTlsStream;
use compio_ws::{
    Config, WebSocketStream, accept_async_with_config, client_async_with_config,
    tungstenite::{
        Error as WsError, Message,
        protocol::{CloseFrame, WebSocketConfig, frame::coding::CloseCode},
    },
};
use futures_util::{AsyncWriteExt, SinkExt, StreamExt};
use socket2::{Domain, Socket, Type};
use vcommon::{Args, Report, Rng, Value, json, panics};

// ---------------------------------------------------------------------------
// Case description
// ---------------------------------------------------------------------------

#[derive(Clone, Debug, PartialEq)]
struct Step {
    rd: usize,
    wr: usize,
    pause_us: u64,
}

#[derive(Clone, Debug)]
struct RelayScript {
    class: String,
    /// Per direction (0: client->server, 1: server->client) a cyclic script.
    steps: [Vec<Step>; 2],
    /// Internal buffer of the relay per direction.
    cap: usize,
    /// Until the end of the HTTP upgrade header (`\r\n\r\n`) was forwarded in
    /// a direction, chunks are at least this large (0 = script applies from
    /// the first byte). tungstenite deliberately rejects a handshake that
    /// arrives in more than 64 reads averaging under 128 B (`AttackAttempt`).
    hs_chunk: usize,
    /// Harness self-test only (replay JSON `selftest_blackhole`): after this
    /// many client->server bytes the relay swallows the rest, which must be
    /// reported as a hang by the quiescence rule.
    blackhole_after: Option<u64>,
}

#[derive(Clone, Copy, Debug, PartialEq, Eq)]
enum Kind {
    Text,
    Binary,
    Ping,
    /// Ping, then read until the matching pong came back.
    PingSync,
}

#[derive(Clone, Debug)]
struct MsgSpec {
    kind: Kind,
    len: usize,
}

#[derive(Clone, Debug)]
struct Case {
    family: String,
    /// "iouring" | "poll"
    driver: String,
    /// "unix" | "tcp"
    link: String,
    /// "none" | "rustls" | "native"
    tls: String,
    /// 0 = kernel default socket buffers, else requested size (kernel clamps
    /// to its minimum).
    sockbuf: usize,
    relay: RelayScript,
    msgs: [Vec<MsgSpec>; 2],
    duplex: bool,
    /// Full duplex only: the write half runs in a task of its own (spawned)
    /// instead of being joined with the reader inside one task, so the two
    /// halves poll the stream with different wakers.
    duplex_tasks: bool,
    /// send(): flush after each message; else feed() all and flush once.
    flush_each: bool,
    /// 0 = client starts the close handshake, 1 = server.
    closer: usize,
    /// 0 default, 1 write_buffer_size = 0, 2 large write buffer.
    wscfg: u8,
    seed: u64,
    /// Control experiment (replay JSON only): run the duplex data phase on a
    /// bare `async_tungstenite::WebSocketStream` over the same transport,
    /// i.e. without compio-ws' wrapper, then stop. Used to attribute a
    /// full-duplex hang to the wrapper.
    control_raw: bool,
}

fn kind_name(k: Kind) -> &'static str {
    match k {
        Kind::Text => "text",
        Kind::Binary => "binary",
        Kind::Ping => "ping",
        Kind::PingSync => "pingsync",
    }
}

fn kind_parse(s: &str) -> Kind {
    match s {
        "text" => Kind::Text,
        "ping" => Kind::Ping,
        "pingsync" => Kind::PingSync,
        _ => Kind::Binary,
    }
}

impl Case {
    fn to_json(&self) -> Value {
        let steps = |v: &Vec<Step>| -> Vec<Value> {
            v.iter().map(|s| json!([s.rd, s.wr, s.pause_us])).collect()
        };
        let msgs = |v: &Vec<MsgSpec>| -> Vec<Value> {
            v.iter().map(|m| json!([kind_name(m.kind), m.len])).collect()
        };
        json!({
            "family": self.family, "driver": self.driver, "link": self.link, "tls": self.tls,
            "sockbuf": self.sockbuf,
            "relay": {"class": self.relay.class, "cap": self.relay.cap, "hs_chunk": self.relay.hs_chunk, "selftest_blackhole": self.relay.blackhole_after,
                      "steps": [steps(&self.relay.steps[0]), steps(&self.relay.steps[1])]},
            "msgs": [msgs(&self.msgs[0]), msgs(&self.msgs[1])],
            "duplex": self.duplex, "duplex_tasks": self.duplex_tasks, "flush_each": self.flush_each, "closer": self.closer,
            "wscfg": self.wscfg, "seed": self.seed, "control_raw": self.control_raw,
        })
    }

    fn from_json(v: &Value) -> Self {
        let steps = |v: &Value| -> Vec<Step> {
            let mut out: Vec<Step> = v
                .as_array()
                .map(|a| {
                    a.iter()
                        .map(|s| Step {
                            rd: s[0].as_u64().unwrap_or(4096).max(1) as usize,
                            wr: s[1].as_u64().unwrap_or(4096).max(1) as usize,
                            pause_us: s[2].as_u64().unwrap_or(0),
                        })
                        .collect()
                })
                .unwrap_or_default();
            if out.is_empty() {
                out.push(Step { rd: 65536, wr: 65536, pause_us: 0 });
            }
            out
        };
        let msgs = |v: &Value| -> Vec<MsgSpec> {
            v.as_array()
                .map(|a| {
                    a.iter()
                        .map(|m| MsgSpec {
                            kind: kind_parse(m[0].as_str().unwrap_or("binary")),
                            len: m[1].as_u64().unwrap_or(0) as usize,
                        })
                        .collect()
                })
                .unwrap_or_default()
        };
        Self {
            family: v["family"].as_str().unwrap_or("replay").into(),
            driver: v["driver"].as_str().unwrap_or("poll").into(),
            link: v["link"].as_str().unwrap_or("unix").into(),
            tls: v["tls"].as_str().unwrap_or("none").into(),
            sockbuf: v["sockbuf"].as_u64().unwrap_or(0) as usize,
            relay: RelayScript {
                class: v["relay"]["class"].as_str().unwrap_or("replay").into(),
                cap: v["relay"]["cap"].as_u64().unwrap_or(65536).max(1) as usize,
                hs_chunk: v["relay"]["hs_chunk"].as_u64().unwrap_or(0) as usize,
                blackhole_after: v["relay"]["selftest_blackhole"].as_u64(),
                steps: [steps(&v["relay"]["steps"][0]), steps(&v["relay"]["steps"][1])],
            },
            msgs: [msgs(&v["msgs"][0]), msgs(&v["msgs"][1])],
            duplex: v["duplex"].as_bool().unwrap_or(false),
            duplex_tasks: v["duplex_tasks"].as_bool().unwrap_or(false),
            flush_each: v["flush_each"].as_bool().unwrap_or(true),
            closer: v["closer"].as_u64().unwrap_or(0) as usize,
            wscfg: v["wscfg"].as_u64().unwrap_or(0) as u8,
            seed: v["seed"].as_u64().unwrap_or(0),
            control_raw: v["control_raw"].as_bool().unwrap_or(false),
        }
    }

    fn layer(&self) -> String {
        if self.tls == "none" { "ws".into() } else { format!("wss-{}", self.tls) }
    }
}

// ---------------------------------------------------------------------------
// Sockets
// ---------------------------------------------------------------------------

fn set_bufs(s: &Socket, sockbuf: usize) -> io::Result<()> {
    if sockbuf > 0 {
        s.set_send_buffer_size(sockbuf)?;
        s.set_recv_buffer_size(sockbuf)?;
    }
    Ok(())
}

/// One link: (compio side, relay side).
fn make_link(link: &str, sockbuf: usize) -> io::Result<(Socket, Socket)> {
    if link == "tcp" {
        let l = Socket::new(Domain::IPV4, Type::STREAM, None)?;
        set_bufs(&l, sockbuf)?;
        let addr: std::net::SocketAddr = "127.0.0.1:0".parse().expect("addr");
        l.bind(&addr.into())?;
        l.listen(1)?;
        let local = l.local_addr()?;
        let c = Socket::new(Domain::IPV4, Type::STREAM, None)?;
        set_bufs(&c, sockbuf)?;
        c.connect(&local)?;
        let (a, _) = l.accept()?;
        set_bufs(&a, sockbuf)?;
        // Nagle / delayed ACK would only add wall time, not behaviour
        c.set_tcp_nodelay(true)?;
        a.set_tcp_nodelay(true)?;
        Ok((c, a))
    } else {
        let (a, b) = Socket::pair(Domain::UNIX, Type::STREAM, None)?;
        set_bufs(&a, sockbuf)?;
        set_bufs(&b, sockbuf)?;
        Ok((a, b))
    }
}

fn inq(fd: RawFd) -> i64 {
    let mut n: libc::c_int = 0;
    let r = unsafe { libc::ioctl(fd, libc::FIONREAD, &mut n) };
    if r < 0 { -1 } else { n as i64 }
}

/// TCP: bytes sent but not yet acknowledged.
fn unacked(fd: RawFd) -> i64 {
    const SIOCOUTQNSD: libc::c_ulong = 0x894B;
    let mut nsd: libc::c_int = 0;
    let r = unsafe { libc::ioctl(fd, SIOCOUTQNSD as _, &mut nsd) };
    if r < 0 {
        return 0;
    }
    (outq(fd) - nsd as i64).max(0)
}

fn outq(fd: RawFd) -> i64 {
    let mut n: libc::c_int = 0;
    let r = unsafe { libc::ioctl(fd, libc::TIOCOUTQ, &mut n) };
    if r < 0 { -1 } else { n as i64 }
}

// ---------------------------------------------------------------------------
// The relay thread
// ---------------------------------------------------------------------------

#[derive(Default)]
struct RelayShared {
    /// Bumped on every byte moved / EOF forwarded.
    activity: AtomicU64,
    probe_req: AtomicU64,
    probe_ack: AtomicU64,
    probe_idle: AtomicBool,
    stop: AtomicBool,
    bytes: [AtomicU64; 2],
    /// Bytes sitting in the relay per direction (updated at each probe).
    buffered: [AtomicU64; 2],
    reads: AtomicU64,
    one_byte_reads: AtomicU64,
    writes: AtomicU64,
    short_sends: AtomicU64,
    eagain_sends: AtomicU64,
    /// Relay-side fds (for queue inspection by the supervisor).
    fds: [AtomicU64; 2],
}

struct DirState {
    buf: Vec<u8>,
    head: usize,
    eof_in: bool,
    shut: bool,
    dead: bool,
    rd_i: usize,
    wr_i: usize,
    pause_until: Option<Instant>,
    /// Number of bytes of `\r\n\r\n` matched so far at the forwarding
    /// position; 4 = the upgrade header has been forwarded completely.
    hdr_match: usize,
}

impl DirState {
    fn new() -> Self {
        Self {
            buf: Vec::new(),
            head: 0,
            eof_in: false,
            shut: false,
            dead: false,
            rd_i: 0,
            wr_i: 0,
            pause_until: None,
            hdr_match: 0,
        }
    }

    fn in_header(&self, script: &RelayScript) -> bool {
        script.hs_chunk > 0 && self.hdr_match < 4
    }

    /// Track `\r\n\r\n` over forwarded bytes.
    fn track_header(&mut self, data: &[u8]) {
        for b in data {
            if self.hdr_match >= 4 {
                return;
            }
            let want = [b'\r', b'\n', b'\r', b'\n'][self.hdr_match];
            if *b == want {
                self.hdr_match += 1;
            } else {
                self.hdr_match = if *b == b'\r' { 1 } else { 0 };
            }
        }
    }

    fn len(&self) -> usize {
        self.buf.len() - self.head
    }
}

fn cap_of(st: &DirState, script: &RelayScript) -> usize {
    if st.in_header(script) { script.cap.max(script.hs_chunk) } else { script.cap }
}

fn relay_main(a: Socket, b: Socket, script: RelayScript, sh: Arc<RelayShared>) {
    let fds = [a.as_raw_fd(), b.as_raw_fd()];
    let _ = a.set_nonblocking(true);
    let _ = b.set_nonblocking(true);
    sh.fds[0].store(fds[0] as u64, Ordering::SeqCst);
    sh.fds[1].store(fds[1] as u64, Ordering::SeqCst);
    // direction d: src = fds[d], dst = fds[1 - d]
    let mut dirs = [DirState::new(), DirState::new()];
    let mut tmp = vec![0u8; 1 << 18];
    let mut last_ack = 0u64;
    loop {
        if sh.stop.load(Ordering::SeqCst) {
            break;
        }
        let now = Instant::now();
        let mut pf = [
            libc::pollfd { fd: fds[0], events: 0, revents: 0 },
            libc::pollfd { fd: fds[1], events: 0, revents: 0 },
        ];
        let mut timeout = Duration::from_millis(2);
        for d in 0..2 {
            let st = &mut dirs[d];
            if let Some(t) = st.pause_until {
                if t <= now {
                    st.pause_until = None;
                } else {
                    timeout = timeout.min(t - now);
                }
            }
            if !st.eof_in && !st.dead && st.len() < cap_of(st, &script) {
                pf[d].events |= libc::POLLIN;
            }
            if st.len() > 0 && st.pause_until.is_none() && !st.dead {
                pf[1 - d].events |= libc::POLLOUT;
            }
        }
        let ts = libc::timespec {
            tv_sec: 0,
            tv_nsec: timeout.as_nanos().min(2_000_000) as _,
        };
        let rc = unsafe { libc::ppoll(pf.as_mut_ptr(), 2, &ts, std::ptr::null()) };
        if rc < 0 {
            let e = io::Error::last_os_error();
            if e.kind() != io::ErrorKind::Interrupted {
                break;
            }
            continue;
        }
        for d in 0..2 {
            let src = fds[d];
            let dst = fds[1 - d];
            let steps = &script.steps[d];
            // --- read
            let can_read = {
                let st = &dirs[d];
                !st.eof_in && !st.dead && st.len() < cap_of(st, &script)
            };
            if can_read && pf[d].revents & (libc::POLLIN | libc::POLLHUP | libc::POLLERR) != 0 {
                let st = &mut dirs[d];
                let cap = cap_of(st, &script);
                let mut want = steps[st.rd_i % steps.len()].rd;
                if st.in_header(&script) {
                    want = want.max(script.hs_chunk);
                }
                let want = want.min(cap - st.len()).min(tmp.len()).max(1);
                let n = unsafe { libc::recv(src, tmp.as_mut_ptr() as *mut _, want, libc::MSG_DONTWAIT) };
                if n > 0 {
                    st.rd_i += 1;
                    if st.head == st.buf.len() {
                        st.buf.clear();
                        st.head = 0;
                    }
                    st.buf.extend_from_slice(&tmp[..n as usize]);
                    sh.reads.fetch_add(1, Ordering::Relaxed);
                    if n == 1 {
                        sh.one_byte_reads.fetch_add(1, Ordering::Relaxed);
                    }
                    sh.activity.fetch_add(1, Ordering::SeqCst);
                } else if n == 0 {
                    st.eof_in = true;
                    sh.activity.fetch_add(1, Ordering::SeqCst);
                } else {
                    let e = io::Error::last_os_error();
                    if !matches!(e.kind(), io::ErrorKind::WouldBlock | io::ErrorKind::Interrupted) {
                        // reset by the peer: nothing more will come
                        st.eof_in = true;
                        sh.activity.fetch_add(1, Ordering::SeqCst);
                    }
                }
            }
            // --- write
            let st = &mut dirs[d];
            if st.len() > 0 && st.pause_until.is_none() && !st.dead && pf[1 - d].revents & (libc::POLLOUT | libc::POLLERR | libc::POLLHUP) != 0 {
                let step = &steps[st.wr_i % steps.len()];
                let mut want = step.wr;
                if st.in_header(&script) {
                    want = want.max(script.hs_chunk);
                }
                let want = want.min(st.len()).max(1);
                if d == 0
                    && let Some(limit) = script.blackhole_after
                    && sh.bytes[0].load(Ordering::Relaxed) >= limit
                {
                    // self-test: swallow
                    st.head = st.buf.len();
                    continue;
                }
                let n = unsafe {
                    libc::send(dst, st.buf[st.head..].as_ptr() as *const _, want, libc::MSG_DONTWAIT | libc::MSG_NOSIGNAL)
                };
                if n > 0 {
                    st.wr_i += 1;
                    if st.in_header(&script) {
                        let (h, n) = (st.head, n as usize);
                        let sent: Vec<u8> = st.buf[h..h + n].to_vec();
                        st.track_header(&sent);
                    }
                    st.head += n as usize;
                    sh.bytes[d].fetch_add(n as u64, Ordering::Relaxed);
                    sh.writes.fetch_add(1, Ordering::Relaxed);
                    if (n as usize) < want {
                        sh.short_sends.fetch_add(1, Ordering::Relaxed);
                    }
                    if step.pause_us > 0 {
                        st.pause_until = Some(Instant::now() + Duration::from_micros(step.pause_us));
                    }
                    sh.activity.fetch_add(1, Ordering::SeqCst);
                } else {
                    let e = io::Error::last_os_error();
                    if matches!(e.kind(), io::ErrorKind::WouldBlock | io::ErrorKind::Interrupted) {
                        sh.eagain_sends.fetch_add(1, Ordering::Relaxed);
                    } else {
                        // the receiving peer is gone: drop what cannot be delivered
                        st.dead = true;
                        st.head = st.buf.len();
                        sh.activity.fetch_add(1, Ordering::SeqCst);
                    }
                }
            }
            // --- forward EOF
            if st.eof_in && st.len() == 0 && !st.shut {
                unsafe { libc::shutdown(dst, libc::SHUT_WR) };
                st.shut = true;
                sh.activity.fetch_add(1, Ordering::SeqCst);
            }
        }
        // --- probe
        let req = sh.probe_req.load(Ordering::SeqCst);
        if req != last_ack {
            // The relay is *stalled* when it can do nothing by itself: per
            // direction nothing to forward (or the destination is not
            // writable), nothing to read (or its buffer is full), no EOF to
            // forward and no pause that will end. Only the two peers can
            // change that.
            let mut idle = true;
            for d in 0..2 {
                let st = &dirs[d];
                let readable = |fd: RawFd, ev: libc::c_short| -> bool {
                    let mut p = libc::pollfd { fd, events: ev, revents: 0 };
                    let r = unsafe { libc::poll(&mut p, 1, 0) };
                    r > 0 && p.revents & (ev | libc::POLLHUP | libc::POLLERR) != 0
                };
                if st.eof_in && st.len() == 0 && !st.shut {
                    idle = false;
                }
                if st.len() > 0 && !st.dead && (st.pause_until.is_some() || readable(fds[1 - d], libc::POLLOUT)) {
                    idle = false;
                }
                if !st.eof_in && !st.dead && st.len() < cap_of(st, &script) && readable(fds[d], libc::POLLIN) {
                    idle = false;
                }
                sh.buffered[d].store(st.len() as u64, Ordering::SeqCst);
            }
            sh.probe_idle.store(idle, Ordering::SeqCst);
            sh.probe_ack.store(req, Ordering::SeqCst);
            last_ack = req;
        }
    }
    drop(a);
    drop(b);
}

/// Ask the relay whether it is idle. `None` = no answer (harness problem).
fn probe(sh: &RelayShared) -> Option<bool> {
    let req = sh.probe_req.fetch_add(1, Ordering::SeqCst) + 1;
    let t0 = Instant::now();
    while sh.probe_ack.load(Ordering::SeqCst) < req {
        if t0.elapsed() > Duration::from_secs(10) {
            return None;
        }
        std::thread::sleep(Duration::from_micros(200));
    }
    Some(sh.probe_idle.load(Ordering::SeqCst))
}

// ---------------------------------------------------------------------------
// Payloads
// ---------------------------------------------------------------------------

fn payload(seed: u64, dir: usize, idx: usize, len: usize, text: bool) -> Vec<u8> {
    let mut x = seed ^ (dir as u64 + 1).wrapping_mul(0x9E37_79B9_7F4A_7C15) ^ (idx as u64 + 1).wrapping_mul(0xD6E8_FEB8_6659_FD93);
    let mut out = Vec::with_capacity(len);
    while out.len() < len {
        x ^= x << 13;
        x ^= x >> 7;
        x ^= x << 17;
        for b in x.to_le_bytes() {
            if out.len() == len {
                break;
            }
            out.push(if text { 0x20 + b % 0x5f } else { b });
        }
    }
    out
}

fn build(seed: u64, dir: usize, idx: usize, m: &MsgSpec) -> Message {
    match m.kind {
        Kind::Text => {
            let p = payload(seed, dir, idx, m.len, true);
            Message::text(String::from_utf8(p).expect("ascii"))
        }
        Kind::Binary => Message::binary(payload(seed, dir, idx, m.len, false)),
        Kind::Ping | Kind::PingSync => Message::Ping(payload(seed, dir, idx, m.len.min(125), false).into()),
    }
}

fn describe(m: &Message) -> String {
    match m {
        Message::Text(t) => format!("Text({} B)", t.len()),
        Message::Binary(b) => format!("Binary({} B)", b.len()),
        Message::Ping(b) => format!("Ping({} B)", b.len()),
        Message::Pong(b) => format!("Pong({} B)", b.len()),
        Message::Close(c) => format!("Close({c:?})"),
        Message::Frame(_) => "Frame".into(),
    }
}

// ---------------------------------------------------------------------------
// The two peers
// ---------------------------------------------------------------------------

struct SideLog {
    phase: &'static str,
    failure: Option<(String, String)>,
    done: bool,
    /// The task is about to release (or has released) its socket.
    fd_released: bool,
    received: usize,
    sent: usize,
    pongs: Vec<Vec<u8>>,
    pings_sent: Vec<Vec<u8>>,
    close_seen: bool,
}

struct Log {
    sides: [SideLog; 2],
    events: u64,
}

type Shared = Rc<RefCell<Log>>;
type Ws = WebSocketStream<Socket>;
type Fail = (String, String);

fn ev(log: &Shared) {
    log.borrow_mut().events += 1;
}

fn phase(log: &Shared, role: usize, p: &'static str) {
    let mut l = log.borrow_mut();
    l.sides[role].phase = p;
    l.events += 1;
}

fn ws_config(case: &Case) -> Config {
    let c = match case.wscfg {
        1 => WebSocketConfig::default().write_buffer_size(0),
        2 => WebSocketConfig::default()
            .write_buffer_size(4 << 20)
            .max_write_buffer_size(64 << 20),
        _ => return Config::default(),
    };
    Config::from(c)
}

fn close_frame() -> CloseFrame {
    CloseFrame {
        code: CloseCode::Normal,
        reason: "c15 done".into(),
    }
}

/// Compare one received non-pong message with what the peer sent at `idx`.
fn check_incoming(case: &Case, from: usize, idx: usize, got: &Message) -> Result<(), Fail> {
    let list = &case.msgs[from];
    let Some(spec) = list.get(idx) else {
        return Err((
            "extra-message".into(),
            format!("received {} after all {} messages of the peer (duplicate or invented)", describe(got), list.len()),
        ));
    };
    let exp = build(case.seed, from, idx, spec);
    if *got != exp {
        let same_kind = std::mem::discriminant(got) == std::mem::discriminant(&exp);
        return Err((
            if same_kind { "payload-mismatch".into() } else { "kind-or-order-mismatch".into() },
            format!("message #{idx} from the peer: expected {}, got {}", describe(&exp), describe(got)),
        ));
    }
    Ok(())
}

fn record_pong(log: &Shared, role: usize, p: &[u8]) {
    let mut l = log.borrow_mut();
    l.sides[role].pongs.push(p.to_vec());
    l.events += 1;
}

async fn send_all<S>(tx: &mut S, rx_for_sync: Option<&mut Ws>, case: &Case, role: usize, log: &Shared) -> Result<(), Fail>
where
    S: futures_util::Sink<Message, Error = WsError> + Unpin,
{
    let mut rx_for_sync = rx_for_sync;
    for (idx, spec) in case.msgs[role].iter().enumerate() {
        let msg = build(case.seed, role, idx, spec);
        if let Message::Ping(p) = &msg {
            log.borrow_mut().sides[role].pings_sent.push(p.to_vec());
        }
        let r = if case.flush_each || spec.kind == Kind::PingSync {
            tx.send(msg).await
        } else {
            tx.feed(msg).await
        };
        if let Err(e) = r {
            return Err(("send-error".into(), format!("sending message #{idx} ({}, {} B) failed: {e}", kind_name(spec.kind), spec.len)));
        }
        {
            let mut l = log.borrow_mut();
            l.sides[role].sent += 1;
            l.events += 1;
        }
        if spec.kind == Kind::PingSync
            && let Some(ws) = rx_for_sync.as_deref_mut()
        {
            // half duplex: the peer only reads, so the pong is an automatic reply
            let want = payload(case.seed, role, idx, spec.len.min(125), false);
            loop {
                match ws.read().await {
                    Ok(Message::Pong(p)) => {
                        record_pong(log, role, &p);
                        if p[..] == want[..] {
                            break;
                        }
                    }
                    Ok(other) => {
                        return Err(("unexpected-message".into(), format!("while waiting for the pong of ping #{idx}: got {}", describe(&other))));
                    }
                    Err(e) => {
                        return Err(("read-error".into(), format!("while waiting for the pong of ping #{idx}: {e}")));
                    }
                }
            }
        }
    }
    if let Err(e) = tx.flush().await {
        return Err(("flush-error".into(), format!("final flush failed: {e}")));
    }
    ev(log);
    Ok(())
}

/// Read until all messages of the peer arrived.
async fn recv_all<R>(rx: &mut R, case: &Case, role: usize, log: &Shared) -> Result<(), Fail>
where
    R: futures_util::Stream<Item = Result<Message, WsError>> + Unpin,
{
    let from = 1 - role;
    let total = case.msgs[from].len();
    while log.borrow().sides[role].received < total {
        let idx = log.borrow().sides[role].received;
        match rx.next().await {
            Some(Ok(Message::Pong(p))) => record_pong(log, role, &p),
            Some(Ok(m @ Message::Close(_))) => {
                return Err(("premature-close".into(), format!("got {} after {idx} of {total} messages", describe(&m))));
            }
            Some(Ok(m)) => {
                check_incoming(case, from, idx, &m)?;
                let mut l = log.borrow_mut();
                l.sides[role].received += 1;
                l.events += 1;
            }
            Some(Err(e)) => {
                return Err(("read-error".into(), format!("after {idx} of {total} messages: {e}")));
            }
            None => {
                return Err(("premature-end".into(), format!("stream ended after {idx} of {total} messages")));
            }
        }
    }
    Ok(())
}

/// After the close frame went out / came in: the stream must end cleanly.
async fn expect_closed(ws: &mut Ws, role: usize, log: &Shared) -> Result<(), Fail> {
    loop {
        match ws.read().await {
            Err(WsError::ConnectionClosed) | Err(WsError::AlreadyClosed) => {
                ev(log);
                return Ok(());
            }
            Ok(Message::Pong(p)) => record_pong(log, role, &p),
            Ok(m) => {
                return Err(("extra-message".into(), format!("after the close handshake: got {}", describe(&m))));
            }
            Err(e) => {
                return Err(("close-not-clean".into(), format!("after the close handshake the stream ended with {e:?} instead of ConnectionClosed")));
            }
        }
    }
}

async fn close_phase(ws: &mut Ws, case: &Case, role: usize, log: &Shared) -> Result<(), Fail> {
    let from = 1 - role;
    if role == case.closer {
        phase(log, role, "close-send");
        if let Err(e) = ws.close(Some(close_frame())).await {
            return Err(("close-error".into(), format!("close() failed: {e}")));
        }
        phase(log, role, "close-wait-echo");
    } else {
        phase(log, role, "close-wait");
    }
    // wait for the peer's close frame (request or echo)
    loop {
        match ws.read().await {
            Ok(Message::Pong(p)) => record_pong(log, role, &p),
            Ok(Message::Close(f)) => {
                if f != Some(close_frame()) {
                    return Err(("close-frame-mismatch".into(), format!("close frame arrived as {f:?}")));
                }
                let mut l = log.borrow_mut();
                l.sides[role].close_seen = true;
                l.events += 1;
                break;
            }
            Ok(m) => {
                let idx = log.borrow().sides[role].received;
                check_incoming(case, from, idx, &m)?;
                // in order but beyond the expected count cannot happen: check_incoming
                // reports `extra-message` for idx >= len
                return Err(("extra-message".into(), format!("unexpected {} in the close phase", describe(&m))));
            }
            Err(e) => {
                return Err(("close-not-clean".into(), format!("waiting for the peer's close frame: {e:?}")));
            }
        }
    }
    phase(log, role, "close-wait-end");
    expect_closed(ws, role, log).await
}

async fn peer(role: usize, sock: Socket, case: Rc<Case>, log: Shared) -> Result<(), Fail> {
    let fd = PollFd::new(sock).map_err(|e| ("harness".to_string(), format!("PollFd::new: {e}")))?;
    let stream: MaybeTlsStream<PollFd<Socket>> = if case.tls == "none" {
        MaybeTlsStream::new_plain(fd)
    } else {
        phase(&log, role, "tls-handshake");
        let m = crate::c15t::material().map_err(|e| ("harness".to_string(), e))?;
        let r = if role == 0 {
            let c = if case.tls == "native" { m.native_con[0].clone() } else { m.rustls_con[0].clone() };
            c.connect("localhost", fd).await
        } else {
            let a = if case.tls == "native" { m.native_acc[0].clone() } else { m.rustls_acc[0].clone() };
            a.accept(fd).await
        };
        match r {
            Ok(s) => MaybeTlsStream::new_tls(s),
            Err(e) => return Err(("tls-handshake-error".into(), format!("{e}"))),
        }
    };
    if case.control_raw {
        // control: same transport, same workload, no compio-ws wrapper
        phase(&log, role, "control-handshake");
        let raw = if role == 0 {
            async_tungstenite::client_async_with_config("ws://localhost/c15", stream, None)
                .await
                .map(|x| x.0)
        } else {
            async_tungstenite::accept_async_with_config(stream, None).await
        };
        let raw = raw.map_err(|e| ("harness".to_string(), format!("control handshake: {e}")))?;
        phase(&log, role, "control-duplex");
        let (mut tx, mut rx) = raw.split();
        let w = send_all(&mut tx, None, &case, role, &log);
        let r = recv_all(&mut rx, &case, role, &log);
        let (wr, rr) = futures_util::future::join(w, r).await;
        wr?;
        rr?;
        // keep the socket open until the peer has everything, then leave
        phase(&log, role, "control-done");
        log.borrow_mut().sides[role].close_seen = true;
        let mut l = log.borrow_mut();
        l.sides[role].fd_released = true;
        drop(l);
        // wait for the peer's EOF so that unread data is not reset away
        if role == 0 {
            drop(tx);
            drop(rx);
        } else {
            while let Some(Ok(_)) = rx.next().await {}
        }
        return Ok(());
    }
    phase(&log, role, "ws-handshake");
    let mut ws: Ws = if role == 0 {
        match client_async_with_config("ws://localhost/c15", stream, ws_config(&case)).await {
            Ok((ws, _resp)) => ws,
            Err(WsError::AttackAttempt) if case.tls == "none" && case.relay.hs_chunk < 128 => {
                return Err(("policy-attack-attempt".into(), "client".into()));
            }
            Err(e) => return Err(("ws-handshake-error".into(), format!("client: {e}"))),
        }
    } else {
        match accept_async_with_config(stream, ws_config(&case)).await {
            Ok(ws) => ws,
            Err(WsError::AttackAttempt) if case.tls == "none" && case.relay.hs_chunk < 128 => {
                return Err(("policy-attack-attempt".into(), "server".into()));
            }
            Err(e) => return Err(("ws-handshake-error".into(), format!("server: {e}"))),
        }
    };
    if case.duplex && case.duplex_tasks {
        phase(&log, role, "duplex");
        let (tx, mut rx) = ws.split();
        let (wcase, wlog) = (case.clone(), log.clone());
        // dropping the handle (failure, cancellation) cancels the writer
        let writer = compio_runtime::spawn(async move {
            let mut tx = tx;
            let r = send_all(&mut tx, None, &wcase, role, &wlog).await;
            (tx, r)
        });
        recv_all(&mut rx, &case, role, &log).await?;
        let (tx, wr) = match writer.await {
            Ok(x) => x,
            Err(compio_runtime::JoinError::Panicked(p)) => std::panic::resume_unwind(p),
            Err(compio_runtime::JoinError::Cancelled) => {
                return Err(("harness".to_string(), "writer task cancelled".to_string()));
            }
        };
        wr?;
        ws = tx
            .reunite(rx)
            .map_err(|_| ("harness".to_string(), "reunite failed".to_string()))?;
    } else if case.duplex {
        phase(&log, role, "duplex");
        let (mut tx, mut rx) = ws.split();
        let w = async {
            let r = send_all(&mut tx, None, &case, role, &log).await;
            (tx, r)
        };
        let r = async {
            let r = recv_all(&mut rx, &case, role, &log).await;
            (rx, r)
        };
        let ((tx, wr), (rx, rr)) = futures_util::future::join(w, r).await;
        wr?;
        rr?;
        ws = tx
            .reunite(rx)
            .map_err(|_| ("harness".to_string(), "reunite failed".to_string()))?;
    } else {
        for dir in 0..2 {
            if role == dir {
                phase(&log, role, "send");
                // `send_all` wants the sink and (for ping-sync) the stream: same object
                let ptr: *mut Ws = &mut ws;
                // SAFETY: both references are used strictly sequentially inside
                // `send_all` (send, then read, never overlapping).
                let (a, b) = unsafe { (&mut *ptr, &mut *ptr) };
                send_all(a, Some(b), &case, role, &log).await?;
            } else {
                phase(&log, role, "recv");
                recv_all(&mut ws, &case, role, &log).await?;
            }
        }
    }
    close_phase(&mut ws, &case, role, &log).await?;
    phase(&log, role, "transport-close");
    log.borrow_mut().sides[role].fd_released = true;
    let mut inner = ws.into_inner();
    // TLS: close_notify; plain: shutdown(write). Errors here are not part of
    // the statement (the peer may already be gone).
    let _ = inner.close().await;
    drop(inner);
    Ok(())
}

// ---------------------------------------------------------------------------
// Supervisor
// ---------------------------------------------------------------------------

#[derive(Debug)]
struct Failure {
    rule: String,
    role: usize,
    phase: String,
    detail: String,
}

struct Outcome {
    failure: Option<Failure>,
    inconclusive: Option<String>,
    relay_bytes: [u64; 2],
    one_byte_reads: u64,
    short_sends: u64,
    eagain_sends: u64,
    iterations: u64,
    pongs: [usize; 2],
    pings: [usize; 2],
    /// tungstenite's handshake attack check rejected the fragmented upgrade
    /// request/response (deliberate policy of the dependency): no verdict.
    policy_reject: bool,
}

const QUIET_BEFORE_PROBE: Duration = Duration::from_millis(40);
const CONFIRM_ITERS: usize = 150;

fn run_case(case: &Case, watchdog: Duration) -> Outcome {
    let case = Rc::new(case.clone());
    let mut out = Outcome {
        failure: None,
        inconclusive: None,
        relay_bytes: [0, 0],
        one_byte_reads: 0,
        short_sends: 0,
        eagain_sends: 0,
        iterations: 0,
        pongs: [0, 0],
        pings: [0, 0],
        policy_reject: false,
    };
    let links = (make_link(&case.link, case.sockbuf), make_link(&case.link, case.sockbuf));
    let ((a1, a2), (b1, b2)) = match links {
        (Ok(a), Ok(b)) => (a, b),
        (Err(e), _) | (_, Err(e)) => {
            out.inconclusive = Some(format!("cannot create sockets: {e}"));
            return out;
        }
    };
    let peer_fds = [a1.as_raw_fd(), b1.as_raw_fd()];
    let sh = Arc::new(RelayShared::default());
    let relay = {
        let sh = sh.clone();
        let script = case.relay.clone();
        std::thread::Builder::new()
            .name("c15w-relay".into())
            .spawn(move || relay_main(a2, b2, script, sh))
    };
    let relay = match relay {
        Ok(r) => r,
        Err(e) => {
            out.inconclusive = Some(format!("cannot spawn relay: {e}"));
            return out;
        }
    };
    let mut pb = ProactorBuilder::new();
    pb.driver_type(if case.driver == "iouring" { DriverType::IoUring } else { DriverType::Poll });
    let rt = match Runtime::builder().with_proactor(pb).build() {
        Ok(rt) => rt,
        Err(e) => {
            sh.stop.store(true, Ordering::SeqCst);
            let _ = relay.join();
            out.inconclusive = Some(format!("cannot build a {} runtime: {e}", case.driver));
            return out;
        }
    };
    let log: Shared = Rc::new(RefCell::new(Log {
        sides: std::array::from_fn(|_| SideLog {
            phase: "start",
            failure: None,
            done: false,
            fd_released: false,
            received: 0,
            sent: 0,
            pongs: Vec::new(),
            pings_sent: Vec::new(),
            close_seen: false,
        }),
        events: 0,
    }));

    let mut panic_payload = None;
    rt.enter(|| {
        let mut socks = [Some(a1), Some(b1)];
        let mut handles: Vec<Option<compio_runtime::JoinHandle<()>>> = (0..2)
            .map(|role| {
                let sock = socks[role].take().expect("socket");
                let case = case.clone();
                let log = log.clone();
                Some(rt.spawn(async move {
                    let r = peer(role, sock, case, log.clone()).await;
                    let mut l = log.borrow_mut();
                    l.sides[role].fd_released = true;
                    if let Err(f) = r {
                        l.sides[role].failure = Some(f);
                    }
                    l.sides[role].done = true;
                    l.events += 1;
                }))
            })
            .collect();
        let noop = Waker::noop();
        let t0 = Instant::now();
        let mark = |log: &Shared| (sh.activity.load(Ordering::SeqCst), log.borrow().events);
        let mut last = mark(&log);
        let mut quiet_since = Instant::now();
        'sup: loop {
            out.iterations += 1;
            rt.run();
            // reap
            for h in handles.iter_mut() {
                if let Some(jh) = h.as_mut() {
                    let mut cx = Context::from_waker(noop);
                    if let Poll::Ready(r) = std::pin::Pin::new(jh).poll(&mut cx) {
                        *h = None;
                        if let Err(e) = r {
                            match e {
                                compio_runtime::JoinError::Panicked(p) => {
                                    panic_payload = Some(p);
                                    break 'sup;
                                }
                                compio_runtime::JoinError::Cancelled => {}
                            }
                        }
                    }
                }
            }
            let (done, failed) = {
                let l = log.borrow();
                (
                    l.sides.iter().all(|s| s.done),
                    l.sides.iter().any(|s| s.failure.is_some()),
                )
            };
            if done || failed {
                break;
            }
            rt.poll_with(Some(Duration::from_millis(2)));
            let now_mark = mark(&log);
            if now_mark != last {
                last = now_mark;
                quiet_since = Instant::now();
                continue;
            }
            if t0.elapsed() > watchdog {
                out.inconclusive = Some(format!("watchdog: case not finished after {watchdog:?}"));
                break;
            }
            if quiet_since.elapsed() < QUIET_BEFORE_PROBE {
                continue;
            }
            // --- quiescence check (logical)
            let snapshot = |log: &Shared| -> Option<(bool, [i64; 2], [i64; 2], bool)> {
                let idle = probe(&sh)?;
                let l = log.borrow();
                let mut unread = [0i64; 2];
                let mut unsent = [0i64; 2];
                let mut in_flight = false;
                for r in 0..2 {
                    if !l.sides[r].fd_released {
                        unread[r] = inq(peer_fds[r]).max(0);
                        unsent[r] = outq(peer_fds[r]).max(0);
                        if case.link == "tcp" {
                            // sent but not yet acknowledged bytes = segments on
                            // their way (unsent bytes behind a closed window are
                            // not in flight: they are back-pressure)
                            let rfd = sh.fds[r].load(Ordering::SeqCst) as RawFd;
                            if unacked(peer_fds[r]) > 0 || unacked(rfd) > 0 {
                                in_flight = true;
                            }
                        }
                    }
                }
                Some((idle, unread, unsent, in_flight))
            };
            let Some((idle, _, _, in_flight)) = snapshot(&log) else {
                out.inconclusive = Some("relay did not answer the probe".into());
                break;
            };
            if !idle || in_flight {
                // the relay still has work (e.g. a scripted pause): not quiescent
                quiet_since = Instant::now();
                continue;
            }
            for _ in 0..CONFIRM_ITERS {
                rt.run();
                rt.poll_with(Some(Duration::from_millis(1)));
                out.iterations += 1;
            }
            if mark(&log) != last {
                last = mark(&log);
                quiet_since = Instant::now();
                continue;
            }
            let Some((idle2, unread, unsent, in_flight2)) = snapshot(&log) else {
                out.inconclusive = Some("relay did not answer the probe".into());
                break;
            };
            if !idle2 || in_flight2 || mark(&log) != last {
                quiet_since = Instant::now();
                continue;
            }
            // Quiescent: relay idle twice with no activity in between, nothing
            // in flight, CONFIRM_ITERS runtime iterations without any event.
            let l = log.borrow();
            let stuck: Vec<usize> = (0..2).filter(|r| !l.sides[*r].done).collect();
            // blame the side that does not consume what is readable; otherwise the side that
            // is still in the data phase (a side waiting for the peer's close frame merely
            // waits for that one); otherwise the first
            let blamed = stuck
                .iter()
                .copied()
                .find(|r| unread[*r] > 0)
                .or_else(|| stuck.iter().copied().find(|r| l.sides[*r].phase == "duplex"))
                .unwrap_or(stuck[0]);
            let buffered = [sh.buffered[0].load(Ordering::SeqCst), sh.buffered[1].load(Ordering::SeqCst)];
            let rule = if buffered.iter().all(|b| *b > 0) && unread.iter().all(|u| *u > 0) {
                // both directions are full up to the peers' sockets and neither
                // peer reads what is readable
                "hang-mutual-backpressure"
            } else if unread[blamed] > 0 {
                "hang-input-not-consumed"
            } else if buffered.iter().any(|b| *b > 0) {
                "hang-backpressure"
            } else {
                "hang-all-idle"
            };
            out.failure = Some(Failure {
                rule: rule.into(),
                role: blamed,
                phase: l.sides[blamed].phase.into(),
                detail: format!(
                    "logical quiescence: the relay is stalled (per direction: nothing to forward or destination not writable; nothing readable or buffer full), {CONFIRM_ITERS} further runtime iterations without any event or relay activity; client: phase {} done={} sent {}/{} received {}/{} unread-in-socket {} unsent-in-socket {}; server: phase {} done={} sent {}/{} received {}/{} unread-in-socket {} unsent-in-socket {}; relay holds c->s {} s->c {} bytes; relayed so far c->s {} s->c {}",
                    l.sides[0].phase, l.sides[0].done, l.sides[0].sent, case.msgs[0].len(), l.sides[0].received, case.msgs[1].len(), unread[0], unsent[0],
                    l.sides[1].phase, l.sides[1].done, l.sides[1].sent, case.msgs[1].len(), l.sides[1].received, case.msgs[0].len(), unread[1], unsent[1],
                    buffered[0], buffered[1],
                    sh.bytes[0].load(Ordering::Relaxed), sh.bytes[1].load(Ordering::Relaxed),
                ),
            });
            break;
        }
        // cancel whatever is left, let the cancellations complete
        handles.clear();
        for _ in 0..4 {
            rt.run();
            rt.poll_with(Some(Duration::ZERO));
        }
    });
    drop(rt);
    sh.stop.store(true, Ordering::SeqCst);
    let _ = relay.join();
    if let Some(p) = panic_payload {
        std::panic::resume_unwind(p);
    }
    out.relay_bytes = [sh.bytes[0].load(Ordering::Relaxed), sh.bytes[1].load(Ordering::Relaxed)];
    out.one_byte_reads = sh.one_byte_reads.load(Ordering::Relaxed);
    out.short_sends = sh.short_sends.load(Ordering::Relaxed);
    out.eagain_sends = sh.eagain_sends.load(Ordering::Relaxed);
    let l = log.borrow();
    for r in 0..2 {
        out.pongs[r] = l.sides[r].pongs.len();
        out.pings[r] = l.sides[r].pings_sent.len();
    }
    if l.sides.iter().any(|s| s.failure.as_ref().is_some_and(|f| f.0 == "policy-attack-attempt")) {
        out.policy_reject = true;
        out.failure = None;
    }
    if out.failure.is_none() && out.inconclusive.is_none() && !out.policy_reject {
        // a failure recorded by a task (the first one in role order)
        for r in 0..2 {
            if let Some((rule, detail)) = &l.sides[r].failure {
                out.failure = Some(Failure {
                    rule: rule.clone(),
                    role: r,
                    phase: l.sides[r].phase.into(),
                    detail: detail.clone(),
                });
                break;
            }
        }
    }
    if out.failure.is_none() && out.inconclusive.is_none() && !out.policy_reject {
        for r in 0..2 {
            let s = &l.sides[r];
            // exactly once / nothing missing
            if s.received != case.msgs[1 - r].len() || s.sent != case.msgs[r].len() {
                out.failure = Some(Failure {
                    rule: "count-mismatch".into(),
                    role: r,
                    phase: s.phase.into(),
                    detail: format!("sent {} of {}, received {} of {}", s.sent, case.msgs[r].len(), s.received, case.msgs[1 - r].len()),
                });
                break;
            }
            if !s.close_seen {
                out.failure = Some(Failure {
                    rule: "close-not-seen".into(),
                    role: r,
                    phase: s.phase.into(),
                    detail: "task finished without having seen the peer's close frame".into(),
                });
                break;
            }
            // pongs: a subsequence of the pings this side sent
            let mut it = s.pings_sent.iter();
            for p in &s.pongs {
                if !it.any(|q| q == p) {
                    out.failure = Some(Failure {
                        rule: "pong-mismatch".into(),
                        role: r,
                        phase: s.phase.into(),
                        detail: format!("a pong ({} B) does not answer any not-yet-answered ping, in order (duplicate, reordered or invented)", p.len()),
                    });
                    break;
                }
            }
        }
    }
    if let Some(f) = &out.failure
        && f.rule == "harness"
    {
        out.inconclusive = Some(format!("harness: {}", f.detail));
        out.failure = None;
    }
    out
}

// ---------------------------------------------------------------------------
// Case generation
// ---------------------------------------------------------------------------

fn relay_script(rng: &mut Rng, class: &str) -> RelayScript {
    let pick_steps = |rng: &mut Rng| -> Vec<Step> {
        let n = rng.range(1, 6);
        (0..n)
            .map(|_| match class {
                "tiny" => Step {
                    rd: *rng.pick(&[1usize, 1, 2, 3, 5]),
                    wr: *rng.pick(&[1usize, 1, 2, 3, 5]),
                    pause_us: *rng.pick(&[0u64, 0, 0, 0, 0, 0, 50]),
                },
                "small" => Step {
                    rd: *rng.pick(&[1usize, 7, 16, 64, 100]),
                    wr: *rng.pick(&[1usize, 5, 16, 64, 100]),
                    pause_us: *rng.pick(&[0u64, 0, 0, 0, 0, 0, 100, 500]),
                },
                "mixed" => Step {
                    rd: *rng.pick(&[1usize, 100, 1000, 4096, 65536]),
                    wr: *rng.pick(&[1usize, 64, 1000, 4096, 65536]),
                    pause_us: *rng.pick(&[0u64, 0, 0, 0, 0, 200, 1000]),
                },
                _ => Step {
                    rd: *rng.pick(&[4096usize, 16384, 65536, 262144]),
                    wr: *rng.pick(&[4096usize, 16384, 65536, 262144]),
                    pause_us: *rng.pick(&[0u64, 0, 0, 300]),
                },
            })
            .collect()
    };
    RelayScript {
        class: class.into(),
        steps: [pick_steps(rng), pick_steps(rng)],
        cap: match class {
            "tiny" => *rng.pick(&[1usize, 8, 64]),
            "small" => *rng.pick(&[16usize, 256, 4096]),
            "mixed" => *rng.pick(&[256usize, 4096, 65536]),
            _ => *rng.pick(&[4096usize, 65536, 1 << 20]),
        },
        hs_chunk: 0,
        blackhole_after: None,
    }
}

fn msg_list(rng: &mut Rng, class: &str, thorough: bool) -> Vec<MsgSpec> {
    // total payload budget per direction, by relay class (the relay moves
    // every byte with 2+ syscalls at the scripted chunk size)
    let budget = match class {
        "tiny" => 3000,
        "small" => 20_000,
        "mixed" => if thorough { 1_200_000 } else { 300_000 },
        _ => if thorough { 4 << 20 } else { 1_300_000 },
    };
    let n = rng.below(7);
    let mut total = 0usize;
    let mut unsynced_ping_bytes = 0usize;
    let mut out = Vec::new();
    for _ in 0..n {
        let kind = *rng.pick(&[Kind::Text, Kind::Binary, Kind::Binary, Kind::Ping, Kind::PingSync]);
        let len = match kind {
            Kind::Ping | Kind::PingSync => *rng.pick(&[0usize, 1, 4, 125]),
            _ => match rng.below(10) {
                0 => 0,
                1 => 1,
                2 => 125,
                3 => 126,
                4 => 65535,
                5 => 65536,
                6 => 1 << 20,
                _ => rng.size(budget.min(200_000)),
            },
        };
        if total + len > budget {
            continue;
        }
        if kind == Kind::Ping {
            // the pinging side does not read while it sends (half duplex):
            // keep the unanswered-pong backlog far below any socket buffer
            if unsynced_ping_bytes + len + 16 > 600 {
                continue;
            }
            unsynced_ping_bytes += len + 16;
        }
        total += len;
        out.push(MsgSpec { kind, len });
    }
    out
}

/// Rough wall-time estimate (ms) of moving the payload through the relay:
/// per direction bytes x (recv cost / read chunk + (send cost + pause) / write
/// chunk). Only used to keep generated cases affordable.
fn estimate_ms(relay: &RelayScript, msgs: &[Vec<MsgSpec>; 2]) -> f64 {
    let mut us = 0.0f64;
    for d in 0..2 {
        let bytes: usize = msgs[d].iter().map(|m| m.len + 16).sum::<usize>() + 1500;
        let st = &relay.steps[d];
        let n = st.len() as f64;
        let per_byte_rd: f64 = st.iter().map(|s| 25.0 / (s.rd.min(relay.cap).max(1) as f64)).sum::<f64>() / n;
        let per_byte_wr: f64 = st.iter().map(|s| (40.0 + 2.0 * s.pause_us as f64) / (s.wr.min(relay.cap).max(1) as f64)).sum::<f64>() / n;
        us += bytes as f64 * (per_byte_rd + per_byte_wr);
    }
    us / 1000.0
}

fn gen_case(rng: &mut Rng, thorough: bool, idx: usize) -> Case {
    // walk the (driver, tls, link) grid systematically, the rest is seeded
    let driver = ["iouring", "poll"][idx % 2];
    let tls = ["none", "none", "rustls", "native"][(idx / 2) % 4];
    let link = ["unix", "tcp"][(idx / 8) % 2];
    let class = *rng.pick(&["tiny", "small", "small", "mixed", "mixed", "large"]);
    let mut relay = relay_script(rng, class);
    // Plain ws: tungstenite reads the upgrade header straight from the socket
    // and rejects > 64 reads averaging < 128 B. Over TLS it reads whole
    // decrypted records, so the script may apply from the first byte.
    relay.hs_chunk = if tls == "none" {
        *rng.pick(&[512usize, 512, 512, 64, 16, 8, 8, 0])
    } else {
        0
    };
    let mut msgs = [msg_list(rng, class, thorough), msg_list(rng, class, thorough)];
    // keep the case affordable: shrink the biggest message until the estimate fits
    let limit = if thorough { 5000.0 } else { 1200.0 };
    for _ in 0..64 {
        if estimate_ms(&relay, &msgs) <= limit {
            break;
        }
        let (d, i) = (0..2)
            .flat_map(|d| (0..msgs[d].len()).map(move |i| (d, i)))
            .max_by_key(|(d, i)| msgs[*d][*i].len)
            .unwrap_or((0, 0));
        if msgs[d].is_empty() || msgs[d][i].len <= 1 {
            // nothing left to shrink: drop the pauses instead
            for st in relay.steps.iter_mut().flatten() {
                st.pause_us = 0;
            }
            break;
        }
        msgs[d][i].len /= 2;
    }
    Case {
        family: "seeded".into(),
        driver: driver.into(),
        link: link.into(),
        tls: tls.into(),
        // TCP with kernel-minimum buffers degenerates into zero-window probing
        // (persist timer, hundreds of ms per stall): wall time, no new behaviour
        sockbuf: if link == "tcp" { *rng.pick(&[0usize, 16384]) } else { *rng.pick(&[0usize, 1, 1, 8192]) },
        relay,
        msgs,
        duplex: rng.chance(1, 3),
        duplex_tasks: rng.chance(1, 2),
        flush_each: rng.chance(2, 3),
        closer: rng.below(2),
        wscfg: *rng.pick(&[0u8, 0, 1, 2]),
        seed: rng.next_u64(),
        control_raw: false,
    }
}

// ---------------------------------------------------------------------------
// Evaluation
// ---------------------------------------------------------------------------

fn size_class(case: &Case) -> &'static str {
    let max = case.msgs.iter().flatten().map(|m| m.len).max().unwrap_or(0);
    let n: usize = case.msgs.iter().map(|l| l.len()).sum();
    if n == 0 {
        "nomsg"
    } else if max == 0 {
        "empty"
    } else if max <= 125 {
        "le125"
    } else if max < 65536 {
        "lt64k"
    } else if max < (1 << 20) {
        "lt1m"
    } else {
        "ge1m"
    }
}

fn mode_str(case: &Case) -> &'static str {
    match (case.duplex, case.duplex_tasks) {
        (false, _) => "half",
        (true, false) => "duplex",
        (true, true) => "duplex-tasks",
    }
}

fn eval_sig(case: &Case) -> String {
    let kinds: String = {
        let mut k: Vec<&str> = case.msgs.iter().flatten().map(|m| kind_name(m.kind)).collect();
        k.sort_unstable();
        k.dedup();
        k.iter().map(|s| &s[..1]).collect::<Vec<_>>().join("")
    };
    format!(
        "{}/{}/{}/relay={}/sockbuf={}/{}/{}[{kinds}]/closer={}",
        case.layer(),
        case.driver,
        case.link,
        case.relay.class,
        match case.sockbuf { 0 => "default", 1 => "min", _ => "small" },
        mode_str(case),
        size_class(case),
        ["client", "server"][case.closer],
    )
}

fn violation_sig(case: &Case, f: &Failure) -> String {
    if f.rule == "hang-mutual-backpressure" {
        // symmetric by nature: role, driver and relay class are incidental
        return format!(
            "C15/ws/{}/{}/{}",
            f.rule,
            case.layer(),
            if case.duplex { "duplex" } else { "half" }
        );
        // (joined and spawned halves share the signature: same root cause)
    }
    if f.rule.starts_with("hang-") && f.phase == "duplex" {
        // full-duplex data phase: which side is named, the driver and the
        // relay class are incidental; the mode (halves joined in one task or
        // in two tasks) is not
        return format!("C15/ws/{}/{}/{}", f.rule, case.layer(), mode_str(case));
    }
    format!(
        "C15/ws/{}/{}/{}/{}/{}/relay={}",
        f.rule,
        case.layer(),
        ["client", "server"][f.role],
        f.phase,
        case.driver,
        case.relay.class
    )
}

fn execute(case: &Case, rep: &mut Report, watchdog: Duration) {
    let t0 = Instant::now();
    let r = panics::catch(|| run_case(case, watchdog));
    if std::env::var_os("C15W_VERBOSE").is_some() {
        eprintln!(
            "[c15w] {:>6} ms {} bytes={:?} fail={:?} incon={:?} {}",
            t0.elapsed().as_millis(),
            eval_sig(case),
            r.as_ref().ok().map(|o| o.relay_bytes),
            r.as_ref().ok().and_then(|o| o.failure.as_ref().map(|f| f.rule.clone())),
            r.as_ref().ok().and_then(|o| o.inconclusive.clone()),
            if r.as_ref().is_ok_and(|o| o.inconclusive.is_some()) { case.to_json().to_string() } else { String::new() }
        );
    }
    match r {
        Ok(out) => {
            let trivial = case.msgs.iter().all(|l| l.is_empty());
            rep.eval(if trivial { None } else { Some(eval_sig(case)) });
            rep.count("relayed_bytes", (out.relay_bytes[0] + out.relay_bytes[1]) as i64);
            rep.count("relay_one_byte_reads", out.one_byte_reads as i64);
            rep.count("relay_short_sends", out.short_sends as i64);
            rep.count("relay_eagain_sends", out.eagain_sends as i64);
            rep.count("pings_sent", (out.pings[0] + out.pings[1]) as i64);
            rep.count("pongs_seen", (out.pongs[0] + out.pongs[1]) as i64);
            rep.max("runtime_iterations", out.iterations as i64);
            if out.policy_reject {
                rep.count("ws_handshake_rejected_by_tungstenite_attack_check", 1);
                return;
            }
            if let Some(r) = &out.inconclusive {
                // reasons are classes, not instances
                let r = if r.starts_with("watchdog") { "watchdog: case not finished".to_string() } else { r.clone() };
                rep.inconclusive(&r);
                return;
            }
            match &out.failure {
                None => {
                    rep.floor("held: io_uring driver", case.driver == "iouring");
                    rep.floor("held: poll driver", case.driver == "poll");
                    rep.floor("held: plain ws", case.tls == "none");
                    rep.floor("held: ws over rustls", case.tls == "rustls");
                    rep.floor("held: ws over native-tls", case.tls == "native");
                    rep.floor("held: unix socketpair", case.link == "unix");
                    rep.floor("held: tcp loopback", case.link == "tcp");
                    rep.floor("held: 1 MiB message", case.msgs.iter().flatten().any(|m| m.len >= 1 << 20));
                    rep.floor("held: 0-byte message", case.msgs.iter().flatten().any(|m| m.len == 0 && matches!(m.kind, Kind::Text | Kind::Binary)));
                    rep.floor("held: ping answered while the peer only reads", case.msgs.iter().flatten().any(|m| m.kind == Kind::PingSync) && !case.duplex);
                    rep.floor("held: full duplex through split()", case.duplex && !trivial);
                    rep.floor("held: full duplex, halves in separate tasks", case.duplex && case.duplex_tasks && !trivial);
                    rep.floor("held: close started by the server", case.closer == 1);
                    rep.floor("held: close started by the client", case.closer == 0);
                    rep.floor("held: relay made 1-byte reads", out.one_byte_reads > 0);
                    rep.floor("held: relay saw EAGAIN/short sends (back-pressure)", out.eagain_sends + out.short_sends > 0);
                    if rep.want_sample() && !trivial {
                        rep.sample(json!({"case": case.to_json(), "relayed_bytes": out.relay_bytes, "runtime_iterations": out.iterations}));
                    }
                }
                Some(f) => rep.violation(&violation_sig(case, f), &f.detail, case.to_json()),
            }
        }
        Err(p) => {
            rep.eval(None);
            match p.origin() {
                panics::Origin::Repo(loc) => rep.violation(
                    &format!("C15/ws/{}/{}/{}", p.sig(), case.layer(), case.driver),
                    &format!("panic in compio at {loc}: {}", p.message),
                    case.to_json(),
                ),
                o => rep.inconclusive(&format!("harness panic {o:?}: {}", p.message)),
            }
        }
    }
}

pub fn main(args: &Args) {
    let mut rep = Report::from_args("C15", &args.str("leg", "ws"), args);
    if let Err(e) = crate::c15t::material() {
        rep.inconclusive(&format!("cannot build TLS material: {e}"));
        rep.finish();
        return;
    }
    let watchdog = Duration::from_millis(args.u64("case-watchdog-ms", 60_000));
    if let Some(path) = args.get("replay") {
        let text = std::fs::read_to_string(path).expect("replay file");
        let v: Value = vcommon::serde_json::from_str(&text).expect("replay json");
        let case = Case::from_json(&v["program"]);
        execute(&case, &mut rep, watchdog);
        rep.finish();
        return;
    }
    let thorough = args.thorough();
    let iters = args.iters(400, 6000);
    let base = Rng::new(args.seed()).fork(args.shard() + 1);
    for i in 0..iters {
        if rep.out_of_time() {
            break;
        }
        let mut rng = base.fork(i as u64);
        let c = gen_case(&mut rng, thorough, i + args.shard() as usize);
        execute(&c, &mut rep, watchdog);
    }
    rep.note("cases: seeded relay scripts (tiny/small/mixed/large chunk classes, pauses, relay buffer 1 B .. 1 MiB) x {io_uring, poll} x {plain, rustls, native-tls} x {unix socketpair, tcp loopback} x socket buffers {default, kernel minimum, 8k} x {half duplex, split() full duplex} x close started by {client, server}");
    rep.finish();
}
