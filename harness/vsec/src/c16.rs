//! C16 QUIC streams and datagrams — not built yet.

use vcommon::Args;

pub fn main(_args: &Args) {
    eprintln!("c16: not implemented");
    std::process::exit(3);
}
