//! Native harness binary for the TLS / WebSocket / QUIC layers.

mod c15t;
mod c15w;
mod c16;

use vcommon::Args;

fn main() {
    vcommon::panics::install_hook();
    let args = Args::parse();
    match args.cmd.as_str() {
        "noop" => {}
        "c15t" => c15t::main(&args),
        "c15w" => c15w::main(&args),
        "c16" => c16::main(&args),
        other => {
            eprintln!("unknown subcommand {other:?}");
            std::process::exit(3);
        }
    }
}
