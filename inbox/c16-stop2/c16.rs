//! C16 — QUIC streams and datagrams: ordered, exactly-once, never stranded.
//!
//! Every program is one client/server pair of compio-quic endpoints on
//! loopback UDP inside ONE compio runtime (seeded driver: io_uring or poll),
//! driven by a hand-written event loop (see `c16_run.rs`):
//!
//! * stream oracle: per stream the bytes accepted by `write` / `write_all` /
//!   `write_chunks` / `write_all_chunks` (by their return values) are read back
//!   in order and exactly once by `read` / `read_chunk` (ordered and
//!   unordered) / `read_chunks` / `read_to_end`; end of stream comes right
//!   after the last byte and only after the writer finished; every stream
//!   carries its own nonce-derived pattern, so bytes of another stream or of
//!   another offset are recognised; stream ids are unique and are accepted
//!   once, by the right `accept_*`.
//! * flow control from byte counters: accepted − consumed ≤ receiver's
//!   stream window at every write return and after every reader sleep (and
//!   the connection window in transfer mode).
//! * abandoned streams (transfer mode): a reader calls `RecvStream::stop(code)` after k bytes
//!   or drops the `RecvStream` with unread data while the writer is blocked on flow control,
//!   idle, mid-transfer or already finished. The bytes read before are the right prefix; a
//!   writer that is pending in a write call or writes later gets `WriteError::Stopped` with
//!   the reader's code (0 for a drop) and never before the reader acted; `stopped()` yields
//!   that code; a writer still pending when the runtime is quiescent is stranded; the other
//!   streams and the datagrams complete; the stream's slot is given back (programs with more
//!   flows than the stream limit complete).
//! * datagrams: every received datagram equals one that was sent and was not
//!   received before (loss is allowed).
//! * never stranded: in transfer mode (no idle timeout, nothing closed) the
//!   runtime must not become quiescent before all transfers are complete;
//!   at the close point (seeded: after completion / when everything is
//!   blocked / after k executor ticks) the set of pending futures is
//!   recorded, `Connection::close` / `Endpoint::close` / drop of the last
//!   handle is performed, and every recorded future must complete before the
//!   runtime becomes quiescent again; then both endpoints and connections
//!   are closed (everything else must complete), all handles are dropped and
//!   `Endpoint::shutdown` must complete.
//!
//! Verdicts: a future still pending in a quiescent runtime is a violation; a
//! watchdog expiry alone is inconclusive; a panic located in /repo is a
//! violation.

#[path = "c16_prog.rs"]
mod prog;
#[path = "c16_run.rs"]
mod run;

use std::time::Duration;

use vcommon::{Args, Report, Rng, Value, json};

use self::prog::Prog;

fn evaluate(rep: &mut Report, p: &Prog, watchdog: Duration, verbose: bool) {
    let t0 = std::time::Instant::now();
    let res = vcommon::panics::catch(|| run::run_program(p, watchdog, verbose));
    let ms = t0.elapsed().as_millis() as i64;
    rep.max("max-program-ms", ms);
    rep.count("program-ms-total", ms);
    if verbose || ms > 8000 {
        eprintln!("program took {ms} ms: {}", p.to_json());
    }
    let out = match res {
        Ok(o) => o,
        Err(info) => {
            match info.origin() {
                vcommon::panics::Origin::Repo(loc) => {
                    let file = loc.rsplit_once(':').map_or(loc.as_str(), |x| x.0).to_string();
                    rep.violation(
                        &format!("C16/panic/{file}/{}", p.driver_name()),
                        &format!("panic inside compio escaped the runtime: {loc}: {}", info.message),
                        p.to_json(),
                    );
                }
                other => {
                    rep.inconclusive("harness-panic");
                    rep.note(format!("panic escaped run_program: {other:?}: {}", info.message));
                }
            }
            rep.eval(None);
            return;
        }
    };
    let blocked = if out.blocked.is_empty() { "-".to_string() } else { out.blocked.join(",") };
    let mut sig = format!(
        "{}/{}/c:{}@{}/b:{}",
        p.driver_name(),
        p.sig_static(),
        ["conn-close", "endpoint-close", "drop"][out.close_kind.min(2) as usize],
        p.close.at,
        blocked
    );
    if !out.stop_classes.is_empty() {
        // what the readers' stops hit (see `Outcome::stop_classes`)
        sig.push_str(&format!("/st:{}", out.stop_classes.join(",")));
    }
    if out.close_done {
        rep.eval(Some(sig.clone()));
    } else {
        rep.eval(None);
    }
    for b in &out.blocked {
        let kind = b.split(':').nth(1).unwrap_or("");
        rep.count(&format!("pending-at-close:{kind}"), 1);
    }
    for (sig_v, what) in &out.violations {
        let mut replay = p.to_json();
        if let Value::Object(m) = &mut replay {
            m.insert("observed".into(), json!({"signature": sig, "detail": out.detail}));
        }
        rep.violation(sig_v, what, replay);
    }
    for r in &out.inconclusive {
        rep.inconclusive(r);
    }
    if !out.inconclusive.is_empty() && std::env::var_os("C16_DUMP_INCON").is_some() {
        eprintln!("INCON {:?} {}", out.inconclusive, json!({"program": p.to_json()}));
    }
    for n in &out.notes {
        rep.note(n.clone());
    }
    for (k, v) in &out.counters {
        rep.count(k, *v);
    }
    for f in &out.floors {
        rep.floor(f, true);
    }
    if out.close_done {
        rep.count(if p.mode == 0 { "programs-transfer" } else { "programs-close" }, 1);
        rep.floor("saw-iour", p.driver == 0);
        rep.floor("saw-poll", p.driver == 1);
        rep.floor("saw-conn-close", out.close_kind == 0);
        rep.floor("saw-endpoint-close", out.close_kind == 1);
        rep.floor("saw-drop-close", out.close_kind == 2);
        let has = |k: &str| out.blocked.iter().any(|b| b.ends_with(k));
        for k in [
            "read", "write", "stopped", "received_reset", "open_uni_wait", "open_bi_wait", "accept_uni",
            "accept_bi", "recv_datagram", "send_datagram_wait", "closed", "wait_incoming", "connecting",
            "handshake_data",
        ] {
            rep.floor(&format!("saw-pending-at-close:{k}"), has(&format!(":{k}")));
        }
        for k in [
            "saw-stop-hit-blocked-writer",
            "saw-stop-hit-writer-blocked-on-stream-window-only",
            "saw-stop-hit-idle-writer",
            "saw-stop-hit-writer-in-stopped()",
            "saw-stop-hit-finished-writer",
            "saw-stop-completes-pending-write",
            "saw-stop-fails-next-write",
            "saw-implicit-stop-by-drop",
            "saw-stopped()-resolves-with-code",
            "saw-stream-limit-reuse-with-abandoned-stream",
        ] {
            rep.floor(k, out.floors.contains(k));
        }
        rep.floor("saw-stream-limit-0", p.tc.iter().any(|t| t.max_uni == 0 || t.max_bi == 0));
        rep.floor("saw-tiny-window", p.tc.iter().any(|t| t.srw > 0 && t.srw < 256));
        rep.floor("saw-16-streams", p.flows.len() >= 16);
        rep.floor("saw-2MiB-payload", p.flows.iter().any(|f| f.legs[0].len >= 2 << 20 || (f.bi && f.legs[1].len >= 2 << 20)));
        rep.floor("saw-0B-payload", p.flows.iter().any(|f| f.legs[0].len == 0));
        rep.max("max-streams", p.flows.len() as i64);
    }
    if rep.want_sample() && out.close_done {
        rep.sample(json!({"program": p.to_json(), "signature": sig}));
    }
}

pub fn main(args: &Args) {
    let leg = args.str("leg", "plain");
    let mut rep = Report::from_args("C16", &leg, args);
    rep.set_exhaustive(false);
    let verbose = args.flag("verbose");
    let watchdog = Duration::from_millis(args.u64("watchdog-ms", if args.thorough() { 45_000 } else { 25_000 }));
    run::install_panic_log();

    if let Some(path) = args.get("replay") {
        let text = std::fs::read_to_string(path).unwrap_or_default();
        let v: Value = vcommon::serde_json::from_str(&text).unwrap_or(Value::Null);
        let pv = v.get("program").cloned().unwrap_or(v);
        match Prog::from_json(&pv) {
            Some(p) => {
                let n = args.usize("repeat", 1);
                for _ in 0..n {
                    evaluate(&mut rep, &p, watchdog, verbose);
                }
            }
            None => rep.inconclusive("replay-file-unreadable"),
        }
        rep.finish();
        return;
    }

    let base = Rng::new(args.seed()).fork(args.shard() + 1);
    let iters = args.iters(100_000, 1_000_000);
    let force_mode = args.get("mode").map(|m| if m == "x" || m == "0" { 0u8 } else { 1u8 });
    let only_driver = args.get("driver").map(|d| if d == "iour" || d == "0" { 0u8 } else { 1u8 });
    for idx in 0..iters as u64 {
        if rep.out_of_time() {
            break;
        }
        let mut rng = base.fork(idx + 1);
        let mut p = prog::generate(&mut rng, idx + args.shard(), args.thorough(), force_mode);
        if let Some(d) = only_driver {
            p.driver = d;
        }
        if args.flag("dump") {
            eprintln!("{}", p.to_json());
        }
        if args.flag("dry") {
            continue;
        }
        evaluate(&mut rep, &p, watchdog, verbose);
        if args.flag("stop-on-violation") && rep.n_violations() > 0 {
            break;
        }
    }
    rep.finish();
}
