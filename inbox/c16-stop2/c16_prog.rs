//! C16 program description: one QUIC connection scenario (transport
//! configuration, stream flows, datagrams, fixtures that park futures, close
//! plan). Explicit JSON form for replay, plus the seeded generator.

use vcommon::{Rng, Value, json};

pub const CLIENT: usize = 0;
pub const SERVER: usize = 1;

/// Transport configuration of one side. `0` means "library default".
#[derive(Clone, Debug, Default)]
pub struct Tc {
    pub srw: u64,
    pub rw: u64,
    pub sw: u64,
    /// limit on *incoming* streams of this side; 100 = library default
    pub max_uni: u32,
    pub max_bi: u32,
    /// -1: datagrams disabled (None), 0: default, >0 bytes
    pub dg_recv: i64,
    pub dg_send: u64,
    pub gso: bool,
    /// 0 = no idle timeout
    pub idle_ms: u64,
}

#[derive(Clone, Debug)]
pub struct Leg {
    pub len: u64,
    /// 0 write, 1 write_all, 2 write_chunks, 3 write_all_chunks
    pub wapi: u8,
    pub wchunk: u64,
    pub wvar: bool,
    /// 0 finish(), 1 drop, 2 AsyncWrite::shutdown
    pub fin: u8,
    /// -1 none, else the writer stops after this many bytes and holds the stream
    pub wstall: i64,
    /// await `stopped()` after the stall / after finish
    pub wstopped: bool,
    /// 0 none, 1 yield after every write, 2 sleep 1ms every 16 writes
    pub wpace: u8,
    /// 0 read(buf), 1 read_chunk ordered, 2 read_chunk unordered, 3 read_chunks, 4 read_to_end
    pub rapi: u8,
    pub rbuf: u64,
    /// 0 eager, 1 yield, 2 short sleeps, 3 late start, 4 stop-and-go
    pub rpace: u8,
    /// -1 none, else the reader stops after this many bytes and holds the stream
    pub rstall: i64,
    /// with rstall: await `received_reset()` instead of just parking
    pub rreset: bool,
    /// -1 none, else the reader abandons the stream after this many bytes read: `stop(code)`
    /// or (rstop_drop) drop of the `RecvStream` with unread data (implicit `stop(0)`).
    /// Together with `wstall`: the writer pauses after `wstall` bytes until the peer stopped
    /// (awaiting `stopped()` if `wstopped`), then goes on writing.
    pub rstop: i64,
    pub rstop_drop: bool,
    pub rstop_code: u64,
    /// 0 stop right after the last read, 1 after a short sleep, 2 once the writer is blocked
    /// in a write call (or idle, or has finished)
    pub rstop_when: u8,
}

pub const MAX_CODE: u64 = (1 << 62) - 1;

impl Default for Leg {
    fn default() -> Self {
        Leg {
            len: 0,
            wapi: 0,
            wchunk: 1,
            wvar: false,
            fin: 0,
            wstall: -1,
            wstopped: false,
            wpace: 0,
            rapi: 0,
            rbuf: 1,
            rpace: 0,
            rstall: -1,
            rreset: false,
            rstop: -1,
            rstop_drop: false,
            rstop_code: 0,
            rstop_when: 0,
        }
    }
}

impl Leg {
    /// The code the writer must see: the reader's, 0 for the implicit stop of a drop.
    pub fn stop_code(&self) -> u64 {
        if self.rstop_drop { 0 } else { self.rstop_code.min(MAX_CODE) }
    }

    /// The leg as it is executed: a stop leg never parks its reader, its reader cannot wait
    /// for more bytes than the writer produces before it pauses, and a pausing writer of the
    /// opening direction must have sent something (a stream is announced by its first frame).
    pub fn normalized(&self, leg: usize) -> Leg {
        let mut l = self.clone();
        if l.rstop < 0 {
            return l;
        }
        l.rstall = -1;
        l.rreset = false;
        if l.wstall >= 0 {
            let mut ws = (l.wstall as u64).min(l.len);
            if leg == 0 && ws == 0 {
                ws = 1;
            }
            if ws >= l.len {
                l.wstall = -1; // nothing left to write after the pause: an ordinary writer
            } else {
                l.wstall = ws as i64;
            }
        }
        let cap = if l.wstall >= 0 { l.wstall as u64 } else { l.len };
        l.rstop = (l.rstop as u64).min(cap) as i64;
        if l.rapi == 4 && l.rstop > 0 {
            l.rapi = 0; // read_to_end cannot stop half way
        }
        l
    }
}

#[derive(Clone, Debug, Default)]
pub struct Flow {
    pub opener: usize,
    pub bi: bool,
    pub open_wait: bool,
    /// legs[0]: opener -> acceptor; legs[1] (bi only): acceptor -> opener
    pub legs: [Leg; 2],
}

#[derive(Clone, Debug, Default)]
pub struct Dg {
    pub n: u32,
    pub max_len: u32,
    /// 0 send_datagram, 1 send_datagram_wait, 2 alternate
    pub api: u8,
    pub burst: bool,
    pub readers: u8,
}

/// Fixture kinds (futures parked for the close oracle).
pub const FX_OPEN_UNI: u8 = 0;
pub const FX_OPEN_BI: u8 = 1;
pub const FX_SEND_DG_WAIT: u8 = 2;
pub const FX_CLOSED: u8 = 3;
pub const FX_CLOSED_CANCEL: u8 = 4;
pub const FX_WAIT_INCOMING: u8 = 5;
pub const FX_CONNECTING: u8 = 6;
pub const FX_HANDSHAKE_DATA: u8 = 7;
pub const FX_NAMES: [&str; 8] = [
    "open_uni_wait",
    "open_bi_wait",
    "send_datagram_wait",
    "closed",
    "closed-cancel",
    "wait_incoming",
    "connecting",
    "handshake_data",
];

#[derive(Clone, Debug, Default)]
pub struct Fix {
    pub kind: u8,
    pub side: usize,
    pub n: u8,
}

#[derive(Clone, Debug, Default)]
pub struct Close {
    /// 0 Connection::close, 1 Endpoint::close, 2 drop the last Connection handle
    pub kind: u8,
    pub side: usize,
    /// 0: when all flows are complete (transfer mode); 1: when every harness
    /// task is blocked or done; 2: after `tick` executor ticks
    pub at: u8,
    pub tick: u64,
    pub extra: u32,
}

#[derive(Clone, Debug, Default)]
pub struct Prog {
    /// 0 transfer (run flows to completion, then close), 1 close (close with parked futures)
    pub mode: u8,
    /// 0 io_uring, 1 poll
    pub driver: u8,
    /// executor event interval (task polls per tick)
    pub tick: u32,
    pub nonce: u64,
    pub tc: [Tc; 2],
    pub flows: Vec<Flow>,
    pub dg: [Dg; 2],
    /// accept tasks per side and direction [side][0 uni, 1 bi]
    pub acceptors: [[u8; 2]; 2],
    /// raise the stream limit of [side][dir] to this value (0 = never) after raise_ms
    pub raise: [[u32; 2]; 2],
    pub raise_ms: u64,
    pub fixtures: Vec<Fix>,
    pub close: Close,
}

fn gu(v: &Value, k: &str) -> u64 {
    v.get(k).and_then(|x| x.as_u64()).unwrap_or(0)
}
fn gi(v: &Value, k: &str) -> i64 {
    v.get(k).and_then(|x| x.as_i64()).unwrap_or(0)
}
fn gb(v: &Value, k: &str) -> bool {
    v.get(k).and_then(|x| x.as_bool()).unwrap_or(false)
}

impl Tc {
    fn to_json(&self) -> Value {
        json!({"srw": self.srw, "rw": self.rw, "sw": self.sw, "max_uni": self.max_uni, "max_bi": self.max_bi,
               "dg_recv": self.dg_recv, "dg_send": self.dg_send, "gso": self.gso, "idle_ms": self.idle_ms})
    }
    fn from_json(v: &Value) -> Self {
        Tc {
            srw: gu(v, "srw"),
            rw: gu(v, "rw"),
            sw: gu(v, "sw"),
            max_uni: gu(v, "max_uni") as u32,
            max_bi: gu(v, "max_bi") as u32,
            dg_recv: gi(v, "dg_recv"),
            dg_send: gu(v, "dg_send"),
            gso: gb(v, "gso"),
            idle_ms: gu(v, "idle_ms"),
        }
    }
}

impl Leg {
    fn to_json(&self) -> Value {
        json!({"len": self.len, "wapi": self.wapi, "wchunk": self.wchunk, "wvar": self.wvar, "fin": self.fin,
               "wstall": self.wstall, "wstopped": self.wstopped, "wpace": self.wpace, "rapi": self.rapi,
               "rbuf": self.rbuf, "rpace": self.rpace, "rstall": self.rstall, "rreset": self.rreset,
               "rstop": self.rstop, "rstop_drop": self.rstop_drop, "rstop_code": self.rstop_code,
               "rstop_when": self.rstop_when})
    }
    fn from_json(v: &Value) -> Self {
        Leg {
            len: gu(v, "len"),
            wapi: gu(v, "wapi") as u8,
            wchunk: gu(v, "wchunk").max(1),
            wvar: gb(v, "wvar"),
            fin: gu(v, "fin") as u8,
            wstall: v.get("wstall").and_then(|x| x.as_i64()).unwrap_or(-1),
            wstopped: gb(v, "wstopped"),
            wpace: gu(v, "wpace") as u8,
            rapi: gu(v, "rapi") as u8,
            rbuf: gu(v, "rbuf").max(1),
            rpace: gu(v, "rpace") as u8,
            rstall: v.get("rstall").and_then(|x| x.as_i64()).unwrap_or(-1),
            rreset: gb(v, "rreset"),
            rstop: v.get("rstop").and_then(|x| x.as_i64()).unwrap_or(-1),
            rstop_drop: gb(v, "rstop_drop"),
            rstop_code: gu(v, "rstop_code").min(MAX_CODE),
            rstop_when: gu(v, "rstop_when") as u8,
        }
    }
}

impl Prog {
    pub fn to_json(&self) -> Value {
        json!({
            "mode": self.mode, "driver": self.driver, "tick": self.tick, "nonce": self.nonce,
            "tc": [self.tc[0].to_json(), self.tc[1].to_json()],
            "flows": self.flows.iter().map(|f| json!({"opener": f.opener, "bi": f.bi, "open_wait": f.open_wait,
                "legs": [f.legs[0].to_json(), f.legs[1].to_json()]})).collect::<Vec<_>>(),
            "dg": self.dg.iter().map(|d| json!({"n": d.n, "max_len": d.max_len, "api": d.api, "burst": d.burst,
                "readers": d.readers})).collect::<Vec<_>>(),
            "acceptors": self.acceptors, "raise": self.raise, "raise_ms": self.raise_ms,
            "fixtures": self.fixtures.iter().map(|f| json!({"kind": f.kind, "name": FX_NAMES[f.kind as usize],
                "side": f.side, "n": f.n})).collect::<Vec<_>>(),
            "close": {"kind": self.close.kind, "side": self.close.side, "at": self.close.at,
                      "tick": self.close.tick, "extra": self.close.extra},
        })
    }

    pub fn from_json(v: &Value) -> Option<Self> {
        let mut p = Prog {
            mode: gu(v, "mode") as u8,
            driver: gu(v, "driver") as u8,
            tick: (gu(v, "tick") as u32).max(1),
            nonce: gu(v, "nonce"),
            ..Default::default()
        };
        let tc = v.get("tc")?.as_array()?;
        p.tc = [Tc::from_json(tc.first()?), Tc::from_json(tc.get(1)?)];
        for f in v.get("flows")?.as_array()? {
            let legs = f.get("legs")?.as_array()?;
            p.flows.push(Flow {
                opener: gu(f, "opener") as usize & 1,
                bi: gb(f, "bi"),
                open_wait: gb(f, "open_wait"),
                legs: [Leg::from_json(legs.first()?), Leg::from_json(legs.get(1)?)],
            });
        }
        for (i, d) in v.get("dg")?.as_array()?.iter().enumerate().take(2) {
            p.dg[i] = Dg {
                n: gu(d, "n") as u32,
                max_len: gu(d, "max_len") as u32,
                api: gu(d, "api") as u8,
                burst: gb(d, "burst"),
                readers: gu(d, "readers") as u8,
            };
        }
        let arr2 = |k: &str| -> Option<[[u64; 2]; 2]> {
            let a = v.get(k)?.as_array()?;
            let mut out = [[0u64; 2]; 2];
            for s in 0..2 {
                let b = a.get(s)?.as_array()?;
                for d in 0..2 {
                    out[s][d] = b.get(d)?.as_u64()?;
                }
            }
            Some(out)
        };
        let a = arr2("acceptors")?;
        let r = arr2("raise")?;
        for s in 0..2 {
            for d in 0..2 {
                p.acceptors[s][d] = a[s][d] as u8;
                p.raise[s][d] = r[s][d] as u32;
            }
        }
        p.raise_ms = gu(v, "raise_ms");
        for f in v.get("fixtures")?.as_array()? {
            p.fixtures.push(Fix {
                kind: (gu(f, "kind") as u8).min(7),
                side: gu(f, "side") as usize & 1,
                n: (gu(f, "n") as u8).max(1),
            });
        }
        let c = v.get("close")?;
        p.close = Close {
            kind: gu(c, "kind") as u8,
            side: gu(c, "side") as usize & 1,
            at: gu(c, "at") as u8,
            tick: gu(c, "tick"),
            extra: gu(c, "extra") as u32,
        };
        Some(p)
    }
}

// ---------------------------------------------------------------------------
// classes for signatures

pub fn win_class(w: u64, default: u64) -> &'static str {
    let w = if w == 0 { default } else { w };
    match w {
        0..=255 => "tiny",
        256..=1500 => "pkt",
        1501..=32767 => "small",
        32768..=300_000 => "mid",
        300_001..=2_000_000 => "dflt",
        _ => "big",
    }
}

pub const DEFAULT_SRW: u64 = 1_250_000;
pub const DEFAULT_RW: u64 = u32::MAX as u64 * 2; // VarInt::MAX in quinn: effectively unlimited

pub fn eff(w: u64, default: u64) -> u64 {
    if w == 0 { default } else { w }
}

fn bucket(n: usize) -> &'static str {
    match n {
        0 => "0",
        1 => "1",
        2..=4 => "2-4",
        _ => "5-16",
    }
}

impl Prog {
    pub fn driver_name(&self) -> &'static str {
        if self.driver == 0 { "iour" } else { "poll" }
    }

    pub fn close_name(&self) -> &'static str {
        ["conn-close", "endpoint-close", "drop"][self.close.kind.min(2) as usize]
    }

    /// (window class, stream mix, reader pacing) part of the signature.
    pub fn sig_static(&self) -> String {
        let srw = self.tc.iter().map(|t| eff(t.srw, DEFAULT_SRW)).min().unwrap();
        let rw = self.tc.iter().map(|t| eff(t.rw, DEFAULT_RW)).min().unwrap();
        let sw = self.tc.iter().map(|t| eff(t.sw, DEFAULT_RW)).min().unwrap();
        let nu = self.flows.iter().filter(|f| !f.bi).count();
        let nb = self.flows.iter().filter(|f| f.bi).count();
        let lim = self
            .tc
            .iter()
            .map(|t| t.max_uni.min(t.max_bi))
            .min()
            .unwrap();
        let mut paces: Vec<u8> = Vec::new();
        for f in &self.flows {
            for (i, l) in f.legs.iter().enumerate() {
                if i == 1 && !f.bi {
                    continue;
                }
                let p = if l.rstop >= 0 { 8 } else if l.rstall >= 0 { 9 } else { l.rpace };
                if !paces.contains(&p) {
                    paces.push(p);
                }
            }
        }
        paces.sort();
        let pace: String = paces
            .iter()
            .map(|p| match p {
                0 => 'e',
                1 => 'y',
                2 => 's',
                3 => 'l',
                4 => 'g',
                8 => 'k',
                _ => 'x',
            })
            .collect();
        let dg = if self.dg.iter().any(|d| d.n > 0) { "+dg" } else { "" };
        format!(
            "{}/w:{}-{}-{}/s:{}u{}b-L{}{}/p:{}",
            if self.mode == 0 { "xfer" } else { "close" },
            win_class(srw, DEFAULT_SRW),
            win_class(rw, DEFAULT_RW),
            win_class(sw, DEFAULT_RW),
            bucket(nu),
            bucket(nb),
            lim,
            dg,
            pace
        )
    }
}

// ---------------------------------------------------------------------------
// generator

fn gen_window(rng: &mut Rng) -> u64 {
    match rng.below(12) {
        0 => rng.range(1, 64) as u64,
        1 => 37,
        2 => 1200,
        3 => rng.range(1201, 4000) as u64,
        4 => rng.range(4096, 16384) as u64,
        5 => 65536,
        6 => 8 << 20,
        _ => 0,
    }
}

fn gen_tc(rng: &mut Rng, mode: u8) -> Tc {
    Tc {
        srw: gen_window(rng),
        rw: if rng.chance(1, 2) { 0 } else { gen_window(rng) },
        sw: match rng.below(8) {
            0 => 1200,
            1 => rng.range(2000, 9000) as u64,
            2 => 65536,
            _ => 0,
        },
        max_uni: *rng.pick(&[0, 1, 4, 4, 100, 100, 100]),
        max_bi: *rng.pick(&[0, 1, 4, 4, 100, 100, 100]),
        dg_recv: *rng.pick(&[0, 0, 0, 1500, 16384, -1]),
        dg_send: *rng.pick(&[0, 0, 1200, 4096, 65536]),
        gso: rng.chance(2, 3),
        idle_ms: if mode == 0 { 0 } else { *rng.pick(&[8000, 12000]) },
    }
}

struct Budget {
    bytes: u64,
    trips: u64,
    calls: u64,
}

fn gen_leg(rng: &mut Rng, p_mode: u8, to: &Tc, from: &Tc, bud: &mut Budget, stop: bool) -> Leg {
    let srw = eff(to.srw, DEFAULT_SRW);
    let rw = eff(to.rw, DEFAULT_RW);
    let sw = eff(from.sw, DEFAULT_RW);
    let w = srw.min(rw).min(sw).max(1);
    let mut len: u64 = match rng.below(14) {
        0 => 0,
        1 => 1,
        2 => rng.range(2, 100) as u64,
        3 => rng.range(1000, 1500) as u64,
        4 | 5 => rng.range(4000, 20000) as u64,
        6 | 7 => 65536 + rng.below(3) as u64 - 1,
        8 | 9 => 256 << 10,
        10 => 1 << 20,
        11 => 2 << 20,
        _ => rng.range(0, 300_000) as u64,
    };
    // bounded number of flow-control round trips
    let trips_left = bud.trips.max(20);
    len = len.min(w.saturating_mul(trips_left.min(1500)));
    len = len.min(bud.bytes);
    let mut leg = Leg {
        len,
        wapi: rng.below(4) as u8,
        wchunk: *rng.pick(&[1, 7, 100, 1200, 4096, 16384, 65536]),
        wvar: rng.chance(1, 2),
        fin: *rng.pick(&[0, 0, 0, 1, 2]),
        wstall: -1,
        wstopped: rng.chance(1, 5),
        wpace: *rng.pick(&[0, 0, 0, 1, 2]),
        rapi: *rng.pick(&[0, 0, 0, 1, 1, 2, 3, 3, 4]),
        rbuf: *rng.pick(&[1, 13, 512, 1500, 4096, 65536]),
        rpace: *rng.pick(&[0, 0, 0, 1, 2, 3, 4]),
        rstall: -1,
        rreset: false,
        ..Default::default()
    };
    if stop {
        // the reader abandons the stream: a payload of several windows, so that the writer is
        // blocked on flow control (or mid-transfer) when the stop arrives
        // (only about rstop + one window of it is ever transferred)
        if !rng.chance(1, 8) {
            leg.len = (w.saturating_mul(3) + rng.range(0, 2000) as u64).min(200_000).min(bud.bytes.max(1));
        } else {
            leg.len = leg.len.min(200_000);
        }
        let len = leg.len as usize;
        leg.rstop = match rng.below(8) {
            0 => 0,
            1 => 1.min(len),
            2 => len,
            3 => rng.range(0, len.min(100)),
            _ => rng.range(0, len.min(2 * w as usize + 1000)),
        } as i64;
        leg.rstop_drop = rng.chance(1, 3);
        leg.rstop_code = *rng.pick(&[0, 1, 7, 0x1234, 0x1234, MAX_CODE]);
        leg.rstop_when = *rng.pick(&[2, 2, 2, 2, 1, 0]);
        if leg.rapi == 4 && leg.rstop > 0 {
            leg.rapi = 0;
        }
        if leg.rapi == 2 && (w > 65536 || leg.rstop_when != 0) {
            // a reader that waits before it stops lets chunks pile up (quinn-proto's chunk bound)
            leg.rapi = 1;
        }
        if len >= 2 && rng.chance(1, 4) {
            // idle writer: pauses until the peer stopped, then writes on
            // (within the window, so that it gets there without blocking)
            let lo = (leg.rstop as usize).max(1).min(len - 1);
            let hi = (lo + (w as usize).min(len)).min(len - 1);
            leg.wstall = rng.range(lo, hi) as i64;
            leg.rstop = leg.rstop.min(leg.wstall);
            leg.wstopped = rng.chance(1, 2);
        }
        leg.wpace = *rng.pick(&[0, 0, 0, 1]);
        leg.rpace = *rng.pick(&[0, 0, 1]);
        if w > 16384 {
            // the reader may wait before it stops: tiny frames piling up unread in a large
            // window run into quinn-proto's chunk bound
            leg.wchunk = leg.wchunk.max(1200);
            leg.wpace = 0;
        }
    }
    if p_mode == 1 {
        match rng.below(5) {
            0 => {
                let lo = if rng.chance(1, 6) { 0 } else { 1 };
                leg.wstall = if len == 0 { 0 } else { rng.range(lo, len as usize) as i64 };
            }
            1 => {
                // stalled reader: make the payload exceed what the windows can absorb
                let want = (srw.min(rw).saturating_mul(2).saturating_add(40_000)).min(2 << 20).min(bud.bytes.max(1));
                leg.len = leg.len.max(want);
                leg.rstall = rng.range(0, (leg.len / 4).min(5000) as usize) as i64;
                leg.rreset = rng.chance(1, 3);
                // (tiny frames piling up unread run into quinn-proto's chunk bound)
                leg.wchunk = leg.wchunk.max(1200);
                leg.wpace = 0;
                leg.rpace = 0;
            }
            _ => {}
        }
    }
    if leg.rstall >= 0 && (leg.rapi == 4 || leg.rapi == 2) {
        // a parked unordered reader lets up to a window of chunks pile up (see below)
        leg.rapi = if leg.rapi == 4 { 0 } else { 1 };
    }
    if leg.rapi == 2 || leg.rapi == 4 {
        // unordered reads: quinn-proto bounds the number of buffered chunks (MAX_CHUNKS = 1024)
        // and kills the connection beyond; keep frames large and the reader prompt
        leg.wchunk = leg.wchunk.max(1200);
        leg.wvar = false;
        leg.wpace = 0;
        if leg.rpace >= 2 {
            leg.rpace = 1;
        }
    }
    // bounded number of API calls
    let calls_left = bud.calls.max(2000);
    if leg.len / leg.wchunk > calls_left / 2 {
        leg.wchunk = (leg.len / (calls_left / 2)).max(1);
    }
    if leg.len / leg.rbuf > calls_left / 2 {
        leg.rbuf = (leg.len / (calls_left / 2)).max(1);
    }
    if leg.wpace != 0 && leg.len / leg.wchunk > 3000 {
        // a yield after every write makes every write its own packet: thousands of tiny
        // frames cost quinn-proto's reassembly seconds of CPU (and then idle timers fire)
        leg.wchunk = (leg.len / 3000).max(1);
    }
    if leg.wpace != 0 && leg.wchunk < 512 && leg.rpace >= 2 {
        // tiny single-frame packets and a reader that sleeps: quinn-proto's chunk bound again
        leg.rpace = 1;
    }
    if leg.rapi == 4 {
        leg.rpace = if leg.rpace == 3 { 3 } else { 0 };
    }
    if leg.wapi >= 2 {
        leg.wchunk = leg.wchunk.max(4);
    }
    bud.bytes = bud.bytes.saturating_sub(leg.len);
    bud.trips = bud.trips.saturating_sub(leg.len / w);
    bud.calls = bud.calls.saturating_sub(leg.len / leg.wchunk + leg.len / leg.rbuf);
    leg
}

pub fn generate(rng: &mut Rng, idx: u64, thorough: bool, force_mode: Option<u8>) -> Prog {
    let mode = force_mode.unwrap_or(if rng.chance(1, 2) { 0 } else { 1 });
    let mut p = Prog {
        mode,
        driver: (idx % 2) as u8,
        tick: *rng.pick(&[1, 2, 7, 61, 61]),
        nonce: rng.next_u64() >> 1,
        ..Default::default()
    };
    let a = gen_tc(rng, mode);
    let b = if rng.chance(1, 2) { a.clone() } else { gen_tc(rng, mode) };
    p.tc = [a, b];
    // stop programs (transfer mode): readers abandon streams while the writers are active;
    // small windows so that the writers are really blocked when the stop arrives
    let stop_prog = mode == 0 && rng.chance(1, 3);
    if stop_prog {
        if rng.chance(1, 2) {
            // no connection-level limit: a blocked writer is blocked on the stream window alone
            for s in 0..2 {
                p.tc[s].rw = 0;
                p.tc[s].sw = 0;
            }
        }
        for s in 0..2 {
            match rng.below(8) {
                0..=4 => p.tc[s].srw = *rng.pick(&[16, 37, 300, 1200, 4096, 16384]),
                5 => p.tc[s].rw = *rng.pick(&[1200, 4096, 20000]),
                6 => p.tc[s].sw = *rng.pick(&[1200, 5000]),
                _ => {}
            }
            if rng.chance(1, 3) {
                // a stopped stream must give its slot back: more flows than the limit allows
                p.tc[s].max_uni = *rng.pick(&[1, 2]);
                p.tc[s].max_bi = *rng.pick(&[1, 2]);
            }
        }
    }

    let nflows = if stop_prog { *rng.pick(&[1, 1, 2, 3, 4, 8]) } else { *rng.pick(&[0, 1, 1, 2, 3, 4, 8, 16]) };
    let mut any_stop = false;
    let big = rng.chance(1, if thorough { 3 } else { 6 });
    let mut bud = Budget {
        bytes: if big { if thorough { 12 << 20 } else { 5 << 20 } } else { 600 << 10 },
        trips: if thorough { 6000 } else { 2500 },
        calls: if thorough { 80_000 } else { 30_000 },
    };
    for _ in 0..nflows {
        let opener = rng.below(2);
        let bi = rng.chance(1, 2);
        let s0 = stop_prog && (rng.chance(1, 2) || (!any_stop && p.flows.len() + 1 == nflows));
        let s1 = stop_prog && bi && rng.chance(1, 2);
        any_stop |= s0 || s1;
        let l0 = gen_leg(rng, mode, &p.tc[1 - opener], &p.tc[opener], &mut bud, s0);
        let l1 = if bi {
            gen_leg(rng, mode, &p.tc[opener], &p.tc[1 - opener], &mut bud, s1)
        } else {
            Leg::default()
        };
        p.flows.push(Flow { opener, bi, open_wait: rng.chance(2, 3), legs: [l0, l1] });
    }
    for s in 0..2 {
        p.dg[s] = Dg {
            n: *rng.pick(&[0, 0, 1, 5, 40, 200]),
            max_len: *rng.pick(&[0, 7, 8, 100, 1100, 1100]),
            api: rng.below(3) as u8,
            burst: rng.chance(1, 2),
            readers: *rng.pick(&[0, 1, 1, 2]),
        };
    }
    for s in 0..2 {
        // quinn-proto 0.11.17 double-subtracts `payload_bytes` when `send(drop = true)` evicts
        // queued datagrams (then panics on underflow with overflow checks): stay below the
        // send buffer with the non-waiting API
        let cap = eff(p.tc[s].dg_send, 1 << 20);
        if p.dg[s].api != 1 && p.dg[s].n as u64 * (p.dg[s].max_len as u64 + 64) > cap {
            p.dg[s].api = 1;
        }
    }
    for s in 0..2 {
        if p.dg[1 - s].n > 0 && p.dg[s].readers == 0 && rng.chance(3, 4) {
            p.dg[s].readers = 1;
        }
        for d in 0..2 {
            let incoming = p.flows.iter().filter(|f| f.opener != s && f.bi == (d == 1)).count();
            p.acceptors[s][d] = if incoming > 0 { *rng.pick(&[1, 1, 2]) } else { *rng.pick(&[0, 1, 2]) };
            let lim = if d == 0 { p.tc[s].max_uni } else { p.tc[s].max_bi };
            if lim == 0 && incoming > 0 && (mode == 0 || rng.chance(2, 3)) {
                p.raise[s][d] = *rng.pick(&[1, 4, 100]);
            }
        }
    }
    p.raise_ms = *rng.pick(&[0, 1, 5, 20]);

    if mode == 0 {
        for s in 0..2 {
            if rng.chance(1, 3) {
                p.fixtures.push(Fix { kind: FX_CLOSED, side: s, n: 1 });
            }
            if rng.chance(1, 6) {
                p.fixtures.push(Fix { kind: FX_WAIT_INCOMING, side: s, n: 1 });
            }
        }
        p.close = Close { kind: rng.below(2) as u8, side: rng.below(2), at: 0, tick: 0, extra: 0 };
    } else {
        for s in 0..2 {
            let peer = &p.tc[1 - s];
            if peer.max_uni <= 4 && rng.chance(1, 2) {
                p.fixtures.push(Fix { kind: FX_OPEN_UNI, side: s, n: *rng.pick(&[1, 1, 2]) });
            }
            if peer.max_bi <= 4 && rng.chance(1, 2) {
                p.fixtures.push(Fix { kind: FX_OPEN_BI, side: s, n: *rng.pick(&[1, 1, 2]) });
            }
            if peer.dg_recv >= 0 && rng.chance(1, 4) {
                p.fixtures.push(Fix { kind: FX_SEND_DG_WAIT, side: s, n: 1 });
            }
            if rng.chance(1, 2) {
                p.fixtures.push(Fix { kind: FX_CLOSED, side: s, n: *rng.pick(&[1, 1, 1, 1, 1, 2]) });
            }
            if rng.chance(1, 2) {
                p.fixtures.push(Fix { kind: FX_WAIT_INCOMING, side: s, n: *rng.pick(&[1, 2]) });
            }
            if rng.chance(1, 5) {
                p.fixtures.push(Fix { kind: FX_CONNECTING, side: s, n: 1 });
            }
            if rng.chance(1, 5) {
                p.fixtures.push(Fix { kind: FX_HANDSHAKE_DATA, side: s, n: 1 });
            }
        }
        if rng.chance(1, 25) {
            p.fixtures.push(Fix { kind: FX_CLOSED_CANCEL, side: rng.below(2), n: 1 });
        }
        let kind = *rng.pick(&[0, 0, 0, 0, 1, 1, 1, 2]);
        let at = if kind == 2 || rng.chance(2, 3) { 1 } else { 2 };
        p.close = Close {
            kind,
            side: rng.below(2),
            at,
            tick: if at == 2 { rng.range(1, 600) as u64 } else { 0 },
            extra: *rng.pick(&[0, 0, 1, 3, 10]),
        };
        if kind == 2 {
            sanitize_for_drop(&mut p, rng);
        }
        for f in &p.fixtures {
            // see the note on the quinn-proto eviction bug above
            if f.kind == FX_SEND_DG_WAIT {
                p.dg[f.side].api = 1;
            }
        }
    }
    p
}

/// `drop` as the close action only closes the connection if the dropped
/// handle is the last one; shape the closing side so that nothing else of it
/// survives until the close point.
fn sanitize_for_drop(p: &mut Prog, rng: &mut Rng) {
    let l = p.close.side;
    p.acceptors[l] = [0, 0];
    p.dg[l].readers = 0;
    p.dg[l].n = p.dg[l].n.min(5);
    p.raise[l] = [0, 0];
    p.fixtures.retain(|f| f.side != l || matches!(f.kind, FX_WAIT_INCOMING | FX_CONNECTING | FX_HANDSHAKE_DATA));
    for f in &mut p.flows {
        if f.opener == l {
            f.bi = false;
            f.open_wait = false;
            let leg = &mut f.legs[0];
            leg.rstall = -1;
            leg.wstopped = false;
            if leg.wstall < 0 {
                leg.len = leg.len.min(4000);
                leg.wstall = if rng.chance(1, 2) { (leg.len / 2) as i64 } else { -1 };
            }
        }
    }
    for f in &mut p.flows {
        if f.opener != l {
            // never accepted on the dropping side: data piles up unread there
            f.legs[0].wchunk = f.legs[0].wchunk.max(1200);
            f.legs[0].wpace = 0;
        }
    }
    // the limit towards the peer must let those streams open without waiting
    let peer = 1 - l;
    let n = p.flows.iter().filter(|f| f.opener == l).count() as u32;
    if p.tc[peer].max_uni < n {
        p.tc[peer].max_uni = 100;
    }
}
