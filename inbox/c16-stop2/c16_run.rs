//! C16 program runner: one compio runtime per program, driven by a hand
//! written loop (`Runtime::run` / `poll_with`) so that logical quiescence of
//! the whole runtime can be decided: no runnable task, no timer, no operation
//! in flight other than the endpoints' parked receives, nothing queued in the
//! kernel sockets, no driver event and no harness task poll over several
//! rounds. A tracked future that is still pending then is stranded.

use std::{
    any::Any,
    cell::{Cell, RefCell},
    collections::{HashMap, HashSet},
    future::Future,
    net::SocketAddr,
    pin::pin,
    rc::Rc,
    sync::{Arc, Mutex, OnceLock},
    task::Poll,
    time::{Duration, Instant},
};

use bytes::Bytes;
use compio_driver::{AsRawFd, DriverType, ProactorBuilder, verif};
use compio_io::{AsyncRead, AsyncWrite, AsyncWriteExt};
use compio_net::UdpSocket;
use compio_quic::{
    ClientBuilder, ClientConfig, Connection, ConnectionError, Dir, Endpoint, EndpointConfig,
    IdleTimeout, ReadError, RecvStream, SendDatagramError, SendStream, ServerBuilder,
    ServerConfig, StreamId, TransportConfig, VarInt, WriteError,
};
use compio_runtime::{Runtime, RuntimeBuilder};
use vcommon::{Rng, Value, json};

use super::prog::*;

// ---------------------------------------------------------------------------
// panic log (panics inside tasks are swallowed by the executor; keep their
// locations so that a panic inside /repo becomes a violation)

#[derive(Clone, Debug)]
pub struct PanicRec {
    pub file: String,
    pub line: u32,
    pub msg: String,
}

static PANICS: Mutex<Vec<PanicRec>> = Mutex::new(Vec::new());

pub fn install_panic_log() {
    static ONCE: OnceLock<()> = OnceLock::new();
    ONCE.get_or_init(|| {
        vcommon::panics::install_hook();
        let prev = std::panic::take_hook();
        std::panic::set_hook(Box::new(move |info| {
            let (file, line) = info
                .location()
                .map(|l| (l.file().to_string(), l.line()))
                .unwrap_or_default();
            let msg = if let Some(s) = info.payload().downcast_ref::<&str>() {
                s.to_string()
            } else if let Some(s) = info.payload().downcast_ref::<String>() {
                s.clone()
            } else {
                "<non-string panic payload>".into()
            };
            PANICS
                .lock()
                .unwrap_or_else(|e| e.into_inner())
                .push(PanicRec { file, line, msg });
            prev(info)
        }));
    });
}

fn take_panics() -> Vec<PanicRec> {
    std::mem::take(&mut *PANICS.lock().unwrap_or_else(|e| e.into_inner()))
}

// ---------------------------------------------------------------------------
// outcome

#[derive(Debug, Default)]
pub struct Outcome {
    pub violations: Vec<(String, String)>,
    pub inconclusive: Vec<String>,
    pub notes: Vec<String>,
    /// kinds of futures pending at the close instant ("l:read", "p:accept_uni", ...)
    pub blocked: Vec<String>,
    pub close_done: bool,
    /// the close action actually performed (a `drop` may fall back to `Connection::close`)
    pub close_kind: u8,
    pub counters: HashMap<&'static str, i64>,
    pub floors: HashSet<&'static str>,
    pub detail: Value,
    /// what the readers' stops hit: "{x|d}{b|i|f|a}[c]" per stop leg (explicit stop / drop;
    /// writer blocked in a write call / idle / finished / active; c: a connection-level limit
    /// (send window, receive window) is configured for that direction), sorted and deduplicated
    pub stop_classes: Vec<String>,
}

// ---------------------------------------------------------------------------
// tracked operations

#[derive(Clone, Copy, Debug, PartialEq, Eq, Hash)]
pub enum Op {
    Idle,
    Sleep,
    Read,
    Write,
    Stopped,
    RecvReset,
    OpenUni,
    OpenBi,
    AcceptUni,
    AcceptBi,
    RecvDg,
    SendDgWait,
    Closed,
    WaitIncoming,
    Connecting,
    HandshakeData,
    Shutdown,
    Setup,
}

impl Op {
    pub fn name(self) -> &'static str {
        match self {
            Op::Idle => "idle",
            Op::Sleep => "sleep",
            Op::Read => "read",
            Op::Write => "write",
            Op::Stopped => "stopped",
            Op::RecvReset => "received_reset",
            Op::OpenUni => "open_uni_wait",
            Op::OpenBi => "open_bi_wait",
            Op::AcceptUni => "accept_uni",
            Op::AcceptBi => "accept_bi",
            Op::RecvDg => "recv_datagram",
            Op::SendDgWait => "send_datagram_wait",
            Op::Closed => "closed",
            Op::WaitIncoming => "wait_incoming",
            Op::Connecting => "connecting",
            Op::HandshakeData => "handshake_data",
            Op::Shutdown => "shutdown",
            Op::Setup => "setup",
        }
    }

    fn endpoint_level(self) -> bool {
        matches!(self, Op::WaitIncoming | Op::Connecting | Op::HandshakeData | Op::Shutdown)
    }
}

#[derive(Debug)]
struct Trk {
    what: String,
    side: usize,
    op: Op,
    pending: bool,
    epoch: u64,
    done: bool,
    last: String,
    ready_at: Option<Instant>,
    /// the current / last tracked operation returned Pending at least once
    was_pending: bool,
}

#[derive(Debug, Default)]
struct LegSt {
    data: Bytes,
    /// bytes accepted by write calls (by return values)
    w: u64,
    /// finish/drop/shutdown has been issued
    w_fin: bool,
    /// bytes read and verified
    r: u64,
    eof: bool,
    /// the writer or reader gave up (error / stall)
    w_end: bool,
    r_end: bool,
    r_started: bool,
    write_err: Option<String>,
    read_err: Option<String>,
    /// the reader abandoned the stream (`stop(code)` or drop with unread data)
    stop_issued: bool,
    stop_class: Option<String>,
    /// the writer pauses until the peer stops the stream
    w_idle: bool,
    /// the writer ran to its end (whatever the outcome)
    w_done: bool,
    w_tid: Option<usize>,
}

struct Inner {
    prog: Prog,
    ep: [Option<Endpoint>; 2],
    conn: [Option<Connection>; 2],
    addr: [Option<SocketAddr>; 2],
    probe_fds: Vec<i32>,
    blackhole: Option<std::net::UdpSocket>,
    legs: Vec<LegSt>,
    stream_flow: HashMap<(usize, bool, u64), usize>,
    accepted: HashSet<usize>,
    trk: Vec<Trk>,
    held: [Vec<Box<dyn Any>>; 2],
    viol: Vec<(String, String)>,
    incon: Vec<String>,
    notes: Vec<String>,
    closing: bool,
    dg_sent: [HashMap<Vec<u8>, (u32, u32)>; 2],
    counters: HashMap<&'static str, i64>,
    floors: HashSet<&'static str>,
    setup_done: bool,
    setup_err: Option<String>,
    closed_cancelled: [bool; 2],
    t0: Instant,
    t_stage1: Duration,
}

type W = Rc<RefCell<Inner>>;

thread_local! {
    static POLLS: Cell<u64> = const { Cell::new(0) };
}

fn bump() {
    POLLS.with(|p| p.set(p.get() + 1));
}
fn polls() -> u64 {
    POLLS.with(|p| p.get())
}

impl Inner {
    fn violation(&mut self, sig: String, what: String) {
        if !self.viol.iter().any(|(s, _)| *s == sig) {
            self.viol.push((sig, what));
        }
    }
    fn count(&mut self, k: &'static str, n: i64) {
        *self.counters.entry(k).or_insert(0) += n;
    }
    fn note(&mut self, s: String) {
        if self.notes.len() < 12 {
            self.notes.push(s);
        }
    }
    fn srw_of(&self, side: usize) -> u64 {
        eff(self.prog.tc[side].srw, DEFAULT_SRW)
    }
}

struct DoneGuard {
    w: W,
    tid: usize,
}
impl Drop for DoneGuard {
    fn drop(&mut self) {
        if let Ok(mut i) = self.w.try_borrow_mut() {
            let t = &mut i.trk[self.tid];
            t.done = true;
            t.pending = false;
        }
    }
}

/// Spawn a harness task with its own tracker.
fn task<F, Fut>(w: &W, side: usize, what: impl Into<String>, f: F) -> usize
where
    F: FnOnce(W, usize) -> Fut + 'static,
    Fut: Future<Output = ()> + 'static,
{
    let tid = {
        let mut i = w.borrow_mut();
        i.trk.push(Trk {
            what: what.into(),
            side,
            op: Op::Idle,
            pending: false,
            epoch: 0,
            done: false,
            last: String::new(),
            ready_at: None,
            was_pending: false,
        });
        i.trk.len() - 1
    };
    let w2 = w.clone();
    compio_runtime::spawn(async move {
        let _g = DoneGuard { w: w2.clone(), tid };
        f(w2, tid).await;
    })
    .detach();
    tid
}

/// Await `f` as operation `op` of task `tid`, maintaining the tracker.
async fn tr<F: Future>(w: &W, tid: usize, op: Op, f: F) -> F::Output {
    {
        let mut i = w.borrow_mut();
        let t = &mut i.trk[tid];
        t.op = op;
        t.pending = false;
        t.was_pending = false;
    }
    let mut f = pin!(f);
    std::future::poll_fn(|cx| {
        bump();
        let r = f.as_mut().poll(cx);
        let mut i = w.borrow_mut();
        let t = &mut i.trk[tid];
        match &r {
            Poll::Pending => {
                t.pending = true;
                t.was_pending = true;
            }
            Poll::Ready(_) => {
                t.pending = false;
                t.epoch += 1;
                t.op = Op::Idle;
                t.ready_at = Some(Instant::now());
            }
        }
        r
    })
    .await
}

fn set_last(w: &W, tid: usize, s: impl Into<String>) {
    w.borrow_mut().trk[tid].last = s.into();
}

async fn sleep_ms(w: &W, tid: usize, ms: u64) {
    tr(w, tid, Op::Sleep, compio_runtime::time::sleep(Duration::from_millis(ms))).await
}

async fn yield_now(w: &W, tid: usize) {
    let mut first = true;
    tr(
        w,
        tid,
        Op::Sleep,
        std::future::poll_fn(move |cx| {
            if first {
                first = false;
                cx.waker().wake_by_ref();
                Poll::Pending
            } else {
                Poll::Ready(())
            }
        }),
    )
    .await
}

// ---------------------------------------------------------------------------
// error classes

fn conn_err(e: &ConnectionError) -> &'static str {
    match e {
        ConnectionError::VersionMismatch => "VersionMismatch",
        ConnectionError::TransportError(_) => "TransportError",
        ConnectionError::ConnectionClosed(_) => "ConnectionClosed",
        ConnectionError::ApplicationClosed(_) => "ApplicationClosed",
        ConnectionError::Reset => "Reset",
        ConnectionError::TimedOut => "TimedOut",
        ConnectionError::LocallyClosed => "LocallyClosed",
        ConnectionError::CidsExhausted => "CidsExhausted",
    }
}

fn write_err(e: &WriteError) -> String {
    match e {
        WriteError::Stopped(_) => "Stopped".into(),
        WriteError::ConnectionLost(e) => format!("ConnectionLost:{}", conn_err(e)),
        WriteError::ClosedStream => "ClosedStream".into(),
        WriteError::ZeroRttRejected => "ZeroRttRejected".into(),
    }
}

/// The application code of a `WriteError::Stopped`, however it is wrapped.
fn stopped_code_io(e: &std::io::Error) -> Option<u64> {
    match e.get_ref()?.downcast_ref::<WriteError>()? {
        WriteError::Stopped(c) => Some(c.into_inner()),
        _ => None,
    }
}

fn stopped_code(e: &WriteError) -> Option<u64> {
    match e {
        WriteError::Stopped(c) => Some(c.into_inner()),
        _ => None,
    }
}

fn read_err(e: &ReadError) -> String {
    match e {
        ReadError::Reset(_) => "Reset".into(),
        ReadError::ConnectionLost(e) => format!("ConnectionLost:{}", conn_err(e)),
        ReadError::ClosedStream => "ClosedStream".into(),
        ReadError::IllegalOrderedRead => "IllegalOrderedRead".into(),
        ReadError::ZeroRttRejected => "ZeroRttRejected".into(),
    }
}

fn io_err(e: &std::io::Error) -> String {
    if let Some(inner) = e.get_ref() {
        if let Some(r) = inner.downcast_ref::<ReadError>() {
            return read_err(r);
        }
        if let Some(r) = inner.downcast_ref::<WriteError>() {
            return write_err(r);
        }
        if inner.downcast_ref::<compio_quic::ClosedStream>().is_some() {
            return "ClosedStream".into();
        }
    }
    format!("io:{:?}", e.kind())
}

/// An error seen by a harness task. Before the close action it is either a
/// violation (the connection was healthy, nothing may fail) or, for an idle
/// timeout of a close-mode program, evidence that the process was starved.
fn unexpected(w: &W, op: &str, class: &str, ctx: String) {
    let mut i = w.borrow_mut();
    if i.closing {
        return;
    }
    if class.contains("TimedOut") || i.incon.iter().any(|x| x == "idle-timeout-before-close") {
        // (after an idle timeout compio-quic's implicit close on handle drop rewrites the
        // stored reason to LocallyClosed: later errors of the same program belong to it)
        if !i.incon.iter().any(|x| x == "idle-timeout-before-close") {
            let unsettled: Vec<String> = i
                .trk
                .iter()
                .filter(|t| !(t.done || (t.pending && t.op != Op::Sleep)))
                .map(|t| format!("{}:{}:{}", t.what, t.op.name(), t.last))
                .collect();
            let msg = format!(
                "idle timeout before the close point in {op} at t={:?} (stage 1 began at {:?}); close.at={} unsettled tasks: {unsettled:?}",
                i.t0.elapsed(),
                i.t_stage1,
                i.prog.close.at
            );
            i.note(msg);
        }
        if !i.incon.iter().any(|x| x == "idle-timeout-before-close") {
            i.incon.push("idle-timeout-before-close".into());
        }
        return;
    }
    let drv = i.prog.driver_name();
    let reasons: Vec<String> = (0..2)
        .map(|s| match i.conn[s].as_ref().map(|c| c.close_reason()) {
            Some(Some(e)) => format!("side {s}: {e}"),
            Some(None) => format!("side {s}: open"),
            None => format!("side {s}: -"),
        })
        .collect();
    if reasons.iter().any(|r| r.contains("too many gaps in stream buffer")) {
        // quinn-proto's own bound on buffered out-of-order chunks (MAX_CHUNKS): protocol
        // logic below the glue under test
        if !i.incon.iter().any(|x| x == "quinn-proto-limit:too-many-gaps") {
            i.incon.push("quinn-proto-limit:too-many-gaps".into());
        }
        return;
    }
    i.violation(
        format!("C16/unexpected-error/{op}/{class}/{drv}"),
        format!("{op} failed with {class} on a connection nobody closed: {ctx}; close reasons: {reasons:?}"),
    );
}

// ---------------------------------------------------------------------------
// payload patterns

fn leg_nonce(p: &Prog, flow: usize, leg: usize) -> u64 {
    let mut x = p.nonce ^ ((flow as u64 + 1) << 20) ^ ((leg as u64 + 1) << 8);
    x = x.wrapping_mul(0x9E37_79B9_7F4A_7C15);
    x ^ (x >> 29)
}

fn pattern(nonce: u64, len: usize) -> Bytes {
    let mut v = Vec::with_capacity(len + 8);
    v.extend_from_slice(&nonce.to_le_bytes());
    let mut x = nonce | 1;
    while v.len() < len {
        x ^= x << 13;
        x ^= x >> 7;
        x ^= x << 17;
        v.extend_from_slice(&x.to_le_bytes());
    }
    v.truncate(len);
    Bytes::from(v)
}

// ---------------------------------------------------------------------------
// TLS / transport configuration

struct Tls {
    cert: rustls::pki_types::CertificateDer<'static>,
    key: Vec<u8>,
}

fn tls() -> &'static Tls {
    static T: OnceLock<Tls> = OnceLock::new();
    T.get_or_init(|| {
        let rcgen::CertifiedKey { cert, signing_key } =
            rcgen::generate_simple_self_signed(vec!["localhost".into()]).unwrap();
        Tls { cert: cert.der().clone(), key: signing_key.serialize_der() }
    })
}

fn transport(tc: &Tc) -> Arc<TransportConfig> {
    let mut t = TransportConfig::default();
    let vi = |x: u64| VarInt::from_u64(x).unwrap();
    if tc.srw > 0 {
        t.stream_receive_window(vi(tc.srw));
    }
    if tc.rw > 0 {
        t.receive_window(vi(tc.rw));
    }
    if tc.sw > 0 {
        t.send_window(tc.sw);
    }
    t.max_concurrent_uni_streams(vi(tc.max_uni as u64));
    t.max_concurrent_bidi_streams(vi(tc.max_bi as u64));
    match tc.dg_recv {
        -1 => {
            t.datagram_receive_buffer_size(None);
        }
        0 => {}
        n => {
            t.datagram_receive_buffer_size(Some(n as usize));
        }
    }
    if tc.dg_send > 0 {
        t.datagram_send_buffer_size(tc.dg_send as usize);
    }
    t.enable_segmentation_offload(tc.gso);
    t.max_idle_timeout(if tc.idle_ms == 0 {
        None
    } else {
        Some(IdleTimeout::try_from(Duration::from_millis(tc.idle_ms)).unwrap())
    });
    t.initial_rtt(Duration::from_millis(8));
    Arc::new(t)
}

fn configs(p: &Prog) -> (ClientConfig, ServerConfig) {
    let t = tls();
    let key = rustls::pki_types::PrivateKeyDer::try_from(t.key.clone()).unwrap();
    let mut server = ServerBuilder::new_with_single_cert(vec![t.cert.clone()], key)
        .unwrap()
        .build();
    server.transport_config(transport(&p.tc[SERVER]));
    let mut client = ClientBuilder::new_with_no_server_verification().build();
    client.transport_config(transport(&p.tc[CLIENT]));
    (client, server)
}

// ---------------------------------------------------------------------------
// the event-loop driver

struct Act {
    ops: HashMap<u64, (u64, i64)>,
    by_addr: HashMap<u64, u64>,
}

impl Act {
    fn new() -> Self {
        Act { ops: HashMap::new(), by_addr: HashMap::new() }
    }

    /// Absorb the driver's event log; true if anything happened.
    fn absorb(&mut self) -> bool {
        let evs = verif::drain();
        let mut act = false;
        for e in evs {
            use verif::Kind::*;
            match e.kind {
                OpNew => {
                    self.ops.insert(e.a, (e.b, e.c));
                    self.by_addr.insert(e.b, e.a);
                    act = true;
                }
                Final => {
                    if let Some(id) = self.by_addr.remove(&e.a) {
                        self.ops.remove(&id);
                    }
                    act = true;
                }
                Taken | OpFree => {
                    if let Some((addr, _)) = self.ops.remove(&e.a) {
                        if self.by_addr.get(&addr) == Some(&e.a) {
                            self.by_addr.remove(&addr);
                        }
                    }
                }
                Submit | Cqe | MultiItem | Requeue | CancelReq | CancelSqe => act = true,
                _ => {}
            }
        }
        act
    }

    /// Operations in flight that are not parked receives.
    fn busy_ops(&self) -> Vec<String> {
        let names = verif::type_names();
        self.ops
            .values()
            .filter_map(|(_, ty)| {
                let n = names.get(*ty as usize).copied().unwrap_or("?");
                if n.contains("Recv") || n.contains("recv") { None } else { Some(n.to_string()) }
            })
            .collect()
    }
}

fn queued(fds: &[i32]) -> bool {
    fds.iter().any(|&fd| {
        let mut n: libc::c_int = 0;
        let r = unsafe { libc::ioctl(fd, libc::FIONREAD, &mut n) };
        r == 0 && n > 0
    })
}

#[derive(Debug, PartialEq, Eq, Clone, Copy)]
enum Stop {
    Cond,
    Quiescent,
    Watchdog,
}

struct Driver {
    rt: Runtime,
    act: Act,
    ticks: u64,
    deadline: Instant,
    t0: Instant,
    trace: u32,
}

const QUIET_WAITS_MS: [u64; 6] = [0, 0, 1, 5, 20, 50];

impl Driver {
    /// Run the runtime until `cond` holds (checked after every executor
    /// tick; then `extra` more ticks), or the runtime is logically quiescent,
    /// or the watchdog fires.
    fn drive(&mut self, w: &W, cond: &dyn Fn(&Inner, bool) -> bool, mut extra: u32) -> Stop {
        let mut quiet = 0usize;
        let mut met = false;
        loop {
            let p0 = polls();
            let hot = self.rt.run();
            self.ticks += 1;
            let mut active = self.act.absorb() || hot || polls() != p0;
            if !met && cond(&w.borrow(), hot) {
                met = true;
            }
            if met {
                if extra == 0 {
                    return Stop::Cond;
                }
                extra -= 1;
            }
            if Instant::now() > self.deadline {
                return Stop::Watchdog;
            }
            if hot || met {
                // (the extra ticks after the condition are executor ticks, not waits)
                self.rt.poll_with(Some(Duration::ZERO));
                self.act.absorb();
                continue;
            }
            let timeout = self.rt.current_timeout();
            if self.trace > 0 {
                self.trace -= 1;
                let i = w.borrow();
                let st: Vec<String> = i
                    .trk
                    .iter()
                    .filter(|t| !t.done && !(t.pending && t.op != Op::Sleep))
                    .map(|t| format!("{}:{}:{}", t.what, t.op.name(), t.pending))
                    .collect();
                eprintln!("loop t={:?} tick={} timeout={timeout:?} quiet={quiet} unsettled={st:?}", self.t0.elapsed(), self.ticks);
            }
            match timeout {
                Some(t) => {
                    active = true;
                    self.rt.poll_with(Some(t.min(Duration::from_millis(100))));
                }
                None => {
                    let wait = QUIET_WAITS_MS[quiet.min(QUIET_WAITS_MS.len() - 1)];
                    self.rt.poll_with(Some(Duration::from_millis(wait)));
                }
            }
            if self.act.absorb() {
                active = true;
            }
            if active {
                quiet = 0;
                continue;
            }
            quiet += 1;
            if quiet >= QUIET_WAITS_MS.len() {
                let fds = w.borrow().probe_fds.clone();
                if self.act.busy_ops().is_empty() && !queued(&fds) {
                    return Stop::Quiescent;
                }
                if quiet > 200 {
                    // something is in flight but never completes: not ours to judge
                    return Stop::Watchdog;
                }
            }
        }
    }
}

// ---------------------------------------------------------------------------
// setup

async fn bind_endpoint(w: &W, side: usize, server: Option<ServerConfig>) -> Result<(), String> {
    let sock = UdpSocket::bind("127.0.0.1:0".parse::<SocketAddr>().unwrap())
        .await
        .map_err(|e| format!("bind: {e}"))?;
    let fd = unsafe { libc::dup(sock.as_raw_fd()) };
    if w.borrow().prog.nonce % 4 != 0 {
        // most programs: room for a whole burst, so that loss (and with it the wall time spent
        // in quinn-proto's loss recovery) stays the exception; every fourth keeps the default
        let sz: libc::c_int = 8 << 20;
        unsafe {
            libc::setsockopt(
                sock.as_raw_fd(),
                libc::SOL_SOCKET,
                libc::SO_RCVBUFFORCE,
                &sz as *const _ as *const libc::c_void,
                std::mem::size_of::<libc::c_int>() as libc::socklen_t,
            );
        }
    }
    let addr = sock.local_addr().map_err(|e| format!("local_addr: {e}"))?;
    let ep = Endpoint::new(sock, EndpointConfig::default(), server, None)
        .map_err(|e| format!("Endpoint::new: {e}"))?;
    let mut i = w.borrow_mut();
    if fd >= 0 {
        i.probe_fds.push(fd);
    }
    i.addr[side] = Some(addr);
    i.ep[side] = Some(ep);
    Ok(())
}

async fn setup(w: W, tid: usize) {
    let (ccfg, scfg) = configs(&w.borrow().prog);
    let r: Result<(), String> = async {
        bind_endpoint(&w, SERVER, Some(scfg)).await?;
        bind_endpoint(&w, CLIENT, None).await?;
        let (cep, sep, saddr) = {
            let i = w.borrow();
            (i.ep[CLIENT].clone().unwrap(), i.ep[SERVER].clone().unwrap(), i.addr[SERVER].unwrap())
        };
        let connecting = cep
            .connect(saddr, "localhost", Some(ccfg))
            .map_err(|e| format!("connect: {e}"))?;
        let (c, s) = futures_util::join!(tr(&w, tid, Op::Setup, connecting), async {
            match sep.wait_incoming().await {
                Some(inc) => inc.await.map_err(|e| format!("accept: {e}")),
                None => Err("wait_incoming: None".to_string()),
            }
        });
        let c = c.map_err(|e| format!("connecting: {e}"))?;
        let s = s?;
        let mut i = w.borrow_mut();
        i.conn[CLIENT] = Some(c);
        i.conn[SERVER] = Some(s);
        Ok(())
    }
    .await;
    let mut i = w.borrow_mut();
    i.setup_err = r.err();
    i.setup_done = true;
}

// ---------------------------------------------------------------------------
// stream flows

fn stream_key(id: StreamId) -> (usize, bool, u64) {
    let opener = if id.initiator().is_client() { CLIENT } else { SERVER };
    (opener, id.dir() == Dir::Bi, id.index())
}

fn leg_index(flow: usize, leg: usize) -> usize {
    flow * 2 + leg
}

/// Flow control as seen from byte counters: what the writer got accepted can
/// never exceed what the reader consumed plus the receiver's stream window.
fn check_window(w: &W, li: usize, recv_side: usize, at: &str) {
    let mut i = w.borrow_mut();
    // `read_to_end` consumes without reporting progress: no counter to compare with
    let uncounted = |i: &Inner, li: usize| i.prog.flows[li / 2].legs[li % 2].rapi == 4;
    if uncounted(&i, li) {
        return;
    }
    let srw = i.srw_of(recv_side);
    let (wr, rd) = (i.legs[li].w, i.legs[li].r);
    if wr > rd + srw {
        let drv = i.prog.driver_name();
        let cls = win_class(srw, DEFAULT_SRW);
        i.violation(
            format!("C16/flow-control/stream-window-exceeded/{cls}/{drv}"),
            format!("leg {li}: {wr} bytes accepted by write calls, reader consumed {rd}, stream_receive_window {srw} ({at})"),
        );
    }
    if wr == rd + srw && srw < DEFAULT_SRW {
        i.floors.insert("saw-stream-window-exactly-full");
    }
    // connection level (transfer mode only, and only towards a side whose readers abandon no
    // stream: quinn-proto 0.11.17 credits the unread bytes of a stopped stream at the stop
    // and once more when the RESET_STREAM arrives (`StreamsState::received_reset` adds
    // `final_offset - bytes_read` for a stopped stream too), so the connection window
    // legitimately over-opens there; arithmetic below the glue under test)
    let abandons = i.prog.flows.iter().any(|f| {
        (0..(if f.bi { 2 } else { 1 })).any(|l| f.legs[l].rstop >= 0 && (if l == 0 { 1 - f.opener } else { f.opener }) == recv_side)
    });
    if i.prog.mode == 0 && !abandons {
        let rw = eff(i.prog.tc[recv_side].rw, u64::MAX);
        if rw != u64::MAX {
            let mut out = 0u64;
            for (fi, f) in i.prog.flows.iter().enumerate() {
                for l in 0..(if f.bi { 2 } else { 1 }) {
                    let to = if l == 0 { 1 - f.opener } else { f.opener };
                    if to == recv_side && f.legs[l].rapi != 4 {
                        let ls = &i.legs[leg_index(fi, l)];
                        out += ls.w - ls.r.min(ls.w);
                    }
                }
            }
            if out > rw {
                let drv = i.prog.driver_name();
                let cls = win_class(rw, DEFAULT_RW);
                i.violation(
                    format!("C16/flow-control/connection-window-exceeded/{cls}/{drv}"),
                    format!("side {recv_side}: {out} bytes accepted by writers but not yet consumed, receive_window {rw} ({at})"),
                );
            }
        }
    }
}

async fn writer(w: W, tid: usize, flow: usize, leg: usize, send: SendStream) {
    let li = leg_index(flow, leg);
    w.borrow_mut().legs[li].w_tid = Some(tid);
    writer_inner(&w, tid, flow, leg, send).await;
    let mut i = w.borrow_mut();
    i.legs[li].w_done = true;
    i.legs[li].w_idle = false;
}

/// A stop leg's writer met `Stopped` (in a write call or in `stopped()`): the peer must have
/// abandoned the stream by then, and the code is the peer's.
fn check_stop_code(w: &W, flow: usize, leg: usize, spec: &Leg, code: Option<u64>, api: &str) {
    let mut i = w.borrow_mut();
    let li = leg_index(flow, leg);
    let drv = i.prog.driver_name();
    if !i.legs[li].stop_issued {
        i.violation(
            format!("C16/stop/stopped-before-peer-stop/{api}/{drv}"),
            format!("flow {flow} leg {leg}: {api} reported the stream as stopped by the peer (code {code:?}) although the reader has neither stopped nor dropped it"),
        );
        return;
    }
    let want = spec.stop_code();
    if code != Some(want) {
        let how = if spec.rstop_drop { "drop" } else { "stop" };
        i.violation(
            format!("C16/stop/wrong-code/{api}/{how}/{drv}"),
            format!("flow {flow} leg {leg}: {api} reported stop code {code:?}, the reader's was {want} ({how})"),
        );
    }
}

fn stop_api_name(wapi: u8) -> &'static str {
    ["write", "write_all", "write_chunks", "write_all_chunks"][wapi.min(3) as usize]
}

async fn writer_inner(w: &W, tid: usize, flow: usize, leg: usize, mut send: SendStream) {
    let w = w.clone();
    let li = leg_index(flow, leg);
    let (spec, side, data) = {
        let i = w.borrow();
        let f = &i.prog.flows[flow];
        let side = if leg == 0 { f.opener } else { 1 - f.opener };
        (f.legs[leg].normalized(leg), side, i.legs[li].data.clone())
    };
    let stop_leg = spec.rstop >= 0;
    let recv_side = 1 - side;
    let mut rng = Rng::new(leg_nonce(&w.borrow().prog, flow, leg) ^ 0x77);
    let len = spec.len;
    let mut stop_at = if spec.wstall >= 0 { (spec.wstall as u64).min(len) } else { len };
    let mut off = 0u64;
    // (stop legs) `Stopped` was seen: its code
    let mut stopped_seen: Option<Option<u64>> = None;
    let mut stopped_awaited = false;
    let mut calls = 0u64;
    // a bounded number of sleeps per leg (they cost wall time, not coverage)
    let w_every = (len / spec.wchunk.max(1) / 24).max(16);
    let mut failed = false;
    'phases: loop {
    while off < stop_at {
        let mut n = if spec.wvar { rng.range(1, spec.wchunk as usize) as u64 } else { spec.wchunk };
        n = n.min(stop_at - off);
        let slice = data.slice(off as usize..(off + n) as usize);
        set_last(&w, tid, format!("write off={off} n={n}"));
        let res: Result<u64, String> = match spec.wapi {
            0 => {
                let compio_buf::BufResult(r, _) = tr(&w, tid, Op::Write, send.write(slice)).await;
                match r {
                    Ok(k) => {
                        if k as u64 > n || (k == 0 && n > 0) {
                            let mut i = w.borrow_mut();
                            let drv = i.prog.driver_name();
                            i.violation(
                                format!("C16/write-return/write/{drv}"),
                                format!("write of {n} bytes returned {k}"),
                            );
                        }
                        Ok(k as u64)
                    }
                    Err(e) => {
                        if let Some(c) = stopped_code_io(&e) {
                            stopped_seen = Some(Some(c));
                        }
                        Err(io_err(&e))
                    }
                }
            }
            1 => {
                let compio_buf::BufResult(r, _) = tr(&w, tid, Op::Write, send.write_all(slice)).await;
                r.map(|_| n).map_err(|e| {
                    if let Some(c) = stopped_code_io(&e) {
                        stopped_seen = Some(Some(c));
                    }
                    io_err(&e)
                })
            }
            _ => {
                // split into up to 4 chunks
                let k = rng.range(1, 4).min(n as usize).max(1);
                let mut bufs: Vec<Bytes> = Vec::new();
                let mut at = 0usize;
                for c in 0..k {
                    let end = if c == k - 1 { n as usize } else { at + (n as usize - at) / (k - c) };
                    bufs.push(slice.slice(at..end));
                    at = end;
                }
                if spec.wapi == 2 {
                    let lens: Vec<usize> = bufs.iter().map(|b| b.len()).collect();
                    match tr(&w, tid, Op::Write, send.write_chunks(&mut bufs)).await {
                        Ok(wr) => {
                            // the return value must be consistent with the chunk list
                            let full: usize = lens.iter().take(wr.chunks).sum();
                            let ok = wr.chunks <= lens.len()
                                && wr.bytes >= full
                                && wr.bytes <= n as usize
                                && (wr.chunks == lens.len() || wr.bytes < full + lens[wr.chunks])
                                && (wr.bytes > 0 || n == 0);
                            if !ok {
                                let mut i = w.borrow_mut();
                                let drv = i.prog.driver_name();
                                i.violation(
                                    format!("C16/write-return/write_chunks/{drv}"),
                                    format!("write_chunks of chunks {lens:?} returned bytes={} chunks={}", wr.bytes, wr.chunks),
                                );
                            }
                            Ok(wr.bytes as u64)
                        }
                        Err(e) => {
                            if let Some(c) = stopped_code(&e) {
                                stopped_seen = Some(Some(c));
                            }
                            Err(write_err(&e))
                        }
                    }
                } else {
                    tr(&w, tid, Op::Write, send.write_all_chunks(&mut bufs)).await.map(|_| n).map_err(|e| {
                        if let Some(c) = stopped_code(&e) {
                            stopped_seen = Some(Some(c));
                        }
                        write_err(&e)
                    })
                }
            }
        };
        match res {
            Ok(k) => {
                off += k;
                w.borrow_mut().legs[li].w = off;
                check_window(&w, li, recv_side, "after write");
            }
            Err(class) if stop_leg && class == "Stopped" => {
                let api = stop_api_name(spec.wapi);
                check_stop_code(&w, flow, leg, &spec, stopped_seen.flatten(), api);
                let mut i = w.borrow_mut();
                if i.trk[tid].was_pending {
                    i.floors.insert("saw-stop-completes-pending-write");
                    i.count("stop-completed-a-pending-write", 1);
                } else {
                    i.floors.insert("saw-stop-fails-next-write");
                    i.count("stop-failed-the-next-write", 1);
                }
                i.legs[li].write_err = Some(class);
                break 'phases;
            }
            Err(class) => {
                unexpected(&w, "write", &class, format!("flow {flow} leg {leg} at offset {off}"));
                w.borrow_mut().legs[li].write_err = Some(class);
                failed = true;
                break 'phases;
            }
        }
        calls += 1;
        match spec.wpace {
            1 => yield_now(&w, tid).await,
            2 if calls % w_every == 0 => sleep_ms(&w, tid, 1).await,
            _ => {}
        }
    }
    if !(stop_leg && spec.wstall >= 0 && stop_at < len) {
        break;
    }
    // (stop legs) idle writer: pause until the peer abandoned the stream, then write on
    w.borrow_mut().legs[li].w_idle = true;
    if spec.wstopped {
        set_last(&w, tid, "stopped() on an unfinished stream");
        let r = tr(&w, tid, Op::Stopped, send.stopped()).await;
        set_last(&w, tid, format!("stopped -> {r:?}"));
        stopped_awaited = true;
        match r {
            Ok(Some(code)) => {
                check_stop_code(&w, flow, leg, &spec, Some(code.into_inner()), "stopped");
                w.borrow_mut().floors.insert("saw-stopped()-resolves-with-code");
            }
            Ok(None) => {
                let mut i = w.borrow_mut();
                let drv = i.prog.driver_name();
                i.violation(
                    format!("C16/stop/stopped-none-on-unfinished-stream/{drv}"),
                    format!("flow {flow} leg {leg}: stopped() yielded None on a stream that was neither finished nor reset"),
                );
            }
            Err(e) => {
                let class = match &e {
                    compio_quic::StoppedError::ConnectionLost(e) => format!("ConnectionLost:{}", conn_err(e)),
                    compio_quic::StoppedError::ZeroRttRejected => "ZeroRttRejected".into(),
                };
                unexpected(&w, "stopped", &class, format!("flow {flow} leg {leg}"));
                w.borrow_mut().legs[li].write_err = Some(class);
                failed = true;
                break;
            }
        }
    } else {
        set_last(&w, tid, "idle until the peer stops");
        loop {
            {
                let i = w.borrow();
                if i.legs[li].stop_issued || i.legs[li].read_err.is_some() || i.closing {
                    break;
                }
            }
            sleep_ms(&w, tid, 1).await;
        }
        if rng.chance(1, 2) {
            sleep_ms(&w, tid, rng.range(1, 4) as u64).await;
        }
    }
    w.borrow_mut().legs[li].w_idle = false;
    stop_at = len;
    }
    if failed {
        w.borrow_mut().legs[li].w_end = true;
        return;
    }
    if stop_leg && stopped_seen.is_some() {
        // the peer abandoned the stream and the writer knows: `stopped()` is immediate,
        // finish / shutdown / reset / drop release the stream
        if spec.wstopped && !stopped_awaited {
            set_last(&w, tid, "stopped() after WriteError::Stopped");
            match tr(&w, tid, Op::Stopped, send.stopped()).await {
                Ok(Some(code)) => {
                    check_stop_code(&w, flow, leg, &spec, Some(code.into_inner()), "stopped");
                    w.borrow_mut().floors.insert("saw-stopped()-resolves-with-code");
                }
                Ok(None) => {
                    // (the stream may be gone by now: the implicit bookkeeping after a reset)
                }
                Err(e) => {
                    let class = match &e {
                        compio_quic::StoppedError::ConnectionLost(e) => format!("ConnectionLost:{}", conn_err(e)),
                        compio_quic::StoppedError::ZeroRttRejected => "ZeroRttRejected".into(),
                    };
                    unexpected(&w, "stopped", &class, format!("flow {flow} leg {leg}"));
                }
            }
        }
        set_last(&w, tid, "release after Stopped");
        match spec.fin {
            0 => {
                // documented: Ok (harmless) or ClosedStream
                let _ = send.finish();
            }
            2 => {
                let _ = tr(&w, tid, Op::Write, send.shutdown()).await;
            }
            _ => {}
        }
        if rng.chance(1, 3) {
            let _ = send.reset(VarInt::from_u64(spec.stop_code()).unwrap());
        }
        // (dropping a stopped stream resets it: only then the peer can retire it)
        drop(send);
        w.borrow_mut().legs[li].w_end = true;
        return;
    }
    if spec.wstall >= 0 && !stop_leg {
        // stalled writer: keep the stream open, never finish
        w.borrow_mut().legs[li].w_end = true;
        if spec.wstopped {
            set_last(&w, tid, "stopped() on a stalled stream");
            let r = tr(&w, tid, Op::Stopped, send.stopped()).await;
            set_last(&w, tid, format!("stopped -> {r:?}"));
        }
        w.borrow_mut().held[side].push(Box::new(send));
        return;
    }
    // finish: from here on the reader may legitimately see end-of-stream
    w.borrow_mut().legs[li].w_fin = true;
    set_last(&w, tid, "finish");
    match spec.fin {
        1 => {
            drop(send);
            w.borrow_mut().legs[li].w_end = true;
            return;
        }
        2 => {
            if let Err(e) = send.shutdown().await {
                unexpected(&w, "shutdown", &io_err(&e), format!("flow {flow} leg {leg}"));
            }
        }
        _ => {
            if send.finish().is_err() {
                let closing = w.borrow().closing;
                if !closing {
                    let mut i = w.borrow_mut();
                    let drv = i.prog.driver_name();
                    i.violation(
                        format!("C16/unexpected-error/finish/ClosedStream/{drv}"),
                        format!("finish() of a never finished stream failed (flow {flow} leg {leg})"),
                    );
                }
            }
        }
    }
    w.borrow_mut().legs[li].w_end = true;
    if stop_leg {
        // Was the peer's stop already known when the stream was finished? Then finish() /
        // shutdown() answered Ok without finishing anything (documented as harmless: the
        // stream stays open until it is reset or dropped).
        let known = {
            let mut f = pin!(send.stopped());
            std::future::poll_fn(|cx| {
                Poll::Ready(match f.as_mut().poll(cx) {
                    Poll::Ready(Ok(Some(c))) => Some(c.into_inner()),
                    _ => None,
                })
            })
            .await
        };
        if let Some(code) = known {
            check_stop_code(&w, flow, leg, &spec, Some(code), "stopped");
            let mut i = w.borrow_mut();
            i.floors.insert("saw-stop-known-at-finish");
            i.count("stop-known-at-finish", 1);
        }
    }
    if spec.wstopped {
        let r = tr(&w, tid, Op::Stopped, send.stopped()).await;
        match r {
            Ok(None) => {}
            Ok(Some(code)) => {
                set_last(&w, tid, format!("stopped -> Some({code})"));
                if stop_leg {
                    // the stop overtook the acknowledgement of the finished stream
                    check_stop_code(&w, flow, leg, &spec, Some(code.into_inner()), "stopped");
                    w.borrow_mut().floors.insert("saw-stopped()-resolves-with-code");
                } else {
                    let mut i = w.borrow_mut();
                    let drv = i.prog.driver_name();
                    i.violation(
                        format!("C16/stop/stopped-before-peer-stop/stopped/{drv}"),
                        format!("flow {flow} leg {leg}: stopped() yielded code {code} on a stream whose reader never stops"),
                    );
                }
            }
            Err(e) => {
                let class = match &e {
                    compio_quic::StoppedError::ConnectionLost(e) => format!("ConnectionLost:{}", conn_err(e)),
                    compio_quic::StoppedError::ZeroRttRejected => "ZeroRttRejected".into(),
                };
                unexpected(&w, "stopped", &class, format!("flow {flow} leg {leg}"));
            }
        }
    }
    if stop_leg {
        // A finish() that came after the peer's stop finished nothing; only the drop (which
        // resets a stopped stream) lets both sides retire it. Holding the handle would keep
        // the stream's slot occupied for ever: the application's doing, not the library's.
        drop(send);
        return;
    }
    // keep the stream alive until the end so that dropping it cannot mask anything
    w.borrow_mut().held[side].push(Box::new(send));
}

fn mismatch(w: &W, flow: usize, leg: usize, off: u64, got: &[u8]) {
    let mut i = w.borrow_mut();
    let li = leg_index(flow, leg);
    let data = i.legs[li].data.clone();
    let drv = i.prog.driver_name();
    let end = (off as usize + got.len()).min(data.len());
    let first_bad = got
        .iter()
        .zip(data[off as usize..end].iter())
        .position(|(a, b)| a != b)
        .unwrap_or(end - off as usize);
    // diagnose: bytes of another stream? bytes of this stream from elsewhere?
    let mut kind = "corrupt";
    let probe = &got[first_bad..got.len().min(first_bad + 16)];
    if probe.len() >= 8 {
        for (oli, l) in i.legs.iter().enumerate() {
            if oli != li && l.data.len() >= probe.len() && l.data.windows(probe.len()).take(1 << 16).any(|x| x == probe) {
                kind = "bytes-of-another-stream";
            }
        }
        if kind == "corrupt" && data.windows(probe.len()).any(|x| x == probe) {
            kind = "misordered-or-duplicated";
        }
    }
    if off as usize + got.len() > data.len() {
        kind = "more-than-written";
    }
    i.violation(
        format!("C16/stream-data/{kind}/{drv}"),
        format!(
            "flow {flow} leg {leg}: read at offset {off} ({} bytes) differs from what was written at +{first_bad}",
            got.len()
        ),
    );
}

/// Verify `got` as the bytes at `off`; false on mismatch.
fn verify(w: &W, flow: usize, leg: usize, off: u64, got: &[u8]) -> bool {
    let li = leg_index(flow, leg);
    let ok = {
        let i = w.borrow();
        let d = &i.legs[li].data;
        let end = off as usize + got.len();
        end <= d.len() && &d[off as usize..end] == got && end as u64 <= i.legs[li].w.max(end as u64)
    };
    if !ok {
        mismatch(w, flow, leg, off, got);
    }
    ok
}

async fn reader(w: W, tid: usize, flow: usize, leg: usize, mut recv: RecvStream) {
    let li = leg_index(flow, leg);
    let (spec, side) = {
        let mut i = w.borrow_mut();
        i.legs[li].r_started = true;
        let f = &i.prog.flows[flow];
        (f.legs[leg].normalized(leg), if leg == 0 { 1 - f.opener } else { f.opener })
    };
    let mut rng = Rng::new(leg_nonce(&w.borrow().prog, flow, leg) ^ 0x5151);
    let stall = if spec.rstop >= 0 {
        Some(spec.rstop as u64)
    } else if spec.rstall >= 0 {
        Some(spec.rstall as u64)
    } else {
        None
    };
    if spec.rpace == 3 {
        sleep_ms(&w, tid, rng.range(5, 40) as u64).await;
        check_window(&w, li, side, "after the reader's initial sleep");
    }
    let mut r = 0u64;
    let mut reads = 0u64;
    let per_read = spec.rbuf.min(w.borrow().srw_of(side)).max(1);
    let r_every = (spec.len / per_read / 24).max(8);
    let mut ranges: Vec<(u64, u64)> = Vec::new(); // unordered reads
    let mut eof = false;
    let mut err: Option<String> = None;
    loop {
        if let Some(s) = stall {
            if r >= s {
                break;
            }
        }
        let want = match stall {
            Some(s) => (spec.rbuf).min(s - r).max(1),
            None => spec.rbuf,
        } as usize;
        set_last(&w, tid, format!("read r={r} want={want}"));
        match spec.rapi {
            0 => {
                let compio_buf::BufResult(res, buf) =
                    tr(&w, tid, Op::Read, recv.read(Vec::with_capacity(want))).await;
                match res {
                    Ok(0) => eof = true,
                    Ok(n) => {
                        if n > buf.capacity() || buf.len() != n || !verify(&w, flow, leg, r, &buf[..n.min(buf.len())]) {
                            if n > buf.capacity() || buf.len() != n {
                                let mut i = w.borrow_mut();
                                let drv = i.prog.driver_name();
                                i.violation(
                                    format!("C16/read-return/read/{drv}"),
                                    format!("read into capacity {want} returned {n}, buffer length {}", buf.len()),
                                );
                            }
                            err = Some("mismatch".into());
                        }
                        r += n as u64;
                    }
                    Err(e) => err = Some(io_err(&e)),
                }
            }
            1 | 2 => {
                let ordered = spec.rapi == 1;
                match tr(&w, tid, Op::Read, recv.read_chunk(want, ordered)).await {
                    Ok(None) => eof = true,
                    Ok(Some(c)) => {
                        let n = c.bytes.len() as u64;
                        if ordered && c.offset != r || n as usize > want || n == 0 {
                            let mut i = w.borrow_mut();
                            let drv = i.prog.driver_name();
                            i.violation(
                                format!("C16/read-return/read_chunk/{drv}"),
                                format!("read_chunk(max {want}, ordered {ordered}) at position {r} returned offset {} length {n}", c.offset),
                            );
                            err = Some("mismatch".into());
                        } else if !verify(&w, flow, leg, c.offset, &c.bytes) {
                            err = Some("mismatch".into());
                        } else if !ordered {
                            if ranges.iter().any(|&(a, b)| c.offset < b && a < c.offset + n) {
                                let mut i = w.borrow_mut();
                                let drv = i.prog.driver_name();
                                i.violation(
                                    format!("C16/stream-data/unordered-overlap/{drv}"),
                                    format!("unordered read_chunk delivered [{}, {}) twice (flow {flow} leg {leg})", c.offset, c.offset + n),
                                );
                                err = Some("mismatch".into());
                            }
                            ranges.push((c.offset, c.offset + n));
                        }
                        r += n;
                    }
                    Err(e) => err = Some(read_err(&e)),
                }
            }
            3 => {
                let nb = rng.range(1, 8);
                let mut bufs: Vec<Bytes> = vec![Bytes::new(); nb];
                match tr(&w, tid, Op::Read, recv.read_chunks(&mut bufs)).await {
                    Ok(None) => eof = true,
                    Ok(Some(k)) => {
                        if k == 0 || k > nb {
                            let mut i = w.borrow_mut();
                            let drv = i.prog.driver_name();
                            i.violation(
                                format!("C16/read-return/read_chunks/{drv}"),
                                format!("read_chunks into {nb} slots returned {k}"),
                            );
                            err = Some("mismatch".into());
                        } else {
                            for b in &bufs[..k] {
                                if !verify(&w, flow, leg, r, b) {
                                    err = Some("mismatch".into());
                                    break;
                                }
                                r += b.len() as u64;
                            }
                        }
                    }
                    Err(e) => err = Some(read_err(&e)),
                }
            }
            _ => {
                let compio_buf::BufResult(res, buf) =
                    tr(&w, tid, Op::Read, recv.read_to_end(Vec::new())).await;
                match res {
                    Ok(n) => {
                        if n != buf.len() || !verify(&w, flow, leg, 0, &buf) {
                            err = Some("mismatch".into());
                        }
                        r = buf.len() as u64;
                        eof = true;
                    }
                    Err(e) => err = Some(io_err(&e)),
                }
            }
        }
        w.borrow_mut().legs[li].r = r;
        if eof || err.is_some() {
            break;
        }
        reads += 1;
        // reader pacing: the writer may use the window while we are away, not more
        match spec.rpace {
            1 => yield_now(&w, tid).await,
            2 if reads % r_every == 0 => {
                sleep_ms(&w, tid, rng.range(1, 3) as u64).await;
                check_window(&w, li, side, "after a reader sleep");
            }
            4 if reads % (r_every * 4) == 0 => {
                sleep_ms(&w, tid, rng.range(5, 25) as u64).await;
                check_window(&w, li, side, "after a reader sleep");
            }
            _ => {}
        }
    }
    if let Some(class) = err {
        if class != "mismatch" {
            unexpected(&w, "read", &class, format!("flow {flow} leg {leg} at offset {r}"));
        }
        let mut i = w.borrow_mut();
        i.legs[li].read_err = Some(class);
        i.legs[li].r_end = true;
        return;
    }
    if eof {
        let mut i = w.borrow_mut();
        let drv = i.prog.driver_name();
        let (wfin, wtot) = (i.legs[li].w_fin, i.legs[li].w);
        if !wfin {
            i.violation(
                format!("C16/eof/before-finish/{drv}"),
                format!("flow {flow} leg {leg}: end of stream after {r} bytes although the writer has not finished the stream"),
            );
        } else if r != wtot {
            i.violation(
                format!("C16/eof/{}/{drv}", if r < wtot { "bytes-lost" } else { "more-than-written" }),
                format!("flow {flow} leg {leg}: end of stream after {r} bytes, {wtot} were accepted by write calls before finish"),
            );
        } else if spec.rapi == 2 {
            ranges.sort();
            let mut at = 0;
            for (a, b) in &ranges {
                if *a != at {
                    break;
                }
                at = *b;
            }
            if at != wtot {
                i.violation(
                    format!("C16/eof/unordered-gap/{drv}"),
                    format!("flow {flow} leg {leg}: unordered chunks do not cover [0, {wtot})"),
                );
            }
        }
        i.legs[li].eof = true;
        i.legs[li].r_end = true;
        drop(i);
        // end of stream is sticky
        if spec.rapi != 4 {
            let again = match spec.rapi {
                0 => {
                    let compio_buf::BufResult(res, _) = recv.read(Vec::with_capacity(16)).await;
                    matches!(res, Ok(0))
                }
                3 => {
                    let mut b = [Bytes::new()];
                    matches!(recv.read_chunks(&mut b).await, Ok(None))
                }
                _ => matches!(recv.read_chunk(16, spec.rapi == 1).await, Ok(None)),
            };
            if !again {
                let mut i = w.borrow_mut();
                let drv = i.prog.driver_name();
                i.violation(
                    format!("C16/eof/not-sticky/{drv}"),
                    format!("flow {flow} leg {leg}: a read after end of stream did not report end of stream again"),
                );
            }
        }
        w.borrow_mut().held[side].push(Box::new(recv));
        return;
    }
    if spec.rstop >= 0 {
        // abandon the stream while the writer is (mostly) still active
        match spec.rstop_when {
            0 => {}
            1 => sleep_ms(&w, tid, rng.range(1, 5) as u64).await,
            _ => {
                set_last(&w, tid, "wait for the writer to block");
                for _ in 0..300 {
                    {
                        let i = w.borrow();
                        let ls = &i.legs[li];
                        let blocked = ls.w_tid.is_some_and(|t| i.trk[t].pending && i.trk[t].op == Op::Write);
                        if blocked || ls.w_idle || ls.w_fin || ls.w_done || i.closing {
                            break;
                        }
                    }
                    sleep_ms(&w, tid, 1).await;
                }
            }
        }
        let how = if spec.rstop_drop { "d" } else { "x" };
        {
            let mut i = w.borrow_mut();
            // a connection-level limit that the transfers of this program can exhaust
            let total: u64 = i.prog.flows.iter().map(|f| f.legs[0].len + if f.bi { f.legs[1].len } else { 0 }).sum();
            let conn_limited = i.prog.tc[1 - side].sw != 0 || i.prog.tc[side].rw != 0 || total >= 8 << 20;
            let (blocked, stopped_wait, fin, idle) = {
                let ls = &i.legs[li];
                (
                    ls.w_tid.is_some_and(|t| i.trk[t].pending && i.trk[t].op == Op::Write),
                    ls.w_tid.is_some_and(|t| i.trk[t].pending && i.trk[t].op == Op::Stopped),
                    ls.w_fin || ls.w_done,
                    ls.w_idle,
                )
            };
            let class = if fin {
                i.floors.insert("saw-stop-hit-finished-writer");
                "f"
            } else if idle {
                i.floors.insert(if stopped_wait { "saw-stop-hit-writer-in-stopped()" } else { "saw-stop-hit-idle-writer" });
                "i"
            } else if blocked {
                i.floors.insert("saw-stop-hit-blocked-writer");
                if !conn_limited {
                    i.floors.insert("saw-stop-hit-writer-blocked-on-stream-window-only");
                }
                "b"
            } else {
                "a"
            };
            if spec.rstop_drop {
                i.floors.insert("saw-implicit-stop-by-drop");
            }
            let ls = &mut i.legs[li];
            ls.stop_class = Some(format!("{how}{class}{}", if conn_limited { "c" } else { "" }));
            ls.stop_issued = true;
            ls.r_end = true;
            i.count("streams-abandoned-by-reader", 1);
        }
        set_last(&w, tid, format!("stop after {r} bytes"));
        if spec.rstop_drop {
            drop(recv);
        } else {
            // (a read that delivered the last bytes may have consumed the end of the stream
            // with them: then the stream is gone and ClosedStream is the documented answer)
            if recv.stop(VarInt::from_u64(spec.stop_code()).unwrap()).is_err() && r < spec.len {
                let mut i = w.borrow_mut();
                let drv = i.prog.driver_name();
                i.violation(
                    format!("C16/stop/closed-stream-on-first-stop/{drv}"),
                    format!("flow {flow} leg {leg}: the first stop() of a stream that was not read to its end ({r} bytes read) failed with ClosedStream"),
                );
            }
            if rng.chance(1, 2) {
                drop(recv);
            } else {
                w.borrow_mut().held[side].push(Box::new(recv));
            }
        }
        return;
    }
    // stalled reader: hold the stream without reading
    w.borrow_mut().legs[li].r_end = true;
    if spec.rreset {
        set_last(&w, tid, "received_reset()");
        let r = tr(&w, tid, Op::RecvReset, recv.received_reset()).await;
        set_last(&w, tid, format!("received_reset -> {r:?}"));
    }
    w.borrow_mut().held[side].push(Box::new(recv));
}

async fn opener(w: W, tid: usize, flow: usize) {
    let (side, bi, wait) = {
        let i = w.borrow();
        let f = &i.prog.flows[flow];
        (f.opener, f.bi, f.open_wait)
    };
    let Some(conn) = w.borrow().conn[side].clone() else { return };
    set_last(&w, tid, "open");
    let opened: Result<(SendStream, Option<RecvStream>), ConnectionError> = if bi {
        let quick = if wait { None } else { conn.open_bi().ok() };
        match quick {
            Some((s, r)) => Ok((s, Some(r))),
            None => {
                if !wait {
                    w.borrow_mut().count("open-exhausted-then-wait", 1);
                }
                tr(&w, tid, Op::OpenBi, conn.open_bi_wait()).await.map(|(s, r)| (s, Some(r)))
            }
        }
    } else {
        let quick = if wait { None } else { conn.open_uni().ok() };
        match quick {
            Some(s) => Ok((s, None)),
            None => {
                if !wait {
                    w.borrow_mut().count("open-exhausted-then-wait", 1);
                }
                tr(&w, tid, Op::OpenUni, conn.open_uni_wait()).await.map(|s| (s, None))
            }
        }
    };
    drop(conn);
    let (send, recv) = match opened {
        Ok(x) => x,
        Err(e) => {
            unexpected(&w, "open", conn_err(&e), format!("flow {flow}"));
            let mut i = w.borrow_mut();
            for l in 0..2 {
                i.legs[leg_index(flow, l)].w_end = true;
                i.legs[leg_index(flow, l)].r_end = true;
            }
            return;
        }
    };
    {
        let mut i = w.borrow_mut();
        let key = stream_key(send.id());
        let drv = i.prog.driver_name();
        if key.0 != side || key.1 != bi {
            i.violation(
                format!("C16/stream-identity/open-id/{drv}"),
                format!("side {side} opened a {} stream and got id {}", if bi { "bi" } else { "uni" }, send.id()),
            );
        }
        if let Some(other) = i.stream_flow.insert(key, flow) {
            i.violation(
                format!("C16/stream-identity/id-reused/{drv}"),
                format!("stream id {} handed out for flow {other} and flow {flow}", send.id()),
            );
        }
    }
    if let Some(recv) = recv {
        task(&w, side, format!("reader f{flow}.1"), move |w, t| reader(w, t, flow, 1, recv));
    }
    writer(w, tid, flow, 0, send).await;
}

async fn acceptor(w: W, tid: usize, side: usize, bi: bool) {
    let Some(conn) = w.borrow().conn[side].clone() else { return };
    loop {
        let got: Result<(Option<SendStream>, RecvStream), ConnectionError> = if bi {
            tr(&w, tid, Op::AcceptBi, conn.accept_bi()).await.map(|(s, r)| (Some(s), r))
        } else {
            tr(&w, tid, Op::AcceptUni, conn.accept_uni()).await.map(|r| (None, r))
        };
        let (send, recv) = match got {
            Ok(x) => x,
            Err(e) => {
                unexpected(&w, "accept", conn_err(&e), format!("side {side}"));
                return;
            }
        };
        let key = stream_key(recv.id());
        let flow = {
            let mut i = w.borrow_mut();
            let drv = i.prog.driver_name();
            let flow = i.stream_flow.get(&key).copied();
            match flow {
                None => {
                    i.violation(
                        format!("C16/stream-identity/unknown-stream/{drv}"),
                        format!("side {side} accepted stream {} that nobody opened", recv.id()),
                    );
                    None
                }
                Some(_) if key.0 == side || key.1 != bi => {
                    i.violation(
                        format!("C16/stream-identity/wrong-kind/{drv}"),
                        format!("side {side} accept_{} yielded stream {}", if bi { "bi" } else { "uni" }, recv.id()),
                    );
                    None
                }
                Some(f) => {
                    if !i.accepted.insert(f) {
                        i.violation(
                            format!("C16/stream-identity/accepted-twice/{drv}"),
                            format!("stream {} was accepted twice", recv.id()),
                        );
                        None
                    } else {
                        Some(f)
                    }
                }
            }
        };
        let Some(flow) = flow else { continue };
        if flow >= w.borrow().prog.flows.len() {
            // a fixture stream (opened and held by an open_*_wait fixture): just hold it
            w.borrow_mut().held[side].push(Box::new((send, recv)));
            continue;
        }
        task(&w, side, format!("reader f{flow}.0"), move |w, t| reader(w, t, flow, 0, recv));
        if let Some(send) = send {
            task(&w, side, format!("writer f{flow}.1"), move |w, t| writer(w, t, flow, 1, send));
        }
    }
}

// ---------------------------------------------------------------------------
// datagrams

fn dg_payload(side: usize, seq: u32, len: usize) -> Vec<u8> {
    if len < 8 {
        return vec![0xD0 + len as u8; len];
    }
    let tag = ((side as u64) << 56) | ((len as u64) << 32) | seq as u64;
    pattern(tag, len).to_vec()
}

async fn dg_sender(w: W, tid: usize, side: usize) {
    let Some(conn) = w.borrow().conn[side].clone() else { return };
    let spec = w.borrow().prog.dg[side].clone();
    let peer_off = w.borrow().prog.tc[1 - side].dg_recv < 0;
    let self_off = w.borrow().prog.tc[side].dg_recv < 0;
    let mut rng = Rng::new(w.borrow().prog.nonce ^ (0xD6 + side as u64));
    for seq in 0..spec.n {
        let max = conn.max_datagram_size();
        let cap = max.unwrap_or(1100).min(spec.max_len as usize);
        let len = if rng.chance(1, 4) { cap } else { rng.range(0, cap) };
        let pl = dg_payload(side, seq, len);
        w.borrow_mut().dg_sent[side].entry(pl.clone()).or_insert((0, 0)).0 += 1;
        let wait = spec.api == 1 || (spec.api == 2 && seq % 2 == 1);
        let res = if wait {
            tr(&w, tid, Op::SendDgWait, conn.send_datagram_wait(Bytes::from(pl.clone()))).await
        } else {
            conn.send_datagram(Bytes::from(pl.clone()))
        };
        match res {
            Ok(()) => {
                if peer_off || self_off {
                    let mut i = w.borrow_mut();
                    let drv = i.prog.driver_name();
                    i.violation(
                        format!("C16/datagram/sent-although-peer-disabled/{drv}"),
                        "send_datagram succeeded although the peer disabled datagrams".into(),
                    );
                }
                w.borrow_mut().count("datagrams-sent", 1);
            }
            Err(e) => {
                // not sent: forget it
                if let Some(c) = w.borrow_mut().dg_sent[side].get_mut(&pl) {
                    c.0 -= 1;
                }
                match e {
                    SendDatagramError::UnsupportedByPeer if peer_off => {}
                    // documented: "Datagram support is disabled locally"
                    SendDatagramError::Disabled if self_off => {}
                    SendDatagramError::TooLarge => {
                        w.borrow_mut().count("datagram-too-large", 1);
                    }
                    SendDatagramError::ConnectionLost(e) => {
                        unexpected(&w, "send_datagram", conn_err(&e), format!("side {side} seq {seq}"));
                        return;
                    }
                    other => {
                        unexpected(&w, "send_datagram", &format!("{other:?}"), format!("side {side} seq {seq}"));
                        return;
                    }
                }
            }
        }
        if !spec.burst {
            yield_now(&w, tid).await;
        }
    }
}

async fn dg_reader(w: W, tid: usize, side: usize) {
    let Some(conn) = w.borrow().conn[side].clone() else { return };
    loop {
        match tr(&w, tid, Op::RecvDg, conn.recv_datagram()).await {
            Ok(b) => {
                let mut i = w.borrow_mut();
                let drv = i.prog.driver_name();
                let verdict = match i.dg_sent[1 - side].get_mut(&b[..]) {
                    None => Some("unknown-or-corrupt"),
                    Some(c) => {
                        c.1 += 1;
                        if c.1 > c.0 { Some("duplicate") } else { None }
                    }
                };
                if let Some(v) = verdict {
                    i.violation(
                        format!("C16/datagram/{v}/{drv}"),
                        format!("side {side} received a datagram of {} bytes that is {v}", b.len()),
                    );
                } else {
                    i.count("datagrams-delivered", 1);
                    i.floors.insert("saw-datagram-delivered");
                }
            }
            Err(e) => {
                unexpected(&w, "recv_datagram", conn_err(&e), format!("side {side}"));
                return;
            }
        }
    }
}

// ---------------------------------------------------------------------------
// fixtures

fn spawn_fixture(w: &W, fx: &Fix) {
    let side = fx.side;
    for k in 0..fx.n {
        match fx.kind {
            FX_OPEN_UNI | FX_OPEN_BI => {
                let bi = fx.kind == FX_OPEN_BI;
                task(w, side, format!("fx-open-{}", if bi { "bi" } else { "uni" }), move |w, tid| async move {
                    let Some(conn) = w.borrow().conn[side].clone() else { return };
                    // open until one call has to wait; the opened streams are held unused
                    for _ in 0..7 {
                        if bi {
                            match tr(&w, tid, Op::OpenBi, conn.open_bi_wait()).await {
                                Ok(s) => {
                                    let mut i = w.borrow_mut();
                                    let n = i.prog.flows.len() + 1000;
                                    i.stream_flow.insert(stream_key(s.0.id()), n);
                                    i.held[side].push(Box::new(s));
                                }
                                Err(e) => {
                                    unexpected(&w, "open", conn_err(&e), "fixture".into());
                                    return;
                                }
                            }
                        } else {
                            match tr(&w, tid, Op::OpenUni, conn.open_uni_wait()).await {
                                Ok(s) => {
                                    let mut i = w.borrow_mut();
                                    let n = i.prog.flows.len() + 1000;
                                    i.stream_flow.insert(stream_key(s.id()), n);
                                    i.held[side].push(Box::new(s));
                                }
                                Err(e) => {
                                    unexpected(&w, "open", conn_err(&e), "fixture".into());
                                    return;
                                }
                            }
                        }
                    }
                });
            }
            FX_SEND_DG_WAIT => {
                task(w, side, "fx-send-dg-wait", move |w, tid| async move {
                    let Some(conn) = w.borrow().conn[side].clone() else { return };
                    let buf = eff(w.borrow().prog.tc[side].dg_send, 1 << 20);
                    let n = (buf / 1000 + 8).min(1500) as u32 * 2;
                    for seq in 0..n {
                        let len = conn.max_datagram_size().unwrap_or(1000).min(1000);
                        let pl = dg_payload(side, 1_000_000 + seq, len);
                        w.borrow_mut().dg_sent[side].entry(pl.clone()).or_insert((0, 0)).0 += 1;
                        if let Err(e) = tr(&w, tid, Op::SendDgWait, conn.send_datagram_wait(Bytes::from(pl))).await {
                            if let SendDatagramError::ConnectionLost(e) = e {
                                unexpected(&w, "send_datagram_wait", conn_err(&e), "fixture".into());
                            }
                            return;
                        }
                    }
                });
            }
            FX_CLOSED => {
                task(w, side, format!("fx-closed#{k}"), move |w, tid| async move {
                    let Some(conn) = w.borrow().conn[side].clone() else { return };
                    let e = tr(&w, tid, Op::Closed, conn.closed()).await;
                    set_last(&w, tid, format!("closed -> {}", conn_err(&e)));
                    let closing = w.borrow().closing;
                    if !closing {
                        unexpected(&w, "closed", conn_err(&e), format!("side {side}"));
                    }
                });
            }
            FX_CLOSED_CANCEL => {
                task(w, side, "fx-closed-cancel", move |w, tid| async move {
                    let Some(conn) = w.borrow().conn[side].clone() else { return };
                    // the canonical `select!(conn.closed(), other)` shape: poll
                    // `closed()` once, then drop it because the other branch won
                    {
                        let mut f = pin!(conn.closed());
                        let first = std::future::poll_fn(|cx| Poll::Ready(f.as_mut().poll(cx).is_ready())).await;
                        if first {
                            return;
                        }
                    }
                    w.borrow_mut().closed_cancelled[side] = true;
                    set_last(&w, tid, "dropped a pending closed() future");
                });
            }
            FX_WAIT_INCOMING => {
                task(w, side, format!("fx-wait-incoming#{k}"), move |w, tid| async move {
                    let Some(ep) = w.borrow().ep[side].clone() else { return };
                    let r = tr(&w, tid, Op::WaitIncoming, ep.wait_incoming()).await;
                    set_last(&w, tid, format!("wait_incoming -> {}", if r.is_some() { "Some" } else { "None" }));
                    if let Some(inc) = r {
                        inc.refuse();
                        let mut i = w.borrow_mut();
                        let drv = i.prog.driver_name();
                        i.violation(
                            format!("C16/endpoint/phantom-incoming/{drv}"),
                            format!("wait_incoming on side {side} yielded a connection attempt nobody made"),
                        );
                    }
                });
            }
            FX_CONNECTING | FX_HANDSHAKE_DATA => {
                let hd = fx.kind == FX_HANDSHAKE_DATA;
                task(w, side, if hd { "fx-handshake-data" } else { "fx-connecting" }, move |w, tid| async move {
                    let (ep, target, cfg) = {
                        let i = w.borrow();
                        let Some(ep) = i.ep[side].clone() else { return };
                        let Some(bh) = &i.blackhole else { return };
                        let Ok(addr) = bh.local_addr() else { return };
                        let (c, _) = configs(&i.prog);
                        (ep, addr, c)
                    };
                    let mut connecting = match ep.connect(target, "localhost", Some(cfg)) {
                        Ok(c) => c,
                        Err(e) => {
                            set_last(&w, tid, format!("connect -> {e}"));
                            return;
                        }
                    };
                    drop(ep);
                    if hd {
                        let r = tr(&w, tid, Op::HandshakeData, connecting.handshake_data()).await;
                        set_last(&w, tid, format!("handshake_data -> {}", r.as_ref().map(|_| "Ok").unwrap_or_else(|e| conn_err(e))));
                    } else {
                        let r = tr(&w, tid, Op::Connecting, connecting).await;
                        set_last(&w, tid, format!("connecting -> {}", r.as_ref().map(|_| "Ok").unwrap_or_else(|e| conn_err(e))));
                    }
                });
            }
            _ => {}
        }
    }
}

// ---------------------------------------------------------------------------
// the program

fn spawn_workload(w: &W) {
    let prog = w.borrow().prog.clone();
    {
        let mut i = w.borrow_mut();
        for (fi, f) in prog.flows.iter().enumerate() {
            for l in 0..2 {
                let len = if l == 1 && !f.bi { 0 } else { f.legs[l].len as usize };
                i.legs.push(LegSt { data: pattern(leg_nonce(&prog, fi, l), len), ..Default::default() });
            }
        }
    }
    for side in 0..2 {
        for d in 0..2 {
            for k in 0..prog.acceptors[side][d] {
                task(w, side, format!("acceptor-{}#{k}", if d == 1 { "bi" } else { "uni" }), move |w, t| {
                    acceptor(w, t, side, d == 1)
                });
            }
            if prog.raise[side][d] > 0 {
                let (to, ms) = (prog.raise[side][d], prog.raise_ms);
                task(w, side, "raise-limit", move |w, tid| async move {
                    if ms == 0 {
                        yield_now(&w, tid).await;
                    } else {
                        sleep_ms(&w, tid, ms).await;
                    }
                    let Some(conn) = w.borrow().conn[side].clone() else { return };
                    if d == 0 {
                        conn.set_max_concurrent_uni_streams(VarInt::from_u32(to));
                    } else {
                        conn.set_max_concurrent_bi_streams(VarInt::from_u32(to));
                    }
                });
            }
        }
        for _ in 0..prog.dg[side].readers {
            task(w, side, "dg-reader", move |w, t| dg_reader(w, t, side));
        }
        if prog.dg[side].n > 0 {
            task(w, side, "dg-sender", move |w, t| dg_sender(w, t, side));
        }
    }
    for (fi, f) in prog.flows.iter().enumerate() {
        task(w, f.opener, format!("opener f{fi}"), move |w, t| opener(w, t, fi));
    }
    for fx in &prog.fixtures {
        spawn_fixture(w, fx);
    }
}

/// Transfer mode: every leg that can complete has completed.
fn flows_complete(i: &Inner) -> bool {
    for (fi, f) in i.prog.flows.iter().enumerate() {
        for l in 0..(if f.bi { 2 } else { 1 }) {
            let ls = &i.legs[leg_index(fi, l)];
            let broken = ls.read_err.is_some() || ls.write_err.as_deref().is_some_and(|e| e != "Stopped");
            if f.legs[l].rstop >= 0 && !broken {
                // an abandoned stream is complete when the reader has stopped and the writer
                // has run to its end (with `Stopped`, or having finished before it noticed)
                if !(ls.stop_issued && ls.w_done) {
                    return false;
                }
                continue;
            }
            let failed = ls.write_err.is_some() || ls.read_err.is_some();
            if !(ls.eof || failed) {
                return false;
            }
        }
    }
    // datagram senders are finite
    i.trk.iter().all(|t| t.what != "dg-sender" || t.done)
}

fn settled(i: &Inner, hot: bool) -> bool {
    !hot && i.trk.iter().all(|t| t.done || (t.pending && t.op != Op::Sleep))
}

#[derive(Clone, Debug)]
struct Snap {
    tid: usize,
    op: Op,
    side: usize,
    epoch: u64,
    due: u8,
}

fn snapshot(i: &Inner) -> Vec<Snap> {
    let c = &i.prog.close;
    i.trk
        .iter()
        .enumerate()
        .filter(|(_, t)| !t.done && t.pending && t.op != Op::Sleep && t.op != Op::Setup)
        .map(|(tid, t)| {
            let due = if t.op.endpoint_level() {
                if c.kind == 1 && t.side == c.side { 1 } else { 2 }
            } else {
                1
            };
            Snap { tid, op: t.op, side: t.side, epoch: t.epoch, due }
        })
        .collect()
}

fn still_pending<'a>(i: &Inner, snap: &'a [Snap], due: u8) -> Vec<&'a Snap> {
    snap.iter()
        .filter(|s| s.due <= due)
        .filter(|s| {
            let t = &i.trk[s.tid];
            !t.done && t.pending && t.epoch == s.epoch
        })
        .collect()
}

fn build_runtime(p: &Prog) -> std::io::Result<Runtime> {
    let mut pb = ProactorBuilder::new();
    pb.driver_type(if p.driver == 0 { DriverType::IoUring } else { DriverType::Poll });
    let mut rb = RuntimeBuilder::new();
    rb.with_proactor(pb);
    rb.event_interval(p.tick.max(1) as usize);
    rb.build()
}

fn stranded_report(i: &mut Inner, left: &[&Snap], stage: &str, close: &str) {
    let c = i.prog.close.clone();
    let drv = i.prog.driver_name();
    for s in left {
        let rel = if s.side == c.side { "local" } else { "peer" };
        let terminated = if s.op.endpoint_level() {
            "endpoint"
        } else {
            match i.conn[s.side].as_ref().map(|c| c.close_reason()) {
                Some(Some(_)) => "connection-terminated",
                Some(None) => "connection-not-terminated",
                None => "handle-dropped",
            }
        };
        let t = &i.trk[s.tid];
        let what = format!(
            "{} future of task '{}' (side {}, {rel} to the close) was pending at {stage} and is still pending although the whole runtime is quiescent (no runnable task, no timer, no I/O in flight); last: {}",
            s.op.name(),
            t.what,
            s.side,
            t.last
        );
        // one root cause, one signature: a cancelled `closed()` kills the worker
        if !s.op.endpoint_level() && i.closed_cancelled[s.side] && terminated == "connection-not-terminated" {
            i.violation(
                format!("C16/stranded/after-dropped-closed-future/{drv}"),
                format!("{what}; a pending `Connection::closed()` future had been dropped on this side before (which cancels the connection's worker task)"),
            );
            continue;
        }
        if i.prog.mode == 0 && rel == "peer" && terminated == "connection-not-terminated" {
            // no idle timeout in transfer mode: the peer only learns from the
            // CONNECTION_CLOSE packet, whose loss is legitimate
            i.incon.push("peer-never-saw-close-without-idle-timeout".into());
            continue;
        }
        i.violation(format!("C16/stranded/{}/{close}/{rel}/{terminated}/{drv}", s.op.name()), what);
    }
}

pub fn run_program(p: &Prog, watchdog: Duration, verbose: bool) -> Outcome {
    install_panic_log();
    let mut out = Outcome::default();
    let _ = take_panics();
    verif::drain();
    verif::enable(true);
    let rt = match build_runtime(p) {
        Ok(rt) => rt,
        Err(e) => {
            out.inconclusive.push(format!("runtime-build-failed:{:?}", e.kind()));
            verif::enable(false);
            return out;
        }
    };
    let w: W = Rc::new(RefCell::new(Inner {
        prog: p.clone(),
        ep: [None, None],
        conn: [None, None],
        addr: [None, None],
        probe_fds: Vec::new(),
        blackhole: std::net::UdpSocket::bind("127.0.0.1:0").ok(),
        legs: Vec::new(),
        stream_flow: HashMap::new(),
        accepted: HashSet::new(),
        trk: Vec::new(),
        held: [Vec::new(), Vec::new()],
        viol: Vec::new(),
        incon: Vec::new(),
        notes: Vec::new(),
        closing: false,
        dg_sent: [HashMap::new(), HashMap::new()],
        counters: HashMap::new(),
        floors: HashSet::new(),
        setup_done: false,
        setup_err: None,
        closed_cancelled: [false, false],
        t0: Instant::now(),
        t_stage1: Duration::ZERO,
    }));
    let mut d = Driver { rt: rt.clone(), act: Act::new(), ticks: 0, deadline: Instant::now() + watchdog, t0: Instant::now(), trace: std::env::var("C16_TRACE_LOOP").ok().and_then(|v| v.parse().ok()).unwrap_or(0) };
    let stages = rt.enter(|| stages(&mut d, &w, &mut out, verbose));
    if let Err(reason) = stages {
        out.inconclusive.push(reason);
    }
    // tear down inside the runtime context
    rt.enter(|| {
        let mut i = w.borrow_mut();
        i.held = [Vec::new(), Vec::new()];
        i.conn = [None, None];
        i.ep = [None, None];
        for fd in i.probe_fds.drain(..) {
            unsafe { libc::close(fd) };
        }
    });
    drop(d);
    drop(rt);
    verif::enable(false);
    verif::drain();

    let mut i = w.borrow_mut();
    let mut foreign_panic = false;
    for pr in take_panics() {
        if pr.file.starts_with("/repo/") || pr.file.contains("/repo/compio") || pr.file.contains("repo-mut/compio") {
            let f = pr.file.trim_start_matches("/tmp/c16-repo-mut/").trim_start_matches("/repo/");
            let what = if pr.msg.contains("unwrap_err") && f.ends_with("connection.rs") { "/closed" } else { "" };
            i.viol.push((
                format!("C16/panic/{f}{what}/{}", p.driver_name()),
                format!("panic inside compio at {}:{}: {}", pr.file, pr.line, pr.msg),
            ));
        } else if pr.file.contains("c16") || pr.file.contains("vsec/") || pr.file.contains("vcommon/") {
            out.inconclusive.push(format!("harness-panic@{}:{}", pr.file.rsplit('/').next().unwrap_or(""), pr.line));
            out.notes.push(format!("harness panic {}:{}: {}", pr.file, pr.line, pr.msg));
        } else {
            out.notes.push(format!("panic outside compio {}:{}: {}", pr.file, pr.line, pr.msg));
            out.inconclusive.push("panic-in-dependency".into());
            foreign_panic = true;
        }
    }
    let mut seen = HashSet::new();
    for (s, wh) in i.viol.drain(..) {
        if seen.insert(s.clone()) {
            out.violations.push((s, wh));
        }
    }
    if foreign_panic {
        // a task died from a panic below compio (e.g. inside quinn-proto): whatever hangs
        // afterwards is a consequence, not a finding about the glue
        out.violations.retain(|(s, _)| s.starts_with("C16/panic/"));
    }
    if i.incon.iter().any(|r| r.starts_with("quinn-proto-limit") || r == "idle-timeout-before-close") {
        // the connection was lost before the close point for a reason outside the glue: what
        // follows (unfinished transfers in a quiescent runtime, ...) is a consequence
        out.violations.retain(|(s, _)| s.starts_with("C16/panic/"));
    }
    out.inconclusive.append(&mut i.incon);
    out.notes.append(&mut i.notes);
    out.counters = std::mem::take(&mut i.counters);
    out.floors = std::mem::take(&mut i.floors);
    if !out.violations.is_empty() || verbose {
        out.detail = json!({
            "tasks": i.trk.iter().map(|t| json!({"task": t.what, "side": t.side, "op": t.op.name(),
                "pending": t.pending, "done": t.done, "last": t.last})).collect::<Vec<_>>(),
            "legs": i.legs.iter().enumerate().map(|(k, l)| json!({"leg": k, "len": l.data.len(), "w": l.w, "fin": l.w_fin,
                "r": l.r, "eof": l.eof, "werr": l.write_err, "rerr": l.read_err})).collect::<Vec<_>>(),
        });
    }
    out
}

fn stages(d: &mut Driver, w: &W, out: &mut Outcome, verbose: bool) -> Result<(), String> {
    let p = w.borrow().prog.clone();
    // ---- stage 0: endpoints + handshake
    task(w, CLIENT, "setup", setup);
    match d.drive(w, &|i, _| i.setup_done, 0) {
        Stop::Cond => {}
        Stop::Quiescent => return Err("setup-stuck".into()),
        Stop::Watchdog => return Err("watchdog-setup".into()),
    }
    if let Some(e) = w.borrow_mut().setup_err.take() {
        return Err(format!("setup-failed:{}", e.split(':').next().unwrap_or("")));
    }
    // ---- stage 1: workload until the close point
    {
        let mut i = w.borrow_mut();
        i.t_stage1 = i.t0.elapsed();
    }
    spawn_workload(w);
    let t0 = d.ticks;
    let stop = match p.close.at {
        0 => d.drive(w, &|i, _| flows_complete(i), p.close.extra),
        1 => d.drive(w, &|i, hot| settled(i, hot), p.close.extra),
        _ => {
            let until = t0 + p.close.tick;
            let ticks = Cell::new(t0);
            d.drive(
                w,
                &|i, hot| {
                    ticks.set(ticks.get() + 1);
                    ticks.get() >= until || settled(i, hot)
                },
                p.close.extra,
            )
        }
    };
    if verbose {
        eprintln!("stage1 stop={stop:?} ticks={} t={:?}", d.ticks, d.t0.elapsed());
    }
    match stop {
        Stop::Watchdog => return Err("watchdog-before-close".into()),
        Stop::Quiescent if p.close.at == 0 => {
            // transfer mode: nobody closed anything, nothing can time out, and
            // yet the runtime went to sleep with transfers unfinished
            let mut i = w.borrow_mut();
            let drv = i.prog.driver_name();
            let stuck: Vec<String> = i
                .trk
                .iter()
                .filter(|t| !t.done && t.pending && matches!(t.op, Op::Read | Op::Write | Op::OpenUni | Op::OpenBi | Op::SendDgWait | Op::Stopped))
                .map(|t| format!("{}:{} ({})", t.what, t.op.name(), t.last))
                .collect();
            // writers of streams the reader abandoned: one root cause, its own signature
            let mut abandoned: Vec<(String, String)> = Vec::new();
            for (li, ls) in i.legs.iter().enumerate() {
                let spec = &i.prog.flows[li / 2].legs[li % 2];
                if spec.rstop < 0 || !ls.stop_issued || ls.w_done {
                    continue;
                }
                let Some(t) = ls.w_tid.map(|t| &i.trk[t]) else { continue };
                if t.done || !t.pending || !matches!(t.op, Op::Write | Op::Stopped) {
                    continue;
                }
                let sc = ls.stop_class.as_deref().unwrap_or("xa");
                let class = match &sc[1..2] {
                    "b" => "blocked",
                    "i" => "idle",
                    "f" => "finished",
                    _ => "active",
                };
                // with a connection-level limit in force a write on a stopped stream can report
                // `Blocked` (quinn-proto looks at the connection budget first): its own class
                let lim = if sc.ends_with('c') { "connection-limit-configured" } else { "stream-window-only" };
                let how = if spec.rstop_drop { "drop" } else { "stop" };
                let sig = if sc.ends_with('c') {
                    format!("C16/stranded/{}/after-peer-stop/{lim}/{drv}", t.op.name())
                } else {
                    format!("C16/stranded/{}/after-peer-{how}/writer-{class}/{lim}/{drv}", t.op.name())
                };
                abandoned.push((
                    sig,
                    format!(
                        "flow {} leg {}: the reader abandoned the stream ({how}, code {}) after {} bytes while the writer was {class} ({lim}); the writer's {} future ({}) is still pending although the whole runtime is quiescent (no runnable task, no timer, no I/O in flight): it should have completed with Stopped({}); all blocked: {stuck:?}",
                        li / 2,
                        li % 2,
                        spec.stop_code(),
                        ls.r,
                        t.op.name(),
                        t.last,
                        spec.stop_code()
                    ),
                ));
            }
            if !abandoned.is_empty() {
                for (sig, what) in abandoned {
                    i.violation(sig, what);
                }
            } else {
            let mut kinds: Vec<&str> = i
                .trk
                .iter()
                .filter(|t| !t.done && t.pending && matches!(t.op, Op::Read | Op::Write | Op::OpenUni | Op::OpenBi | Op::SendDgWait | Op::Stopped))
                .map(|t| t.op.name())
                .collect();
            kinds.sort();
            kinds.dedup();
            let unaccepted = i
                .prog
                .flows
                .iter()
                .enumerate()
                .filter(|(fi, _)| !i.legs[leg_index(*fi, 0)].r_started)
                .count();
            i.violation(
                format!("C16/stalled-transfer/{}/{drv}", if kinds.is_empty() { "never-accepted".to_string() } else { kinds.join("+") }),
                format!(
                    "the runtime is quiescent (no runnable task, no timer, no I/O in flight) but the transfers are not complete; blocked: {stuck:?}; streams never accepted: {unaccepted}"
                ),
            );
            }
        }
        _ => {}
    }
    // ---- stage 2: the close action
    let mut snap;
    {
        let mut i = w.borrow_mut();
        i.closing = true;
        let l = p.close.side;
        let mut kind = p.close.kind;
        if kind == 2 {
            // only a drop of the last handle closes: anything else of that side alive?
            let alive = i.trk.iter().any(|t| t.side == l && !t.done && !t.op.endpoint_level());
            if alive {
                kind = 0;
                i.count("drop-fell-back-to-close", 1);
            }
        }
        out.close_kind = kind;
        i.prog.close.kind = kind;
        snap = snapshot(&i);
        if verbose {
            eprintln!("close kind={kind} side={l} snapshot={:?}", snap.iter().map(|s| (s.op.name(), s.side, s.due)).collect::<Vec<_>>());
        }
        match kind {
            0 => {
                if let Some(c) = &i.conn[l] {
                    c.close(VarInt::from_u32(16), b"c16");
                }
            }
            1 => {
                if let Some(e) = &i.ep[l] {
                    e.close(VarInt::from_u32(17), b"c16-ep");
                }
            }
            _ => {
                i.held[l].clear();
                i.conn[l] = None;
            }
        }
    }
    for s in &snap {
        let rel = if s.side == p.close.side { "l" } else { "p" };
        let k = format!("{rel}:{}", s.op.name());
        if !out.blocked.contains(&k) {
            out.blocked.push(k);
        }
    }
    out.blocked.sort();
    out.close_done = true;
    let close_t = Instant::now();
    let stop = d.drive(w, &|i, _| still_pending(i, &snap, 1).is_empty(), 0);
    if verbose {
        eprintln!("stage2 stop={stop:?} ticks={} t={:?}", d.ticks, d.t0.elapsed());
        let i = w.borrow();
        for s in 0..2 {
            eprintln!("  side {s} close_reason={:?}", i.conn[s].as_ref().map(|c| c.close_reason()));
        }
        for s in &snap {
            let t = &i.trk[s.tid];
            eprintln!("  {} side {} {} ready after {:?}", t.what, s.side, s.op.name(), t.ready_at.map(|x| x.saturating_duration_since(close_t)));
        }
    }
    let mut had_stranded = false;
    match stop {
        Stop::Cond => {}
        Stop::Watchdog => return Err("watchdog-after-close".into()),
        Stop::Quiescent => {
            let mut i = w.borrow_mut();
            let left: Vec<Snap> = still_pending(&i, &snap, 1).into_iter().cloned().collect();
            let refs: Vec<&Snap> = left.iter().collect();
            let close = i.prog.close_name();
            stranded_report(&mut i, &refs, "the close", close);
            had_stranded = !left.is_empty();
        }
    }
    // ---- stage 3: close everything that is left; all remaining futures are due
    {
        let i = w.borrow_mut();
        // futures that became pending since the first close are due now as well
        let more = snapshot(&i);
        for s in more {
            if !snap.iter().any(|x| x.tid == s.tid) {
                snap.push(Snap { due: 2, ..s });
            }
        }
        for s in 0..2 {
            if let Some(e) = &i.ep[s] {
                e.close(VarInt::from_u32(18), b"c16-final");
            }
            if let Some(c) = &i.conn[s] {
                c.close(VarInt::from_u32(18), b"c16-final");
            }
        }
    }
    if !had_stranded {
        let stop = d.drive(w, &|i, _| still_pending(i, &snap, 2).is_empty(), 0);
        if verbose {
            eprintln!("stage3 stop={stop:?} ticks={} t={:?}", d.ticks, d.t0.elapsed());
        }
        match stop {
            Stop::Cond => {}
            Stop::Watchdog => return Err("watchdog-after-final-close".into()),
            Stop::Quiescent => {
                let mut i = w.borrow_mut();
                let left: Vec<Snap> = still_pending(&i, &snap, 2).into_iter().cloned().collect();
                let refs: Vec<&Snap> = left.iter().collect();
                stranded_report(&mut i, &refs, "the final Endpoint::close + Connection::close", "final-close");
                had_stranded = !left.is_empty();
            }
        }
    }
    // every harness task must have run to its end by now (they all stop at the first error)
    if !had_stranded {
        let stop = d.drive(w, &|i, _| i.trk.iter().all(|t| t.done), 0);
        if stop == Stop::Quiescent {
            let mut i = w.borrow_mut();
            let drv = i.prog.driver_name();
            let left: Vec<(String, &'static str, String, usize)> = i
                .trk
                .iter()
                .filter(|t| !t.done)
                .map(|t| (t.what.clone(), t.op.name(), t.last.clone(), t.side))
                .collect();
            for (what, op, last, side) in left {
                if i.closed_cancelled[side] {
                    i.violation(
                        format!("C16/stranded/after-dropped-closed-future/{drv}"),
                        format!("task '{what}' still pending in {op} after everything was closed; a pending closed() future had been dropped on this side"),
                    );
                } else {
                    i.violation(
                        format!("C16/stranded/{op}/after-all-closed/{drv}"),
                        format!("task '{what}' (side {side}) is still pending in {op} after both endpoints and connections were closed and the runtime is quiescent; last: {last}"),
                    );
                }
                had_stranded = true;
            }
        } else if stop == Stop::Watchdog {
            return Err("watchdog-task-end".into());
        }
    }
    // ---- stage 4: drop all handles, shut the endpoints down
    if !had_stranded {
        let eps = {
            let mut i = w.borrow_mut();
            i.held = [Vec::new(), Vec::new()];
            i.conn = [None, None];
            [i.ep[0].take(), i.ep[1].take()]
        };
        for (side, ep) in eps.into_iter().enumerate() {
            if let Some(ep) = ep {
                task(w, side, "shutdown", move |w, tid| async move {
                    let r = tr(&w, tid, Op::Shutdown, ep.shutdown()).await;
                    set_last(&w, tid, format!("shutdown -> {r:?}"));
                    if let Err(e) = r {
                        let mut i = w.borrow_mut();
                        let drv = i.prog.driver_name();
                        i.violation(
                            format!("C16/endpoint/shutdown-error/{drv}"),
                            format!("Endpoint::shutdown failed: {e}"),
                        );
                    }
                });
            }
        }
        let stop = d.drive(w, &|i, _| i.trk.iter().all(|t| t.done), 0);
        if verbose {
            eprintln!("stage4 stop={stop:?} ticks={} t={:?}", d.ticks, d.t0.elapsed());
        }
        match stop {
            Stop::Cond => {}
            Stop::Watchdog => return Err("watchdog-shutdown".into()),
            Stop::Quiescent => {
                let mut i = w.borrow_mut();
                let drv = i.prog.driver_name();
                let sides: Vec<usize> = i.trk.iter().filter(|t| !t.done && t.op == Op::Shutdown).map(|t| t.side).collect();
                for side in sides {
                    if i.closed_cancelled[side] {
                        i.violation(
                            format!("C16/stranded/after-dropped-closed-future/{drv}"),
                            "Endpoint::shutdown never completes: the connection whose closed() future was dropped never drains".into(),
                        );
                    } else {
                        i.violation(
                            format!("C16/stranded/shutdown/{drv}"),
                            format!("Endpoint::shutdown of side {side} is still pending after every connection was closed and every handle dropped, and the runtime is quiescent"),
                        );
                    }
                }
            }
        }
    }
    // ---- coverage facts
    {
        let mut i = w.borrow_mut();
        let mut classes: Vec<String> = i.legs.iter().filter_map(|l| l.stop_class.clone()).collect();
        classes.sort();
        classes.dedup();
        out.stop_classes = classes;
        // a stopped stream gave its slot back: more streams of one kind than the limit allows
        // were opened (all of them, since the program completed) although one was abandoned
        if i.prog.mode == 0 && i.viol.is_empty() {
            let mut reuse = false;
            for f in &i.prog.flows {
                if !f.legs.iter().enumerate().any(|(l, x)| (l == 0 || f.bi) && x.rstop >= 0) {
                    continue;
                }
                let t = &i.prog.tc[1 - f.opener];
                let lim = if f.bi { t.max_bi } else { t.max_uni } as usize;
                let n = i.prog.flows.iter().filter(|g| g.opener == f.opener && g.bi == f.bi).count();
                if lim >= 1 && n > lim && i.prog.raise[1 - f.opener][f.bi as usize] == 0 {
                    reuse = true;
                }
            }
            if reuse {
                i.floors.insert("saw-stream-limit-reuse-with-abandoned-stream");
            }
        }
    }
    Ok(())
}
