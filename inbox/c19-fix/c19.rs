//! C19 — actors: serial FIFO handling, ordered lifecycle, unique names.
//!
//! A history checker over the real `compio-actor` crate. One actor type `P`
//! logs every hook and handler entry/exit (instance id, hook, message id,
//! thread, global sequence number); client threads log every operation at the
//! API boundary (call seq, return seq, outcome) from the same global counter.
//! After the case has been torn down (`Cluster::join` returned, all client
//! threads joined) the history is checked per actor instance.
//!
//! Instance identity of a `Mailbox` (needed for `lookup` results and
//! supervision events) is the address of its registered name: every spawn
//! creates its own `Arc<str>`, and `pre_start` registers it first thing.

#[path = "c19_oracle.rs"]
mod oracle;

use std::{
    collections::HashMap,
    future::Future,
    num::NonZeroUsize,
    pin::Pin,
    sync::{
        Arc, Mutex,
        atomic::{AtomicBool, AtomicI32, AtomicU32, AtomicU64, Ordering::SeqCst},
        mpsc,
    },
    task::{Context, Poll, Wake, Waker},
    time::{Duration, Instant},
};

use compio_actor::{
    Actor, ActorExit, ActorHandle, Call, Cluster, Handler, Mailbox,
    cluster::SpawnError,
    mailbox::{CallError, DeliverError, Reply},
    process_group::{Membership, ProcessGroup},
    supervisor::SupervisionEvent,
};
use compio_dispatcher::Dispatcher;
use compio_driver::{DriverType, ProactorBuilder};
use vcommon::{Args, Report, Rng, Value, json};

// ---------------------------------------------------------------------------
// events
// ---------------------------------------------------------------------------

static SEQ: AtomicU64 = AtomicU64::new(1);

pub fn seq() -> u64 {
    SEQ.fetch_add(1, SeqCst)
}

fn gettid() -> u64 {
    unsafe { libc::syscall(libc::SYS_gettid) as u64 }
}

#[derive(Clone, Copy, Debug, PartialEq, Eq, PartialOrd, Ord)]
pub enum Hook {
    PreStart,
    PostStart,
    PreStop,
    PostStop,
}

/// Error value of the actor: who failed where.
#[derive(Clone, Debug, PartialEq, Eq)]
pub struct Fail {
    pub inst: u32,
    /// 0..3 = hook, 4 = handler
    pub at: u8,
    pub msg: u64,
}

#[derive(Clone, Copy, Debug, PartialEq, Eq, PartialOrd, Ord)]
pub enum OpKind {
    Send,
    Call,
    Stop,
    Lookup,
    Spawn,
    GSend,
    GCall,
}

#[derive(Clone, Debug, PartialEq)]
pub enum Res {
    Ok,
    Full,
    Closed,
    /// the error handed back a message with another id
    WrongBack(u64),
    /// call: reply received (answering instance, echoed id)
    Reply(u32, u64),
    NoReply,
    /// call accepted, outcome recorded later by a `CallDone` event
    Pending,
    StopTrue,
    StopFalse,
    Found(Option<u32>),
    NotFound,
    Spawned,
    Abandoned,
    NameTaken,
    StartErr(Fail),
    Unavailable,
    WorkerStopped,
    Timeout,
}

#[derive(Clone, Debug)]
pub struct OpRec {
    pub thr: u32,
    pub kind: OpKind,
    /// instance the operation was aimed at, when the client knows it
    pub target: Option<u32>,
    /// 0 mailbox, 1 broker, 2 mailbox from lookup, 3 group, 4 supervisor/self
    pub via: u8,
    /// message id, or instance id for Spawn
    pub msg: u64,
    pub call: u64,
    pub ret: u64,
    pub res: Res,
    pub name: Option<String>,
}

#[derive(Clone, Debug, PartialEq)]
pub enum ExitRes {
    Stopped,
    Failed(Fail),
    HandleError,
}

#[derive(Clone, Debug)]
pub enum Ev {
    HookB { inst: u32, hook: Hook, tid: u64, seq: u64 },
    HookE { inst: u32, hook: Hook, ok: bool, seq: u64 },
    /// handler entry: kind 0 cast, 1 call, 2 supervision event
    HB { inst: u32, msg: u64, kind: u8, tid: u64, seq: u64 },
    HE { inst: u32, msg: u64, ok: bool, seq: u64 },
    /// handler future dropped at an await point
    HDrop { inst: u32, msg: u64, seq: u64 },
    /// the actor object was dropped
    Gone { inst: u32, seq: u64 },
    Op(OpRec),
    /// a deferred call finished (seq = when the poller saw it)
    CallDone { msg: u64, res: Res, seq: u64 },
    /// the actor's handle resolved (seq = when the poller saw it)
    Exit { inst: u32, res: ExitRes, seq: u64 },
    /// kind 0 started, 1 terminated, 2 failed
    Sup { sup: u32, child: Option<u32>, kind: u8, seq: u64 },
    Member { mid: u32, inst: u32, group: u8, call: u64, ret: u64 },
    Leave { mid: u32, call: u64, ret: u64 },
    ClusterJoin { call: u64, ret: u64, ok: bool },
    /// instance created by a factory: static facts
    Inst { inst: u32, slot: usize, name: Option<String>, cap: usize, supervised_by: Option<u32> },
}

// ---------------------------------------------------------------------------
// case description
// ---------------------------------------------------------------------------

#[derive(Clone, Copy, Debug, PartialEq)]
pub struct HookBeh {
    pub yields: u8,
    pub fail: bool,
}

#[derive(Clone, Copy, Debug, PartialEq)]
pub struct Plan {
    pub hooks: [HookBeh; 4],
}

#[derive(Clone, Copy, Debug, PartialEq)]
pub enum Beh {
    Plain,
    Yield(u8),
    Sleep,
    Fail,
    StopSelf,
    /// directed scenarios: the handler stays busy until the client opens the gate
    Gate,
}

#[derive(Clone, Copy, Debug, PartialEq)]
pub enum AskBeh {
    Reply,
    YieldReply(u8),
    NoReply,
    Defer,
    FailBefore,
}

#[derive(Clone, Debug)]
enum Op {
    Send { slot: usize, via: u8, beh: Beh },
    Call { slot: usize, via: u8, beh: AskBeh, wait: bool },
    Stop { slot: usize },
    Lookup { slot: usize },
    Respawn { slot: usize, plan: Plan, abandon: bool },
    GJoin { slot: usize, group: u8 },
    GLeave,
    GSend { beh: Beh },
    GCall { beh: AskBeh },
    Pause(u16),
}

#[derive(Clone, Debug)]
struct SlotSpec {
    name: Option<String>,
    cap: usize,
    /// slot of the supervisor, if supervised
    sup: Option<usize>,
    plan: Plan,
}

#[derive(Clone, Debug)]
struct Case {
    workers: usize,
    driver: u8,
    slots: Vec<SlotSpec>,
    threads: Vec<Vec<Op>>,
    /// supervisor respawns allowed in total
    respawns: i32,
    /// leave some actors running when the cluster is joined
    truncate: bool,
    /// 0 = random program; n = directed scenario n (a fixed client script)
    directed: u8,
}

fn gen_plan(rng: &mut Rng, faulty: bool) -> Plan {
    let mut hooks = [HookBeh { yields: 0, fail: false }; 4];
    for (i, h) in hooks.iter_mut().enumerate() {
        // 200 = sleep 400 us on the worker's timer (a wide window for racing clients)
        h.yields = match rng.below(12) {
            0..=3 => rng.range(1, 3) as u8,
            4 => rng.range(10, 40) as u8,
            5 => 200,
            _ => 0,
        };
        h.fail = faulty && rng.chance(1, if i == 0 { 6 } else { 10 });
    }
    Plan { hooks }
}

fn gen_beh(rng: &mut Rng, hostile: bool) -> Beh {
    match rng.below(if hostile { 24 } else { 20 }) {
        0..=9 => Beh::Plain,
        10..=15 => Beh::Yield(rng.range(1, 4) as u8),
        16..=19 => Beh::Sleep,
        20..=21 => Beh::Fail,
        _ => Beh::StopSelf,
    }
}

fn gen_ask(rng: &mut Rng, hostile: bool) -> AskBeh {
    match rng.below(if hostile { 12 } else { 10 }) {
        0..=4 => AskBeh::Reply,
        5..=6 => AskBeh::YieldReply(rng.range(1, 3) as u8),
        7 => AskBeh::NoReply,
        8..=9 => AskBeh::Defer,
        _ => AskBeh::FailBefore,
    }
}

fn gen_case(rng: &mut Rng, thorough: bool) -> Case {
    let workers = rng.range(1, 4);
    let nslots = rng.range(1, 4);
    let supervised = rng.chance(1, 3);
    let mut slots = vec![];
    for i in 0..nslots {
        let is_sup = supervised && i == 0;
        slots.push(SlotSpec {
            name: if rng.chance(3, 5) { Some(format!("n{i}")) } else { None },
            cap: if is_sup { 8 } else { *rng.pick(&[1, 1, 2, 2, 3, 4, 8]) },
            sup: if supervised && i > 0 && rng.chance(3, 4) { Some(0) } else { None },
            plan: {
                let f = !is_sup && rng.chance(1, 5);
                gen_plan(rng, f)
            },
        });
    }
    let nthreads = rng.range(1, 6);
    let hostile = rng.chance(3, 4);
    let nops = if thorough { rng.range(5, 120) } else { rng.range(5, 50) };
    let groups = rng.chance(1, 2);
    let mut threads = vec![];
    for _ in 0..nthreads {
        let mut ops = vec![];
        // role of the thread biases its mix
        let role = rng.below(4);
        for _ in 0..nops {
            let slot = rng.below(nslots);
            let via = *rng.pick(&[0u8, 0, 0, 1, 2]);
            let r = rng.below(100);
            let op = match (role, r) {
                (_, 0..=39) => Op::Send { slot, via, beh: gen_beh(rng, hostile) },
                (_, 40..=57) => {
                    let beh = gen_ask(rng, hostile);
                    Op::Call { slot, via, beh, wait: beh != AskBeh::Defer && rng.chance(1, 2) }
                }
                (0, 58..=69) | (_, 58..=61) if hostile => Op::Stop { slot },
                (_, 58..=69) => Op::Pause(rng.range(0, 300) as u16),
                (_, 70..=75) => Op::Lookup { slot },
                (1, 76..=87) | (_, 76..=79) => {
                    let f = hostile && rng.chance(1, 3);
                    Op::Respawn { slot, plan: gen_plan(rng, f), abandon: rng.chance(1, 8) }
                }
                (_, 76..=87) => Op::Send { slot, via, beh: Beh::Plain },
                (_, 88..=99) if groups => match rng.below(8) {
                    0..=1 => Op::GJoin { slot, group: rng.below(2) as u8 },
                    2 => Op::GLeave,
                    3..=5 => Op::GSend { beh: gen_beh(rng, hostile) },
                    _ => Op::GCall { beh: gen_ask(rng, false) },
                },
                _ => Op::Send { slot, via, beh: Beh::Yield(1) },
            };
            ops.push(op);
        }
        if groups && rng.chance(1, 2) {
            ops.insert(0, Op::GJoin { slot: rng.below(nslots), group: 0 });
            ops.insert(0, Op::GJoin { slot: rng.below(nslots), group: 1 });
        }
        threads.push(ops);
    }
    Case {
        workers,
        driver: rng.below(2) as u8,
        slots,
        threads,
        respawns: if supervised { rng.range(0, 6) as i32 } else { 0 },
        truncate: rng.chance(1, 5),
        directed: 0,
    }
}

/// Directed scenario 1 — the smallest history for "a call accepted before a
/// stop": capacity-1 actor, its handler busy with message A, `call(Q)` is
/// accepted behind A, `stop()` is granted, A finishes, the actor stops.
///
/// Directed scenario 2 — the smallest history for "a name is free again once
/// a failed start has been reported": a named spawn whose `pre_start` fails,
/// and as soon as `SpawnError::Start` is back the same client spawns under the
/// same name again (three rounds).
fn directed_case(n: u8) -> Case {
    let plain = Plan { hooks: [HookBeh { yields: 0, fail: false }; 4] };
    if n == 2 {
        let mut failing = plain;
        failing.hooks[0].fail = true;
        return Case {
            workers: 1,
            driver: 0,
            slots: vec![SlotSpec { name: Some("n0".into()), cap: 1, sup: None, plan: failing }],
            threads: vec![],
            respawns: 0,
            truncate: false,
            directed: 2,
        };
    }
    Case {
        workers: 1,
        driver: 0,
        slots: vec![SlotSpec { name: None, cap: 1, sup: None, plan: plain }],
        threads: vec![],
        respawns: 0,
        truncate: false,
        directed: n,
    }
}

fn describe(case: &Case) -> Value {
    json!({
        "directed": case.directed,
        "workers": case.workers, "driver": case.driver, "respawns": case.respawns, "truncate": case.truncate,
        "slots": case.slots.iter().map(|s| format!("{:?}", s)).collect::<Vec<_>>(),
        "threads": case.threads.iter().map(|t| t.iter().map(|o| format!("{:?}", o)).collect::<Vec<_>>().join("; ")).collect::<Vec<_>>(),
    })
}

// ---------------------------------------------------------------------------
// the actor
// ---------------------------------------------------------------------------

pub struct Msg {
    id: u64,
    beh: Beh,
}

pub struct Ask {
    id: u64,
    beh: AskBeh,
}

pub struct Ans {
    id: u64,
    inst: u32,
}

const MAX_INST: usize = 512;

struct Slot {
    spec: SlotSpec,
    cur: Mutex<Option<(u32, Mailbox<P>)>>,
}

struct Ctx {
    log: Mutex<Vec<Ev>>,
    ptr2inst: Mutex<HashMap<usize, u32>>,
    gone: Vec<AtomicBool>,
    exited: Vec<AtomicBool>,
    next_inst: AtomicU32,
    next_msg: AtomicU64,
    next_mid: AtomicU32,
    slots: Vec<Slot>,
    handles: Mutex<Vec<(u32, ActorHandle<Fail>)>>,
    /// every mailbox a spawn returned (the epilogue stops what is still alive)
    all_mbs: Mutex<Vec<(u32, Mailbox<P>)>>,
    calls: Mutex<Vec<(u64, Pin<Box<dyn Future<Output = Result<Ans, CallError<Ask>>> + Send>>)>>,
    respawn_budget: AtomicI32,
    gmsg: ProcessGroup<Msg>,
    gcall: ProcessGroup<Call<Ask, Ans>>,
    stop_poller: AtomicBool,
    gate_entered: AtomicBool,
    gate_open: AtomicBool,
}

impl Ctx {
    fn push(&self, e: Ev) {
        self.log.lock().unwrap().push(e);
    }

    fn inst_of(&self, mb: &Mailbox<P>) -> Option<u32> {
        let p = mb.name()?.as_ptr() as usize;
        self.ptr2inst.lock().unwrap().get(&p).copied()
    }

    fn msg_id(&self) -> u64 {
        self.next_msg.fetch_add(1, SeqCst)
    }
}

pub struct P {
    inst: u32,
    ctx: Arc<Ctx>,
    plan: Plan,
}

impl Drop for P {
    fn drop(&mut self) {
        if self.plan.hooks[0].fail {
            // An actor value whose start-up failed takes a moment to release what its factory
            // acquired. The failure has been reported to the spawner by now, so everything the
            // worker still does after this point races with the spawner's reaction (e.g. a retry
            // under the same name, which must find the name free).
            std::thread::sleep(Duration::from_micros(400));
        }
        self.ctx.push(Ev::Gone { inst: self.inst, seq: seq() });
        self.ctx.gone[self.inst as usize % MAX_INST].store(true, SeqCst);
    }
}

pub struct St {
    deferred: Vec<(u64, Reply<Ans>)>,
}

struct YieldNow(bool);

impl Future for YieldNow {
    type Output = ();

    fn poll(mut self: Pin<&mut Self>, cx: &mut Context<'_>) -> Poll<()> {
        if self.0 {
            Poll::Ready(())
        } else {
            self.0 = true;
            cx.waker().wake_by_ref();
            Poll::Pending
        }
    }
}

impl P {
    async fn hook(&self, hook: Hook) -> Result<(), Fail> {
        let beh = self.plan.hooks[hook as usize];
        self.ctx.push(Ev::HookB { inst: self.inst, hook, tid: gettid(), seq: seq() });
        if beh.yields >= 200 {
            compio_runtime::time::sleep(Duration::from_micros(400)).await;
        } else {
            for _ in 0..beh.yields {
                YieldNow(false).await;
            }
        }
        self.ctx.push(Ev::HookE { inst: self.inst, hook, ok: !beh.fail, seq: seq() });
        if beh.fail { Err(Fail { inst: self.inst, at: hook as u8, msg: 0 }) } else { Ok(()) }
    }

    fn flush(&self, st: &mut St) {
        for (id, r) in st.deferred.drain(..) {
            let _ = r.reply(Ans { id, inst: self.inst });
        }
    }
}

/// Brackets one handler invocation in the log.
struct HGuard<'a> {
    p: &'a P,
    msg: u64,
    open: bool,
}

impl<'a> HGuard<'a> {
    fn begin(p: &'a P, msg: u64, kind: u8) -> Self {
        p.ctx.push(Ev::HB { inst: p.inst, msg, kind, tid: gettid(), seq: seq() });
        HGuard { p, msg, open: true }
    }

    fn end(&mut self, ok: bool) {
        self.open = false;
        self.p.ctx.push(Ev::HE { inst: self.p.inst, msg: self.msg, ok, seq: seq() });
    }
}

impl Drop for HGuard<'_> {
    fn drop(&mut self) {
        if self.open {
            self.p.ctx.push(Ev::HDrop { inst: self.p.inst, msg: self.msg, seq: seq() });
        }
    }
}

impl Actor for P {
    type Arguments = ();
    type Error = Fail;
    type State = St;

    async fn pre_start(&self, myself: &Mailbox<Self>, (): ()) -> Result<St, Fail> {
        if let Some(n) = myself.name() {
            self.ctx.ptr2inst.lock().unwrap().insert(n.as_ptr() as usize, self.inst);
        }
        self.hook(Hook::PreStart).await?;
        Ok(St { deferred: vec![] })
    }

    async fn post_start(&self, _: &Mailbox<Self>, _: &mut St) -> Result<(), Fail> {
        self.hook(Hook::PostStart).await
    }

    async fn pre_stop(&self, _: &Mailbox<Self>, _: &mut St) -> Result<(), Fail> {
        self.hook(Hook::PreStop).await
    }

    async fn post_stop(&self, _: &Mailbox<Self>, _: &mut St) -> Result<(), Fail> {
        self.hook(Hook::PostStop).await
    }
}

impl Handler<Msg> for P {
    async fn handle(&self, myself: &Mailbox<Self>, m: Msg, st: &mut St) -> Result<(), Fail> {
        let mut g = HGuard::begin(self, m.id, 0);
        self.flush(st);
        match m.beh {
            Beh::Plain => {}
            Beh::Yield(k) => {
                for _ in 0..k {
                    YieldNow(false).await;
                }
            }
            Beh::Sleep => compio_runtime::time::sleep(Duration::from_micros(150)).await,
            Beh::Gate => {
                self.ctx.gate_entered.store(true, SeqCst);
                while !self.ctx.gate_open.load(SeqCst) {
                    YieldNow(false).await;
                }
            }
            Beh::Fail => {
                g.end(false);
                return Err(Fail { inst: self.inst, at: 4, msg: m.id });
            }
            Beh::StopSelf => {
                let c = seq();
                let r = myself.stop();
                self.ctx.push(Ev::Op(OpRec {
                    thr: 1000 + self.inst,
                    kind: OpKind::Stop,
                    target: Some(self.inst),
                    via: 4,
                    msg: m.id,
                    call: c,
                    ret: seq(),
                    res: if r { Res::StopTrue } else { Res::StopFalse },
                    name: None,
                }));
            }
        }
        g.end(true);
        Ok(())
    }
}

impl Handler<Call<Ask, Ans>> for P {
    async fn handle(&self, _: &Mailbox<Self>, call: Call<Ask, Ans>, st: &mut St) -> Result<(), Fail> {
        let (id, beh) = (call.message().id, call.message().beh);
        let mut g = HGuard::begin(self, id, 1);
        match beh {
            AskBeh::Reply => {
                let _ = call.reply(Ans { id, inst: self.inst });
            }
            AskBeh::YieldReply(k) => {
                for _ in 0..k {
                    YieldNow(false).await;
                }
                let _ = call.reply(Ans { id, inst: self.inst });
            }
            AskBeh::NoReply => drop(call),
            AskBeh::Defer => {
                let (_m, r) = call.into_parts();
                st.deferred.push((id, r));
            }
            AskBeh::FailBefore => {
                g.end(false);
                return Err(Fail { inst: self.inst, at: 4, msg: id });
            }
        }
        g.end(true);
        Ok(())
    }
}

impl Handler<SupervisionEvent<P>> for P {
    async fn handle(&self, myself: &Mailbox<Self>, ev: SupervisionEvent<P>, _: &mut St) -> Result<(), Fail> {
        let sid = (1u64 << 62) | seq();
        let mut g = HGuard::begin(self, sid, 2);
        let kind = match &ev {
            SupervisionEvent::ActorStarted(_) => 0,
            SupervisionEvent::ActorTerminated(_) => 1,
            SupervisionEvent::ActorFailed(_) => 2,
        };
        let child = self.ctx.inst_of(ev.actor());
        self.ctx.push(Ev::Sup { sup: self.inst, child, kind, seq: seq() });
        if kind != 0 {
            if let Some(name) = ev.actor().name().map(str::to_owned) {
                // slot of the child = the one with this name
                let slot = self.ctx.slots.iter().position(|s| s.spec.name.as_deref() == Some(name.as_str()));
                if let Some(slot) = slot {
                    if self.ctx.respawn_budget.fetch_sub(1, SeqCst) > 0 {
                        let plan = Plan { hooks: [HookBeh { yields: (sid % 2) as u8, fail: false }; 4] };
                        let cluster = Cluster::current();
                        let fut = start_spawn(&cluster, &self.ctx, slot, plan, Some(myself), 1000 + self.inst, 4);
                        let out = fut.fut.await;
                        finish_spawn(&self.ctx, fut.meta, out, false);
                    }
                }
            }
        }
        g.end(true);
        Ok(())
    }
}

// ---------------------------------------------------------------------------
// spawning
// ---------------------------------------------------------------------------

struct SpawnMeta {
    inst: u32,
    slot: usize,
    thr: u32,
    via: u8,
    call: u64,
    name: Option<String>,
}

struct SpawnStarted<F> {
    fut: F,
    meta: SpawnMeta,
}

type SpawnOut = Result<(Mailbox<P>, ActorHandle<Fail>), SpawnError<Fail>>;

fn start_spawn(
    cluster: &Cluster,
    ctx: &Arc<Ctx>,
    slot: usize,
    plan: Plan,
    sup: Option<&Mailbox<P>>,
    thr: u32,
    via: u8,
) -> SpawnStarted<compio_actor::cluster::SpawnFuture<P>> {
    let spec = &ctx.slots[slot].spec;
    let inst = ctx.next_inst.fetch_add(1, SeqCst);
    let sup_inst = sup.and_then(|_| spec.sup).and_then(|s| ctx.slots[s].cur.lock().unwrap().as_ref().map(|c| c.0));
    ctx.push(Ev::Inst { inst, slot, name: spec.name.clone(), cap: spec.cap, supervised_by: sup_inst });
    let c2 = ctx.clone();
    let call = seq();
    let mut b = cluster
        .spawn(move || P { inst, ctx: c2, plan }, ())
        .with_capacity(NonZeroUsize::new(spec.cap).unwrap());
    if let Some(n) = &spec.name {
        b = b.with_name(n.clone());
    }
    if let Some(s) = sup {
        b = b.with_supervisor(s);
    }
    let fut = std::future::IntoFuture::into_future(b);
    SpawnStarted { fut, meta: SpawnMeta { inst, slot, thr, via, call, name: spec.name.clone() } }
}

fn finish_spawn(ctx: &Arc<Ctx>, m: SpawnMeta, out: SpawnOut, install_only_if_empty: bool) -> bool {
    let ret = seq();
    let mut ok = false;
    let res = match out {
        Ok((mb, h)) => {
            ok = true;
            ctx.handles.lock().unwrap().push((m.inst, h));
            ctx.all_mbs.lock().unwrap().push((m.inst, mb.clone()));
            let mut cur = ctx.slots[m.slot].cur.lock().unwrap();
            if !(install_only_if_empty && cur.is_some()) {
                *cur = Some((m.inst, mb));
            }
            Res::Spawned
        }
        Err(SpawnError::NameTaken(_)) => Res::NameTaken,
        Err(SpawnError::Start(e)) => Res::StartErr(e),
        Err(SpawnError::Unavailable) => Res::Unavailable,
        Err(SpawnError::WorkerStopped) => Res::WorkerStopped,
    };
    ctx.push(Ev::Op(OpRec {
        thr: m.thr,
        kind: OpKind::Spawn,
        target: Some(m.inst),
        via: m.via,
        msg: m.inst as u64,
        call: m.call,
        ret,
        res,
        name: m.name,
    }));
    ok
}

// ---------------------------------------------------------------------------
// parking executor for client threads
// ---------------------------------------------------------------------------

struct Parker(std::thread::Thread, AtomicBool);

impl Wake for Parker {
    fn wake(self: Arc<Self>) {
        self.1.store(true, SeqCst);
        self.0.unpark();
    }
}

/// Poll `f` until ready or `give_up()` says so (checked every few ms).
fn block_on_until<F: Future + Unpin>(f: &mut F, mut give_up: impl FnMut() -> bool) -> Option<F::Output> {
    let p = Arc::new(Parker(std::thread::current(), AtomicBool::new(false)));
    let w = Waker::from(p.clone());
    let mut cx = Context::from_waker(&w);
    loop {
        if let Poll::Ready(v) = Pin::new(&mut *f).poll(&mut cx) {
            return Some(v);
        }
        if !p.1.swap(false, SeqCst) {
            std::thread::park_timeout(Duration::from_millis(2));
            if !p.1.swap(false, SeqCst) && give_up() {
                // one last poll
                if let Poll::Ready(v) = Pin::new(&mut *f).poll(&mut cx) {
                    return Some(v);
                }
                return None;
            }
        }
    }
}

fn block_on_secs<F: Future>(f: F, secs: u64) -> Option<F::Output> {
    let deadline = Instant::now() + Duration::from_secs(secs);
    let mut f = Box::pin(f);
    block_on_until(&mut f, || Instant::now() > deadline)
}

// ---------------------------------------------------------------------------
// client operations
// ---------------------------------------------------------------------------

struct Client<'a> {
    ctx: &'a Arc<Ctx>,
    cluster: &'a Cluster,
    thr: u32,
    memberships: Vec<(u32, Option<Membership<Msg>>, Option<Membership<Call<Ask, Ans>>>)>,
}

fn back_check<T: Send + 'static>(r: Result<(), DeliverError<T>>, id: u64, idof: impl Fn(&T) -> u64) -> Res {
    match r {
        Ok(()) => Res::Ok,
        Err(DeliverError::Full(m)) => {
            if idof(&m) == id { Res::Full } else { Res::WrongBack(idof(&m)) }
        }
        Err(DeliverError::Closed(m)) => {
            if idof(&m) == id { Res::Closed } else { Res::WrongBack(idof(&m)) }
        }
    }
}

fn call_res(r: Result<Ans, CallError<Ask>>, id: u64) -> Res {
    match r {
        Ok(a) => Res::Reply(a.inst, a.id),
        Err(CallError::NoReply) => Res::NoReply,
        Err(CallError::Full(m)) => {
            if m.id == id { Res::Full } else { Res::WrongBack(m.id) }
        }
        Err(CallError::Closed(m)) => {
            if m.id == id { Res::Closed } else { Res::WrongBack(m.id) }
        }
    }
}

impl Client<'_> {
    /// The mailbox to use for `slot` and the instance it is known to belong to.
    fn target(&self, slot: usize, via: u8) -> Option<(Mailbox<P>, Option<u32>, u8)> {
        if via == 2 {
            if let Some(n) = &self.ctx.slots[slot].spec.name {
                if let Some(mb) = self.lookup(slot, n) {
                    let inst = self.ctx.inst_of(&mb);
                    return Some((mb, inst, 2));
                }
                return None;
            }
        }
        let cur = self.ctx.slots[slot].cur.lock().unwrap();
        cur.as_ref().map(|(i, mb)| (mb.clone(), Some(*i), if via == 2 { 0 } else { via }))
    }

    fn lookup(&self, _slot: usize, name: &str) -> Option<Mailbox<P>> {
        let c = seq();
        let r = self.cluster.lookup::<P, _>(name.to_owned());
        let ret = seq();
        let res = match &r {
            Some(mb) => Res::Found(self.ctx.inst_of(mb)),
            None => Res::NotFound,
        };
        self.ctx.push(Ev::Op(OpRec {
            thr: self.thr,
            kind: OpKind::Lookup,
            target: None,
            via: 0,
            msg: 0,
            call: c,
            ret,
            res,
            name: Some(name.to_owned()),
        }));
        r
    }

    fn rec(&self, kind: OpKind, target: Option<u32>, via: u8, msg: u64, call: u64, ret: u64, res: Res) {
        self.ctx.push(Ev::Op(OpRec { thr: self.thr, kind, target, via, msg, call, ret, res, name: None }));
    }

    fn call_common(
        &self,
        kind: OpKind,
        target: Option<u32>,
        via: u8,
        id: u64,
        fut: Pin<Box<dyn Future<Output = Result<Ans, CallError<Ask>>> + Send>>,
        wait: bool,
    ) {
        let mut fut = fut;
        let (_c, w) = vcommon::task::count_waker();
        let mut cx = Context::from_waker(&w);
        let c = seq();
        // the first poll performs the send
        let first = fut.as_mut().poll(&mut cx);
        let ret = seq();
        match first {
            Poll::Ready(r) => self.rec(kind, target, via, id, c, ret, call_res(r, id)),
            Poll::Pending => {
                self.rec(kind, target, via, id, c, ret, Res::Pending);
                if wait {
                    // wait for the answer; stop waiting soon after the target is gone
                    let ctx = self.ctx.clone();
                    let mut gone_at: Option<Instant> = None;
                    let deadline = Instant::now() + Duration::from_secs(2);
                    let r = block_on_until(&mut fut, || {
                        let gone = target.is_some_and(|t| ctx.gone[t as usize % MAX_INST].load(SeqCst));
                        if gone && gone_at.is_none() {
                            gone_at = Some(Instant::now());
                        }
                        gone_at.is_some_and(|g| g.elapsed() > Duration::from_millis(30)) || Instant::now() > deadline
                    });
                    if let Some(r) = r {
                        self.ctx.push(Ev::CallDone { msg: id, res: call_res(r, id), seq: seq() });
                        return;
                    }
                }
                self.ctx.calls.lock().unwrap().push((id, fut));
            }
        }
    }

    fn run(&mut self, op: &Op) {
        let ctx = self.ctx;
        match op {
            Op::Pause(k) => {
                for _ in 0..*k {
                    std::hint::spin_loop();
                }
                std::thread::yield_now();
            }
            Op::Send { slot, via, beh } => {
                let Some((mb, inst, via)) = self.target(*slot, *via) else { return };
                let id = ctx.msg_id();
                let m = Msg { id, beh: *beh };
                let c = seq();
                let r = if via == 1 { mb.broker::<Msg>().send(m) } else { mb.send(m) };
                let ret = seq();
                self.rec(OpKind::Send, inst, via, id, c, ret, back_check(r, id, |m| m.id));
            }
            Op::Call { slot, via, beh, wait } => {
                let Some((mb, inst, via)) = self.target(*slot, *via) else { return };
                let id = ctx.msg_id();
                let ask = Ask { id, beh: *beh };
                let fut: Pin<Box<dyn Future<Output = Result<Ans, CallError<Ask>>> + Send>> = if via == 1 {
                    let b = mb.broker::<Call<Ask, Ans>>();
                    Box::pin(async move { b.call(ask).await })
                } else {
                    Box::pin(async move { mb.call(ask).await })
                };
                self.call_common(OpKind::Call, inst, via, id, fut, *wait);
            }
            Op::Stop { slot } => {
                let Some((mb, inst, _)) = self.target(*slot, 0) else { return };
                let c = seq();
                let r = mb.stop();
                let ret = seq();
                self.rec(OpKind::Stop, inst, 0, 0, c, ret, if r { Res::StopTrue } else { Res::StopFalse });
            }
            Op::Lookup { slot } => {
                if let Some(n) = ctx.slots[*slot].spec.name.clone() {
                    let _ = self.lookup(*slot, &n);
                }
            }
            Op::Respawn { slot, plan, abandon } => {
                let sup = ctx.slots[*slot].spec.sup.and_then(|s| ctx.slots[s].cur.lock().unwrap().as_ref().map(|c| c.1.clone()));
                let st = start_spawn(self.cluster, ctx, *slot, *plan, sup.as_ref(), self.thr, 0);
                if *abandon {
                    let SpawnStarted { fut, meta } = st;
                    drop(fut);
                    ctx.push(Ev::Op(OpRec {
                        thr: meta.thr,
                        kind: OpKind::Spawn,
                        target: Some(meta.inst),
                        via: 0,
                        msg: meta.inst as u64,
                        call: meta.call,
                        ret: seq(),
                        res: Res::Abandoned,
                        name: meta.name,
                    }));
                    return;
                }
                match block_on_secs(st.fut, 20) {
                    Some(out) => {
                        finish_spawn(ctx, st.meta, out, false);
                    }
                    None => ctx.push(Ev::Op(OpRec {
                        thr: self.thr,
                        kind: OpKind::Spawn,
                        target: Some(st.meta.inst),
                        via: 0,
                        msg: st.meta.inst as u64,
                        call: st.meta.call,
                        ret: seq(),
                        res: Res::Timeout,
                        name: st.meta.name,
                    })),
                }
            }
            Op::GJoin { slot, group } => {
                let Some((mb, Some(inst), _)) = self.target(*slot, 0) else { return };
                let mid = ctx.next_mid.fetch_add(1, SeqCst);
                let c = seq();
                let (a, b) = if *group == 0 {
                    (Some(ctx.gmsg.join(mb.broker())), None)
                } else {
                    (None, Some(ctx.gcall.join(mb.broker())))
                };
                let ret = seq();
                ctx.push(Ev::Member { mid, inst, group: *group, call: c, ret });
                self.memberships.push((mid, a, b));
            }
            Op::GLeave => {
                if !self.memberships.is_empty() {
                    let (mid, a, b) = self.memberships.remove(0);
                    let c = seq();
                    if let Some(a) = a {
                        a.leave();
                    }
                    drop(b);
                    ctx.push(Ev::Leave { mid, call: c, ret: seq() });
                }
            }
            Op::GSend { beh } => {
                let id = ctx.msg_id();
                let c = seq();
                let r = ctx.gmsg.send(Msg { id, beh: *beh });
                let ret = seq();
                self.rec(OpKind::GSend, None, 3, id, c, ret, back_check(r, id, |m| m.id));
            }
            Op::GCall { beh } => {
                let id = ctx.msg_id();
                let g = ctx.gcall.clone();
                let ask = Ask { id, beh: *beh };
                let fut = Box::pin(async move { g.call(ask).await });
                self.call_common(OpKind::GCall, None, 3, id, fut, false);
            }
        }
    }

    fn leave_all(&mut self) {
        while !self.memberships.is_empty() {
            self.run(&Op::GLeave);
        }
    }
}

// ---------------------------------------------------------------------------
// poller: resolves handles and deferred calls, stamps when it saw them
// ---------------------------------------------------------------------------

fn poll_round(ctx: &Arc<Ctx>, w: &Waker) {
    let mut cx = Context::from_waker(w);
    {
        let mut hs = ctx.handles.lock().unwrap();
        let mut i = 0;
        while i < hs.len() {
            match Pin::new(&mut hs[i].1).poll(&mut cx) {
                Poll::Ready(r) => {
                    let (inst, _) = hs.swap_remove(i);
                    let res = match r {
                        Ok(ActorExit::Stopped) => ExitRes::Stopped,
                        Ok(ActorExit::Failed(f)) => ExitRes::Failed(f),
                        Err(_) => ExitRes::HandleError,
                    };
                    ctx.push(Ev::Exit { inst, res, seq: seq() });
                    ctx.exited[inst as usize % MAX_INST].store(true, SeqCst);
                }
                Poll::Pending => i += 1,
            }
        }
    }
    let mut cs = ctx.calls.lock().unwrap();
    let mut i = 0;
    while i < cs.len() {
        match cs[i].1.as_mut().poll(&mut cx) {
            Poll::Ready(r) => {
                let (id, _) = cs.swap_remove(i);
                ctx.push(Ev::CallDone { msg: id, res: call_res(r, id), seq: seq() });
            }
            Poll::Pending => i += 1,
        }
    }
}

// ---------------------------------------------------------------------------
// running one case
// ---------------------------------------------------------------------------

pub struct History {
    pub events: Vec<Ev>,
    /// calls / handles still pending after everything was torn down
    pub pending_calls: Vec<u64>,
    pub pending_handles: Vec<u32>,
    pub problems: Vec<String>,
    pub joined: bool,
    pub group_epilogue: Vec<String>,
    pub panics: Vec<(String, u32, String)>,
}

static PANICS: Mutex<Vec<(String, u32, String)>> = Mutex::new(Vec::new());

fn install_hook() {
    let prev = std::panic::take_hook();
    std::panic::set_hook(Box::new(move |info| {
        let msg = if let Some(s) = info.payload().downcast_ref::<&str>() {
            s.to_string()
        } else if let Some(s) = info.payload().downcast_ref::<String>() {
            s.clone()
        } else {
            "<non-string>".into()
        };
        let (f, l) = info.location().map(|l| (l.file().to_string(), l.line())).unwrap_or_default();
        if let Ok(mut v) = PANICS.lock() {
            if v.len() < 32 {
                v.push((f, l, msg));
            }
        }
        prev(info);
    }));
}

fn run_case(case: &Case, sched_seed: u64) -> History {
    let mut hist = History {
        events: vec![],
        pending_calls: vec![],
        pending_handles: vec![],
        problems: vec![],
        joined: false,
        group_epilogue: vec![],
        panics: vec![],
    };
    PANICS.lock().unwrap().clear();
    let mut rng = Rng::new(sched_seed);
    let mut pb = ProactorBuilder::new();
    pb.driver_type(if case.driver == 0 { DriverType::IoUring } else { DriverType::Poll });
    pb.capacity(64);
    let disp = match Dispatcher::builder()
        .worker_threads(NonZeroUsize::new(case.workers).unwrap())
        .proactor_builder(pb)
        .build()
    {
        Ok(d) => d,
        Err(e) => {
            hist.problems.push(format!("dispatcher build failed: {e}"));
            return hist;
        }
    };
    let cluster = Cluster::from_dispatcher(disp);
    let ctx = Arc::new(Ctx {
        log: Mutex::new(Vec::with_capacity(4096)),
        ptr2inst: Mutex::new(HashMap::new()),
        gone: (0..MAX_INST).map(|_| AtomicBool::new(false)).collect(),
        exited: (0..MAX_INST).map(|_| AtomicBool::new(false)).collect(),
        next_inst: AtomicU32::new(0),
        next_msg: AtomicU64::new(1),
        next_mid: AtomicU32::new(0),
        slots: case.slots.iter().map(|s| Slot { spec: s.clone(), cur: Mutex::new(None) }).collect(),
        handles: Mutex::new(vec![]),
        all_mbs: Mutex::new(vec![]),
        calls: Mutex::new(vec![]),
        respawn_budget: AtomicI32::new(case.respawns),
        gmsg: ProcessGroup::new(),
        gcall: ProcessGroup::new(),
        stop_poller: AtomicBool::new(false),
        gate_entered: AtomicBool::new(false),
        gate_open: AtomicBool::new(false),
    });

    // initial actors, in slot order (the supervisor slot first)
    for (i, s) in case.slots.iter().enumerate() {
        let sup = s.sup.and_then(|x| ctx.slots[x].cur.lock().unwrap().as_ref().map(|c| c.1.clone()));
        let st = start_spawn(&cluster, &ctx, i, s.plan, sup.as_ref(), 0, 0);
        match block_on_secs(st.fut, 20) {
            Some(out) => {
                finish_spawn(&ctx, st.meta, out, false);
            }
            None => hist.problems.push("initial spawn timed out".into()),
        }
    }

    // poller thread
    let pctx = ctx.clone();
    let poller = std::thread::spawn(move || {
        let (_c, w) = vcommon::task::count_waker();
        while !pctx.stop_poller.load(SeqCst) {
            poll_round(&pctx, &w);
            std::thread::sleep(Duration::from_micros(300));
        }
    });

    // client threads
    let gate = std::sync::Barrier::new(case.threads.len());
    let kept_memberships = std::thread::scope(|s| {
        let mut hs = vec![];
        for (ti, ops) in case.threads.iter().enumerate() {
            let (ctx, cluster, gate) = (&ctx, &cluster, &gate);
            let mut trng = rng.fork(ti as u64 + 3);
            hs.push(s.spawn(move || {
                let mut cl = Client { ctx, cluster, thr: ti as u32 + 1, memberships: vec![] };
                gate.wait();
                for op in ops {
                    if trng.chance(1, 6) {
                        std::thread::yield_now();
                    }
                    cl.run(op);
                }
                // memberships stay until the epilogue for half of the threads
                if trng.chance(1, 2) {
                    cl.leave_all();
                }
                cl.memberships
            }));
        }
        hs.into_iter().map(|h| h.join().expect("client thread panicked")).collect::<Vec<_>>()
    });

    // epilogue, single threaded from here on
    let mut main_cl = Client { ctx: &ctx, cluster: &cluster, thr: 0, memberships: vec![] };
    if case.directed == 1 {
        main_cl.thr = 1;
        main_cl.run(&Op::Send { slot: 0, via: 0, beh: Beh::Gate });
        let deadline = Instant::now() + Duration::from_secs(20);
        while !ctx.gate_entered.load(SeqCst) && Instant::now() < deadline {
            std::thread::yield_now();
        }
        if !ctx.gate_entered.load(SeqCst) {
            hist.problems.push("directed: the gate message was not handled in time".into());
        }
        main_cl.run(&Op::Call { slot: 0, via: 0, beh: AskBeh::Reply, wait: false });
        main_cl.run(&Op::Stop { slot: 0 });
        ctx.gate_open.store(true, SeqCst);
        main_cl.thr = 0;
    }
    if case.directed == 2 {
        // the initial spawn of the slot failed in pre_start as well: the name is free
        main_cl.thr = 1;
        let plain = Plan { hooks: [HookBeh { yields: 0, fail: false }; 4] };
        let mut failing = plain;
        failing.hooks[0].fail = true;
        for _ in 0..3 {
            main_cl.run(&Op::Respawn { slot: 0, plan: failing, abandon: false });
            main_cl.run(&Op::Respawn { slot: 0, plan: plain, abandon: false });
            main_cl.run(&Op::Stop { slot: 0 });
            let cur = ctx.slots[0].cur.lock().unwrap().as_ref().map(|c| c.0);
            let deadline = Instant::now() + Duration::from_secs(20);
            while let Some(i) = cur {
                if ctx.exited[i as usize % MAX_INST].load(SeqCst) || Instant::now() > deadline {
                    break;
                }
                std::thread::sleep(Duration::from_micros(200));
            }
        }
        main_cl.thr = 0;
    }
    let live: Vec<(usize, u32, Mailbox<P>)> = ctx
        .all_mbs
        .lock()
        .unwrap()
        .iter()
        .filter(|(inst, _)| !ctx.exited[*inst as usize % MAX_INST].load(SeqCst))
        .map(|(inst, mb)| (0usize, *inst, mb.clone()))
        .collect();
    // a ping per live actor: everything accepted before it must have been handled before it
    for (_, inst, mb) in &live {
        let id = ctx.msg_id();
        let mb2 = mb.clone();
        let fut = Box::pin(async move { mb2.call(Ask { id, beh: AskBeh::Reply }).await });
        main_cl.call_common(OpKind::Call, Some(*inst), 0, id, fut, true);
    }
    // group epilogue: stop one member, then check eviction and hand-back
    {
        let before = ctx.gmsg.len();
        let id = ctx.msg_id();
        let c = seq();
        let r = ctx.gmsg.send(Msg { id, beh: Beh::Plain });
        let ret = seq();
        let res = back_check(r, id, |m| m.id);
        let after = ctx.gmsg.len();
        if after > before {
            hist.group_epilogue.push(format!("group grew from {before} to {after} during a send"));
        }
        if matches!(res, Res::Closed) && after != 0 {
            hist.group_epilogue.push(format!(
                "group send returned Closed (no live member) but {after} members remain registered"
            ));
        }
        main_cl.rec(OpKind::GSend, None, 3, id, c, ret, res);
    }
    let stop_these: Vec<&(usize, u32, Mailbox<P>)> =
        live.iter().filter(|_| !(case.truncate && rng.chance(1, 2))).collect();
    let mut all_exited = !case.truncate;
    for (_, inst, mb) in &stop_these {
        let c = seq();
        let r = mb.stop();
        main_cl.rec(OpKind::Stop, Some(*inst), 0, 0, c, seq(), if r { Res::StopTrue } else { Res::StopFalse });
    }
    // wait (bounded) until the stopped ones have exited
    let deadline = Instant::now() + Duration::from_secs(20);
    for (_, inst, _) in &stop_these {
        while !ctx.exited[*inst as usize % MAX_INST].load(SeqCst) {
            if Instant::now() > deadline {
                hist.problems.push("a stopped actor did not exit within 20 s".into());
                all_exited = false;
                break;
            }
            std::thread::sleep(Duration::from_micros(200));
        }
    }
    // after every member was stopped the group must hand the message back and evict
    if all_exited {
        let id = ctx.msg_id();
        let c = seq();
        let r = ctx.gmsg.send(Msg { id, beh: Beh::Plain });
        let ret = seq();
        let res = back_check(r, id, |m| m.id);
        if matches!(res, Res::Ok | Res::Full) {
            hist.group_epilogue.push(format!("every actor has exited, yet the group send returned {res:?}"));
        }
        if ctx.gmsg.len() != 0 {
            hist.group_epilogue.push(format!("every actor has exited and a send went round, yet {} closed members remain", ctx.gmsg.len()));
        }
        main_cl.rec(OpKind::GSend, None, 3, id, c, ret, res);
    }
    drop(live);
    drop(kept_memberships);

    // tear down the cluster. While it goes down one more client keeps calling the actors that
    // are still alive (left running by `truncate`): a request overtaken by the shutdown must
    // still come back with a reply or an explicit error.
    let late: Vec<(u32, Mailbox<P>)> = ctx
        .all_mbs
        .lock()
        .unwrap()
        .iter()
        .filter(|(inst, _)| !ctx.exited[*inst as usize % MAX_INST].load(SeqCst))
        .map(|(inst, mb)| (*inst, mb.clone()))
        .collect();
    let join_done = AtomicBool::new(false);
    let late_ready = AtomicBool::new(false);
    let (c, jr, ret) = std::thread::scope(|s| {
        if !late.is_empty() {
            let (ctx, cluster, late, join_done, late_ready) = (&ctx, &cluster, &late, &join_done, &late_ready);
            s.spawn(move || {
                let cl = Client { ctx, cluster, thr: 900, memberships: vec![] };
                late_ready.store(true, SeqCst);
                let mut n = 0;
                while !join_done.load(SeqCst) && n < 400 {
                    for (inst, mb) in late {
                        let id = ctx.msg_id();
                        let mb2 = mb.clone();
                        let fut = Box::pin(async move { mb2.call(Ask { id, beh: AskBeh::Reply }).await });
                        cl.call_common(OpKind::Call, Some(*inst), 0, id, fut, false);
                        n += 1;
                    }
                }
            });
            while !late_ready.load(SeqCst) {
                std::thread::yield_now();
            }
        }
        let c = seq();
        let jr = block_on_secs(cluster.clone().join(), 30);
        let ret = seq();
        join_done.store(true, SeqCst);
        (c, jr, ret)
    });
    drop(late);
    match jr {
        Some(Ok(())) => {
            hist.joined = true;
            ctx.push(Ev::ClusterJoin { call: c, ret, ok: true });
        }
        Some(Err(e)) => {
            ctx.push(Ev::ClusterJoin { call: c, ret, ok: false });
            hist.problems.push(format!("cluster join failed: {e}"));
        }
        None => hist.problems.push("cluster join timed out".into()),
    }
    // final rounds of the poller, then stop it
    std::thread::sleep(Duration::from_millis(3));
    ctx.stop_poller.store(true, SeqCst);
    let _ = poller.join();
    let (_c, w) = vcommon::task::count_waker();
    for _ in 0..5 {
        poll_round(&ctx, &w);
        std::thread::sleep(Duration::from_millis(1));
    }
    hist.pending_calls = ctx.calls.lock().unwrap().iter().map(|c| c.0).collect();
    hist.pending_handles = ctx.handles.lock().unwrap().iter().map(|h| h.0).collect();
    // break reference cycles: drop the futures and mailboxes held by the context
    ctx.calls.lock().unwrap().clear();
    ctx.handles.lock().unwrap().clear();
    ctx.all_mbs.lock().unwrap().clear();
    for s in &ctx.slots {
        s.cur.lock().unwrap().take();
    }
    hist.events = std::mem::take(&mut *ctx.log.lock().unwrap());
    hist.panics = PANICS.lock().unwrap().clone();
    hist
}

// ---------------------------------------------------------------------------
// driver
// ---------------------------------------------------------------------------

fn eval_case(rep: &mut Report, case: &Case, gen_seed: u64, thorough: bool, sched_seed: u64) -> (bool, bool) {
    let (tx, rx) = mpsc::channel();
    let c = case.clone();
    let _ = std::thread::Builder::new().name("v19-case".into()).spawn(move || {
        let h = run_case(&c, sched_seed);
        let _ = tx.send(h);
    });
    let Ok(hist) = rx.recv_timeout(Duration::from_secs(90)) else {
        rep.inconclusive("watchdog: case did not finish in 90 s (no verdict)");
        rep.note(format!("watchdog: gen_seed {gen_seed} sched_seed {sched_seed}"));
        return (false, false);
    };
    let out = oracle::check(&hist, case.slots.len());
    for (sig, nontrivial) in &out.signatures {
        rep.eval(nontrivial.then(|| sig.clone()));
    }
    for (k, v) in &out.counters {
        rep.count(k, *v);
    }
    for (k, v) in &out.floors {
        rep.floor(k, *v);
    }
    rep.max("client_threads", case.threads.len() as i64);
    rep.max("workers", case.workers as i64);
    if rep.want_sample() {
        if let Some((sig, _)) = out.signatures.iter().find(|s| s.1) {
            rep.sample(json!({"signature": sig, "case": describe(case)}));
        }
    }
    for p in &hist.problems {
        rep.inconclusive(&format!("harness: {p}"));
    }
    for i in &out.inconclusive {
        rep.inconclusive(i);
    }
    let violated = !out.findings.is_empty();
    for (sig, what) in &out.findings {
        rep.violation(
            sig,
            what,
            json!({"gen_seed": gen_seed, "directed": case.directed, "thorough": thorough, "sched_seed": sched_seed, "reps": 300, "case": describe(case)}),
        );
    }
    (true, violated)
}

pub fn main(args: &Args) {
    install_hook();
    let leg = args.str("leg", "plain");
    let mut rep = Report::from_args("C19", &leg, args);
    rep.set_exhaustive(false);

    if let Some(path) = args.get("replay") {
        let txt = std::fs::read_to_string(path).unwrap_or_default();
        let v: Value = vcommon::serde_json::from_str(&txt).unwrap_or(Value::Null);
        let prog = &v["program"];
        match prog["gen_seed"].as_u64() {
            Some(gs) => {
                let thorough = prog["thorough"].as_bool().unwrap_or(false);
                let case = match prog["directed"].as_u64() {
                    Some(n) if n > 0 => directed_case(n as u8),
                    _ => gen_case(&mut Rng::new(gs), thorough),
                };
                let reps = args.usize("reps", prog["reps"].as_u64().unwrap_or(300) as usize);
                let s0 = prog["sched_seed"].as_u64().unwrap_or(1);
                for i in 0..reps {
                    let (go, violated) = eval_case(&mut rep, &case, gs, thorough, s0.wrapping_add(i as u64));
                    if !go || violated || rep.out_of_time() {
                        break;
                    }
                }
            }
            None => rep.inconclusive("replay file has no usable program"),
        }
        rep.finish();
        return;
    }

    let mut rng = Rng::new(args.seed()).fork(args.shard() + 1);
    let iters = args.iters(300, 3000);
    if args.shard() == 0 {
        // directed minimal histories first (deterministic)
        for n in [1u8, 2] {
            let case = directed_case(n);
            let (go, _) = eval_case(&mut rep, &case, 0, false, 1);
            if !go {
                rep.finish();
                return;
            }
        }
    }
    for _ in 0..iters {
        if rep.out_of_time() {
            break;
        }
        let gs = rng.next_u64();
        let case = gen_case(&mut Rng::new(gs), args.thorough());
        let s = rng.next_u64();
        let (go, _) = eval_case(&mut rep, &case, gs, args.thorough(), s);
        if !go {
            break;
        }
    }
    rep.finish();
}
