//! History checker for C19 (see `c19.rs` for how the history is recorded).

use std::collections::{BTreeMap, BTreeSet};

use super::{Ev, ExitRes, Fail, History, Hook, OpKind, OpRec, Res};

#[derive(Default)]
pub struct Out {
    pub findings: Vec<(String, String)>,
    pub inconclusive: Vec<String>,
    /// one per actor instance: (signature, non-trivial?)
    pub signatures: Vec<(String, bool)>,
    pub counters: Vec<(String, i64)>,
    pub floors: Vec<(String, bool)>,
}

impl Out {
    fn add(&mut self, sig: impl Into<String>, what: impl Into<String>) {
        let sig = sig.into();
        if !self.findings.iter().any(|f| f.0 == sig) {
            self.findings.push((sig, what.into()));
        }
    }
}

#[derive(Clone, Debug)]
#[allow(dead_code)] // fields are read through Debug in violation texts
enum LEv {
    HookB(Hook),
    HookE(Hook, bool),
    HB(u64, u8),
    HE(u64, bool),
    HDrop(u64),
    Gone,
}

#[derive(Default)]
struct Inst {
    slot: usize,
    name: Option<String>,
    cap: usize,
    supervised: bool,
    evs: Vec<(u64, u64, LEv)>, // (seq, tid, event)
    hook_b: BTreeMap<Hook, u64>,
    hook_e: BTreeMap<Hook, (u64, bool)>,
    gone: Option<u64>,
    exit: Option<(ExitRes, u64)>,
    /// handled client messages in handling order: (msg, begin seq, kind)
    handled: Vec<(u64, u64, u8)>,
    first_fail: Option<(u64, Fail)>,
    is_supervisor: bool,
}

impl Inst {
    /// Sequence number from which the mailbox is known to refuse sends (an
    /// upper bound of when closing began), if it ever closed on its own.
    fn closing_evidence(&self) -> Option<u64> {
        let mut v = vec![];
        if let Some(s) = self.hook_b.get(&Hook::PreStop) {
            v.push(*s);
        }
        if let Some(s) = self.gone {
            v.push(s);
        }
        v.into_iter().min()
    }
}

fn accepted(res: &Res) -> bool {
    matches!(res, Res::Ok | Res::Pending | Res::Reply(..) | Res::NoReply)
}

pub fn check(h: &History, _nslots: usize) -> Out {
    let mut out = Out::default();
    let mut insts: BTreeMap<u32, Inst> = BTreeMap::new();
    let mut ops: Vec<&OpRec> = vec![];
    let mut call_done: BTreeMap<u64, (Res, u64)> = BTreeMap::new();
    let mut sups: Vec<(u32, Option<u32>, u8, u64)> = vec![];
    let mut members: Vec<(u32, u32, u8, u64, u64)> = vec![];
    let mut leaves: BTreeMap<u32, (u64, u64)> = BTreeMap::new();
    let mut join: Option<(u64, u64, bool)> = None;

    for e in &h.events {
        match e {
            Ev::Inst { inst, slot, name, cap, supervised_by } => {
                let i = insts.entry(*inst).or_default();
                i.slot = *slot;
                i.name = name.clone();
                i.cap = *cap;
                i.supervised = supervised_by.is_some();
            }
            Ev::Op(o) => ops.push(o),
            Ev::CallDone { msg, res, seq } => {
                call_done.insert(*msg, (res.clone(), *seq));
            }
            Ev::Sup { sup, child, kind, seq } => sups.push((*sup, *child, *kind, *seq)),
            Ev::Member { mid, inst, group, call, ret } => members.push((*mid, *inst, *group, *call, *ret)),
            Ev::Leave { mid, call, ret } => {
                leaves.insert(*mid, (*call, *ret));
            }
            Ev::ClusterJoin { call, ret, ok } => join = Some((*call, *ret, *ok)),
            _ => {}
        }
    }
    for e in &h.events {
        match e {
            Ev::HookB { inst, hook, tid, seq } => {
                let i = insts.entry(*inst).or_default();
                if i.hook_b.insert(*hook, *seq).is_some() {
                    out.add(format!("C19/lifecycle/hook-ran-twice/{hook:?}"), format!("instance {inst}: {hook:?} entered twice"));
                }
                i.evs.push((*seq, *tid, LEv::HookB(*hook)));
            }
            Ev::HookE { inst, hook, ok, seq } => {
                let i = insts.entry(*inst).or_default();
                i.hook_e.insert(*hook, (*seq, *ok));
                i.evs.push((*seq, 0, LEv::HookE(*hook, *ok)));
                if !*ok && *hook != Hook::PreStart && i.first_fail.as_ref().is_none_or(|f| f.0 > *seq) {
                    i.first_fail = Some((*seq, Fail { inst: *inst, at: *hook as u8, msg: 0 }));
                }
            }
            Ev::HB { inst, msg, kind, tid, seq } => {
                let i = insts.entry(*inst).or_default();
                i.evs.push((*seq, *tid, LEv::HB(*msg, *kind)));
                if *kind == 2 {
                    i.is_supervisor = true;
                } else {
                    i.handled.push((*msg, *seq, *kind));
                }
            }
            Ev::HE { inst, msg, ok, seq } => {
                let i = insts.entry(*inst).or_default();
                i.evs.push((*seq, 0, LEv::HE(*msg, *ok)));
                if !*ok && i.first_fail.as_ref().is_none_or(|f| f.0 > *seq) {
                    i.first_fail = Some((*seq, Fail { inst: *inst, at: 4, msg: *msg }));
                }
            }
            Ev::HDrop { inst, msg, seq } => {
                insts.entry(*inst).or_default().evs.push((*seq, 0, LEv::HDrop(*msg)));
            }
            Ev::Gone { inst, seq } => {
                let i = insts.entry(*inst).or_default();
                i.gone = Some(*seq);
                i.evs.push((*seq, 0, LEv::Gone));
            }
            Ev::Exit { inst, res, seq } => {
                insts.entry(*inst).or_default().exit = Some((res.clone(), *seq));
            }
            _ => {}
        }
    }
    // whoever was named as supervisor of a spawn receives supervision events
    // (they occupy its mailbox without being client messages)
    let parents: BTreeSet<u32> = h
        .events
        .iter()
        .filter_map(|e| if let Ev::Inst { supervised_by: Some(p), .. } = e { Some(*p) } else { None })
        .collect();
    for (id, i) in insts.iter_mut() {
        if parents.contains(id) {
            i.is_supervisor = true;
        }
    }
    for i in insts.values_mut() {
        i.evs.sort_by_key(|e| e.0);
        i.handled.sort_by_key(|e| e.1);
    }
    let join_call = join.map(|j| j.0).unwrap_or(u64::MAX);

    // ---- panics ----------------------------------------------------------
    for (file, line, msg) in &h.panics {
        if file.contains("/repo/") {
            out.add(
                format!("C19/panic@{}", file.trim_start_matches("/repo/")),
                format!("panic inside compio at {file}:{line}: {msg}"),
            );
        } else {
            out.inconclusive.push(format!("harness panic at {file}:{line}: {msg}"));
        }
    }

    // ---- message index ------------------------------------------------------
    // msg id -> (op, final result)
    let mut msgs: BTreeMap<u64, (&OpRec, Res)> = BTreeMap::new();
    for o in &ops {
        if matches!(o.kind, OpKind::Send | OpKind::Call | OpKind::GSend | OpKind::GCall) {
            let fin = if o.res == Res::Pending {
                match call_done.get(&o.msg) {
                    Some((r, _)) => r.clone(),
                    None => Res::Pending,
                }
            } else {
                o.res.clone()
            };
            msgs.insert(o.msg, (o, fin));
        }
    }
    // msg id -> handlers
    let mut handled_by: BTreeMap<u64, Vec<(u32, u64)>> = BTreeMap::new();
    for (id, i) in &insts {
        for (m, s, _) in &i.handled {
            handled_by.entry(*m).or_default().push((*id, *s));
        }
    }
    let hb_seq = |m: u64| handled_by.get(&m).and_then(|v| v.first()).map(|x| x.1);

    // ---- at most once, subset of accepted, routing -------------------------
    for (m, hs) in &handled_by {
        if hs.len() > 1 {
            out.add(
                "C19/message-handled-twice",
                format!("message {m} was handled {} times (instances {:?})", hs.len(), hs.iter().map(|x| x.0).collect::<Vec<_>>()),
            );
        }
        match msgs.get(m) {
            None => out.add("C19/handled-unknown-message", format!("message {m} was handled but never sent")),
            Some((o, fin)) => {
                if !accepted(&o.res) {
                    out.add(
                        format!("C19/rejected-message-handled/{:?}", o.kind),
                        format!("message {m} was handed back to the sender ({:?}) and handled as well", o.res),
                    );
                }
                if let Some(t) = o.target {
                    if hs.iter().any(|x| x.0 != t) {
                        out.add(
                            "C19/message-misrouted",
                            format!("message {m} was sent to instance {t} but handled by {:?}", hs.iter().map(|x| x.0).collect::<Vec<_>>()),
                        );
                    }
                }
                let _ = fin;
            }
        }
    }
    for (_, (o, _)) in &msgs {
        if let Res::WrongBack(other) = o.res {
            out.add(
                format!("C19/error-returned-other-message/{:?}", o.kind),
                format!("sending message {} failed and handed back message {other}", o.msg),
            );
        }
    }

    // ---- per instance: lifecycle, FIFO, suffix ------------------------------
    let mut unhandled_suffix_seen = false;
    for (id, i) in &insts {
        if i.evs.is_empty() {
            continue;
        }
        // thread affinity
        let tids: BTreeSet<u64> = i.evs.iter().map(|e| e.1).filter(|t| *t != 0).collect();
        if tids.len() > 1 {
            out.add("C19/actor-changed-thread", format!("instance {id} ran hooks/handlers on threads {tids:?}"));
        }
        // lifecycle automaton
        #[derive(Clone, Copy, Debug, PartialEq)]
        enum S {
            Init,
            InPreStart,
            Started,
            StartFailed,
            InPostStart,
            Running,
            InHandler,
            MustStop,
            InPreStop,
            AfterPreStop,
            InPostStop,
            Done,
            Cut,
            End,
        }
        let mut s = S::Init;
        let mut truncated = false;
        for (seq, _, e) in &i.evs {
            let next = match (s, e) {
                (S::Init, LEv::HookB(Hook::PreStart)) => S::InPreStart,
                (S::InPreStart, LEv::HookE(Hook::PreStart, true)) => S::Started,
                (S::InPreStart, LEv::HookE(Hook::PreStart, false)) => S::StartFailed,
                (S::StartFailed, LEv::Gone) => S::End,
                (S::Started, LEv::HookB(Hook::PostStart)) => S::InPostStart,
                (S::Started, LEv::HookB(Hook::PreStop)) => S::InPreStop,
                (S::InPostStart, LEv::HookE(Hook::PostStart, true)) => S::Running,
                (S::InPostStart, LEv::HookE(Hook::PostStart, false)) => S::MustStop,
                (S::Running, LEv::HB(..)) => S::InHandler,
                (S::InHandler, LEv::HE(_, true)) => S::Running,
                (S::InHandler, LEv::HE(_, false)) => S::MustStop,
                (S::InHandler, LEv::HDrop(_)) => S::Cut,
                (S::Running | S::MustStop, LEv::HookB(Hook::PreStop)) => S::InPreStop,
                (S::InPreStop, LEv::HookE(Hook::PreStop, _)) => S::AfterPreStop,
                (S::AfterPreStop, LEv::HookB(Hook::PostStop)) => S::InPostStop,
                (S::InPostStop, LEv::HookE(Hook::PostStop, _)) => S::Done,
                (S::Done, LEv::Gone) => S::End,
                (
                    S::InPreStart | S::Started | S::InPostStart | S::Running | S::MustStop | S::InPreStop | S::AfterPreStop
                    | S::InPostStop | S::Cut,
                    LEv::Gone,
                ) => {
                    truncated = true;
                    if *seq < join_call {
                        out.add(
                            format!("C19/lifecycle/actor-vanished/{s:?}"),
                            format!("instance {id} was dropped in state {s:?} although the cluster had not been joined"),
                        );
                    }
                    S::End
                }
                (st, ev) => {
                    let evn = match ev {
                        LEv::HookB(h) => format!("{h:?}-begin"),
                        LEv::HookE(h, _) => format!("{h:?}-end"),
                        LEv::HB(..) => "handler-begin".into(),
                        LEv::HE(..) => "handler-end".into(),
                        LEv::HDrop(_) => "handler-dropped".into(),
                        LEv::Gone => "dropped".into(),
                    };
                    let sig = if st == S::InHandler && matches!(ev, LEv::HB(..)) {
                        "C19/handlers-overlap".to_string()
                    } else {
                        format!("C19/lifecycle/{st:?}-then-{evn}")
                    };
                    out.add(sig, format!("instance {id}: in state {st:?} saw {ev:?} (seq {seq})"));
                    break;
                }
            };
            s = next;
        }
        if s != S::End && h.joined {
            out.add(
                format!("C19/lifecycle/incomplete/{s:?}"),
                format!("instance {id} was left in state {s:?} after the cluster was joined"),
            );
        }

        // FIFO in real time + per sender program order
        let mut max_call = 0u64;
        let mut max_call_msg = 0u64;
        for (m, _, _) in &i.handled {
            let Some((o, _)) = msgs.get(m) else { continue };
            if o.ret < max_call {
                out.add(
                    format!("C19/fifo-order/{}", if o.thr == msgs[&max_call_msg].0.thr { "same-sender" } else { "real-time" }),
                    format!(
                        "instance {id} handled message {max_call_msg} (send called at {max_call}) before message {m} whose send had returned at {}",
                        o.ret
                    ),
                );
            }
            if o.call > max_call {
                max_call = o.call;
                max_call_msg = o.msg;
            }
        }
        // unhandled accepted messages must be a suffix
        let handled_set: BTreeSet<u64> = i.handled.iter().map(|x| x.0).collect();
        for (m, (o, _)) in &msgs {
            if o.target == Some(*id) && accepted(&o.res) && !handled_set.contains(m) && !handled_by.contains_key(m) {
                unhandled_suffix_seen = true;
                if o.ret < max_call {
                    out.add(
                        format!("C19/message-skipped/{:?}", o.kind),
                        format!(
                            "instance {id} never handled message {m} (accepted, send returned at {}) but handled message {max_call_msg} sent later (called at {max_call})",
                            o.ret
                        ),
                    );
                }
                if let Some(s) = i.hook_b.get(&Hook::PreStop) {
                    if o.call > *s {
                        out.add(
                            format!("C19/accepted-after-stopping/{:?}", o.kind),
                            format!("instance {id} accepted message {m} (send called at {}) after pre_stop had begun at {s}", o.call),
                        );
                    }
                }
            }
        }
        let _ = truncated;
    }

    // ---- sends: Closed / Full plausibility ---------------------------------
    let stops: Vec<&&OpRec> = ops.iter().filter(|o| o.kind == OpKind::Stop).collect();
    // upper bound of the number of messages that may sit in X's queue at some
    // point of [from, to]
    let occupancy = |x: u32, from: u64, to: u64, except: u64| -> usize {
        msgs.values()
            .filter(|(o, _)| {
                o.msg != except
                    && accepted(&o.res)
                    && o.call < to
                    && (o.target == Some(x)
                        || handled_by.get(&o.msg).is_some_and(|h| h.iter().any(|y| y.0 == x))
                        || (o.target.is_none() && !handled_by.contains_key(&o.msg)))
                    && !hb_seq(o.msg).is_some_and(|s| s < from)
            })
            .count()
    };
    // spawns whose future the spawner dropped (abandoned, or given up after the 20 s bound):
    // instance -> (seq before the spawn was started, seq after the future was dropped)
    let spawn_dropped: BTreeMap<u32, (u64, u64)> = ops
        .iter()
        .filter(|o| o.kind == OpKind::Spawn && matches!(o.res, Res::Abandoned | Res::Timeout))
        .filter_map(|o| o.target.map(|t| (t, (o.call, o.ret))))
        .collect();
    let mut closed_by_abandon = 0i64;
    let mut closed_undecided = 0i64;
    for (o, _) in msgs.values() {
        let Some(t) = o.target else { continue };
        let Some(i) = insts.get(&t) else { continue };
        match o.res {
            Res::Closed => {
                // A mailbox closes when (a) somebody calls stop(), (b) a handler or hook fails,
                // (c) the actor's task is dropped by Cluster::join, or (d) the spawner drops the
                // SpawnFuture (abandoned / timed-out spawn): spawn.rs then runs `finish` right after
                // pre_start, and `finish` raises the closing flag *before* pre_stop is entered, i.e.
                // before the actor's own first log record of the stop. Each cause is judged by when
                // it was *issued* (sequence number taken before the causing call), never by when the
                // actor logged its reaction.
                let by_stop = stops.iter().any(|s| s.target == Some(t) && s.call < o.ret);
                let by_fail = i.first_fail.as_ref().is_some_and(|f| f.0 < o.ret);
                let by_self = i.closing_evidence().is_some_and(|s| s < o.ret);
                let by_join = join_call < o.ret;
                // (d): the future was dropped somewhere in [call, ret] of the recorded spawn
                let dropped_spawn = spawn_dropped.get(&t);
                let by_abandon = dropped_spawn.is_some_and(|(_, ret)| *ret < o.ret);
                let abandon_undecided = dropped_spawn.is_some_and(|(call, ret)| *call < o.ret && o.ret <= *ret);
                if by_abandon && !(by_stop || by_fail || by_self || by_join) {
                    closed_by_abandon += 1;
                }
                if !(by_stop || by_fail || by_self || by_join || by_abandon) {
                    if abandon_undecided {
                        // the drop of the spawn future and the refused send overlap: no order, no verdict
                        closed_undecided += 1;
                    } else {
                        out.add(
                            format!("C19/closed-without-stop/{:?}", o.kind),
                            format!(
                                "message {} to instance {t} was refused as Closed (send returned at {}) although no stop, failure, \
                                 cluster join or drop of its spawn future had been issued before that",
                                o.msg, o.ret
                            ),
                        );
                    }
                }
            }
            Res::Full => {
                if !i.is_supervisor {
                    let n = occupancy(t, o.call, o.ret, o.msg);
                    if n < i.cap {
                        out.add(
                            format!("C19/full-below-capacity/{:?}", o.kind),
                            format!(
                                "message {} to instance {t} was refused as Full although at most {n} messages could be queued (capacity {})",
                                o.msg, i.cap
                            ),
                        );
                    }
                }
            }
            _ => {}
        }
    }

    // ---- calls ------------------------------------------------------------
    let pending: BTreeSet<u64> = h.pending_calls.iter().copied().collect();
    let mut saw_noreply = false;
    for (m, (o, fin)) in &msgs {
        if !matches!(o.kind, OpKind::Call | OpKind::GCall) {
            continue;
        }
        let hs = handled_by.get(m);
        match fin {
            Res::Reply(inst, id) => {
                if id != m {
                    out.add("C19/reply-for-other-call", format!("call {m} received the reply for {id}"));
                }
                if !hs.is_some_and(|v| v.iter().any(|x| x.0 == *inst)) {
                    out.add(
                        "C19/reply-from-nowhere",
                        format!("call {m} was answered by instance {inst}, which never handled it"),
                    );
                }
            }
            Res::NoReply => saw_noreply = true,
            Res::Pending => {
                if pending.contains(m) && h.joined {
                    let class = if hs.is_some() { "handled" } else { "accepted-never-handled" };
                    let gone = o.target.and_then(|t| insts.get(&t)).is_some_and(|i| i.gone.is_some());
                    out.add(
                        format!("C19/call-hang/{:?}/{class}", o.kind),
                        format!(
                            "call {m} (target {:?}, gone={gone}) was accepted and is still pending after every actor is gone, \
                             the cluster has been joined and all client threads have finished: no reply and no error",
                            o.target
                        ),
                    );
                } else {
                    out.inconclusive.push("a call stayed pending but the cluster was not torn down cleanly".into());
                }
            }
            _ => {}
        }
    }
    if h.joined {
        for i in &h.pending_handles {
            out.add(
                "C19/handle-hang-after-join",
                format!("the ActorHandle of instance {i} is still pending after Cluster::join returned"),
            );
        }
    }

    // ---- stop ----------------------------------------------------------------
    let mut granted: BTreeMap<u32, usize> = BTreeMap::new();
    for s in &stops {
        if s.res == Res::StopTrue {
            if let Some(t) = s.target {
                *granted.entry(t).or_default() += 1;
            }
        }
    }
    for (t, n) in &granted {
        if *n > 1 {
            out.add("C19/stop-granted-twice", format!("{n} stop() calls on instance {t} returned true"));
        }
        if let Some(i) = insts.get(t) {
            if h.joined && i.hook_b.get(&Hook::PreStart).is_some() && i.gone.is_none() {
                out.add("C19/stop-ignored", format!("stop() on instance {t} returned true but the actor never went away"));
            }
        }
    }

    // ---- exits -------------------------------------------------------------
    for (id, i) in &insts {
        let Some((res, _)) = &i.exit else { continue };
        let complete = i.hook_e.contains_key(&Hook::PostStop);
        match res {
            ExitRes::HandleError => {
                if complete {
                    out.add("C19/exit-lost", format!("instance {id} ran post_stop to the end but its handle reports a stopped worker"));
                }
            }
            ExitRes::Stopped | ExitRes::Failed(_) => {
                if !complete {
                    out.add("C19/exit-invented", format!("instance {id} never finished post_stop but its handle reports {res:?}"));
                } else {
                    let want = match &i.first_fail {
                        Some((_, f)) => ExitRes::Failed(f.clone()),
                        None => ExitRes::Stopped,
                    };
                    if *res != want {
                        out.add(
                            "C19/exit-kind-wrong",
                            format!("instance {id}: handle reports {res:?}, the first failure in its history gives {want:?}"),
                        );
                    }
                }
            }
        }
    }

    // ---- spawn results and names --------------------------------------------
    let spawns: Vec<&&OpRec> = ops.iter().filter(|o| o.kind == OpKind::Spawn).collect();
    let release_upper = |o: &OpRec| -> u64 {
        match &o.res {
            Res::NameTaken => 0,
            Res::StartErr(_) => o.ret,
            Res::Spawned => {
                let inst = o.msg as u32;
                let mut b = u64::MAX;
                if let Some(i) = insts.get(&inst) {
                    if let Some((_, s)) = &i.exit {
                        b = b.min(*s);
                    }
                }
                for (_, child, kind, s) in &sups {
                    if *child == Some(inst) && *kind != 0 {
                        b = b.min(*s);
                    }
                }
                b
            }
            _ => u64::MAX,
        }
    };
    let mut saw_name_taken = false;
    let mut saw_respawn_ok = false;
    let mut names_used: BTreeMap<String, usize> = BTreeMap::new();
    for o in &spawns {
        let inst = o.msg as u32;
        let Some(i) = insts.get(&inst) else { continue };
        match &o.res {
            Res::Spawned => {
                if let Some(n) = &o.name {
                    let c = names_used.entry(n.clone()).or_default();
                    *c += 1;
                    if *c > 1 {
                        saw_respawn_ok = true;
                    }
                }
                if !i.hook_e.get(&Hook::PreStart).is_some_and(|(s, ok)| *ok && *s < o.ret) {
                    out.add("C19/spawn-ok-before-pre-start", format!("spawn of instance {inst} returned Ok before pre_start had succeeded"));
                }
            }
            Res::StartErr(f) => {
                let ok = f.inst == inst && f.at == 0 && i.hook_e.get(&Hook::PreStart).is_some_and(|(_, ok)| !*ok);
                if !ok {
                    out.add("C19/spawn-start-error-wrong", format!("spawn of instance {inst} returned Start({f:?}) which is not its pre_start failure"));
                }
            }
            Res::NameTaken => {
                saw_name_taken = true;
                if !i.evs.is_empty() {
                    out.add("C19/name-taken-but-started", format!("spawn of instance {inst} returned NameTaken yet its hooks ran"));
                }
                let legit = spawns.iter().any(|p| {
                    p.msg != o.msg && p.name == o.name && p.res != Res::NameTaken && p.call < o.ret && release_upper(p) > o.call
                });
                if !legit {
                    out.add(
                        format!("C19/name-not-released/{}", if o.via == 4 { "supervisor-respawn" } else { "client-respawn" }),
                        format!(
                            "spawn of instance {inst} as {:?} returned NameTaken although every earlier holder of the name had exited (exit observed) and no other spawn overlapped",
                            o.name
                        ),
                    );
                }
            }
            Res::Unavailable | Res::WorkerStopped => {
                if join_call > o.ret {
                    out.add(
                        format!("C19/spawn-refused-before-join/{:?}", o.res),
                        format!("spawn of instance {inst} returned {:?} although the cluster had not been joined", o.res),
                    );
                }
            }
            Res::Timeout => out.inconclusive.push("a spawn did not finish within 20 s".into()),
            _ => {}
        }
    }
    // at most one live instance per name
    let mut by_name: BTreeMap<&str, Vec<(u64, u64, u32)>> = BTreeMap::new();
    for (id, i) in &insts {
        let (Some(n), Some(b)) = (&i.name, i.hook_b.get(&Hook::PreStart)) else { continue };
        let end = i
            .hook_e
            .get(&Hook::PostStop)
            .map(|x| x.0)
            .or_else(|| i.hook_e.get(&Hook::PreStart).filter(|x| !x.1).map(|x| x.0))
            .or(i.gone)
            .unwrap_or(u64::MAX);
        by_name.entry(n.as_str()).or_default().push((*b, end, *id));
    }
    for (n, v) in by_name.iter_mut() {
        v.sort();
        for w in v.windows(2) {
            if w[1].0 < w[0].1 {
                out.add(
                    "C19/two-live-instances-per-name",
                    format!("name {n:?}: instance {} entered pre_start at {} while instance {} was still alive (its last hook ended at {})", w[1].2, w[1].0, w[0].2, w[0].1),
                );
            }
        }
    }
    // lookups
    for o in ops.iter().filter(|o| o.kind == OpKind::Lookup) {
        match &o.res {
            Res::Found(Some(x)) => {
                let Some(i) = insts.get(x) else { continue };
                if i.name != o.name {
                    out.add("C19/lookup-wrong-name", format!("lookup({:?}) returned instance {x} registered as {:?}", o.name, i.name));
                }
                if !i.hook_e.get(&Hook::PreStart).is_some_and(|(s, ok)| *ok && *s < o.ret) {
                    out.add(
                        "C19/lookup-before-start-up",
                        format!("lookup({:?}) returned instance {x} whose pre_start had not succeeded yet", o.name),
                    );
                }
                if i.exit.as_ref().is_some_and(|(_, s)| *s < o.call) {
                    out.add(
                        "C19/lookup-returned-exited-instance",
                        format!("lookup({:?}) returned instance {x} after its exit had been reported", o.name),
                    );
                }
            }
            Res::Found(None) => out.add(
                "C19/lookup-before-start-up/unregistered",
                format!("lookup({:?}) returned a mailbox whose actor had not even entered pre_start", o.name),
            ),
            _ => {}
        }
    }

    // ---- supervision events ---------------------------------------------------
    let mut per_child: BTreeMap<u32, Vec<(u8, u64)>> = BTreeMap::new();
    for (_, child, kind, s) in &sups {
        if let Some(c) = child {
            per_child.entry(*c).or_default().push((*kind, *s));
        }
    }
    for (c, v) in per_child.iter_mut() {
        v.sort_by_key(|x| x.1);
        let Some(i) = insts.get(c) else { continue };
        let mut seen = [0; 3];
        for (k, s) in v.iter() {
            seen[*k as usize] += 1;
            match k {
                0 => {
                    if !i.hook_e.get(&Hook::PostStart).is_some_and(|(e, ok)| *ok && *e < *s) {
                        out.add("C19/supervision/started-before-post-start", format!("child {c}: ActorStarted delivered before post_start succeeded"));
                    }
                    if seen[1] + seen[2] > 0 {
                        out.add("C19/supervision/started-after-terminal", format!("child {c}: ActorStarted after its terminal event"));
                    }
                }
                _ => {
                    if !i.hook_e.get(&Hook::PostStop).is_some_and(|(e, _)| *e < *s) {
                        out.add("C19/supervision/terminal-before-post-stop", format!("child {c}: terminal event delivered before post_stop ended"));
                    }
                    let failed = i.first_fail.is_some();
                    if failed != (*k == 2) {
                        out.add("C19/supervision/terminal-kind-wrong", format!("child {c}: terminal event kind {k} but failed={failed}"));
                    }
                }
            }
        }
        if seen.iter().any(|n| *n > 1) || seen[1] + seen[2] > 1 {
            out.add("C19/supervision/event-repeated", format!("child {c}: supervision events {v:?}"));
        }
    }

    // ---- groups ----------------------------------------------------------------
    for (m, (o, _)) in &msgs {
        if !matches!(o.kind, OpKind::GSend | OpKind::GCall) {
            continue;
        }
        let g = if o.kind == OpKind::GSend { 0 } else { 1 };
        let during = |x: u32, strict: bool| {
            members.iter().any(|(mid, inst, grp, call, ret)| {
                *inst == x && *grp == g && {
                    let l = leaves.get(mid);
                    if strict {
                        *ret < o.call && l.is_none_or(|l| l.0 > o.ret)
                    } else {
                        *call < o.ret && l.is_none_or(|l| l.1 > o.call)
                    }
                }
            })
        };
        if let Some(hs) = handled_by.get(m) {
            for (x, _) in hs {
                if !during(*x, false) {
                    out.add(
                        format!("C19/group-routed-to-non-member/{:?}", o.kind),
                        format!("group message {m} was handled by instance {x}, which was not a member at any point of the call"),
                    );
                }
            }
        }
        if matches!(o.res, Res::Full | Res::Closed) {
            // a member that was a member, open and with room during the whole call?
            for (x, i) in &insts {
                if i.is_supervisor || !during(*x, true) {
                    continue;
                }
                let open = i.hook_e.get(&Hook::PreStart).is_some_and(|(s, ok)| *ok && *s < o.call)
                    && !stops.iter().any(|s| s.target == Some(*x) && s.call < o.ret)
                    && !i.first_fail.as_ref().is_some_and(|f| f.0 < o.ret)
                    && !i.closing_evidence().is_some_and(|s| s < o.ret)
                    && join_call > o.ret;
                if open && occupancy(*x, o.call, o.ret, o.msg) < i.cap {
                    out.add(
                        format!("C19/group-handed-back-despite-available-member/{:?}", o.res),
                        format!("group message {m} came back as {:?} although member instance {x} was live and had room during the whole call", o.res),
                    );
                }
            }
        }
    }
    for g in &h.group_epilogue {
        out.add("C19/group-eviction", g.clone());
    }

    // ---- coverage signatures ---------------------------------------------------
    let mut n_trunc = 0;
    let mut n_fail = 0;
    for (id, i) in &insts {
        if i.evs.is_empty() {
            continue;
        }
        // operations on this instance, in order of their call
        let mut on: Vec<&OpRec> = ops
            .iter()
            .copied()
            .filter(|o| {
                o.target == Some(*id) && !matches!(o.kind, OpKind::Spawn)
                    || handled_by.get(&o.msg).is_some_and(|h| h.iter().any(|x| x.0 == *id))
                        && matches!(o.kind, OpKind::GSend | OpKind::GCall)
            })
            .collect();
        on.sort_by_key(|o| o.call);
        let threads: BTreeSet<u32> = on.iter().map(|o| o.thr).collect();
        let mut racers: BTreeSet<String> = BTreeSet::new();
        for k in 0..on.len() {
            let other = |j: usize| on.get(j).is_some_and(|p| p.thr != on[k].thr);
            if (k > 0 && other(k - 1)) || other(k + 1) {
                racers.insert(format!("{:?}", on[k].kind).to_lowercase());
            }
        }
        let first_stop = on.iter().filter(|o| o.kind == OpKind::Stop).map(|o| o.call).min();
        let stop_race = first_stop.is_some_and(|s| on.iter().any(|o| o.kind != OpKind::Stop && o.ret > s));
        let fail_race = i.first_fail.as_ref().is_some_and(|f| on.iter().any(|o| o.ret > f.0));
        if stop_race {
            racers.insert("stop-vs-send".into());
        }
        if fail_race {
            racers.insert("fail-vs-send".into());
        }
        let exit = if i.hook_e.get(&Hook::PreStart).is_some_and(|x| !x.1) {
            "start-failed"
        } else if !i.hook_e.contains_key(&Hook::PostStop) {
            n_trunc += 1;
            "truncated"
        } else if !i.hook_b.contains_key(&Hook::PostStart) {
            "abandoned-spawn"
        } else {
            match &i.first_fail {
                Some((_, f)) if f.at == 4 => {
                    n_fail += 1;
                    "failed-handler"
                }
                Some(_) => "failed-hook",
                None => "stopped",
            }
        };
        let sig = format!(
            "named={},cap={},sup={},racers=[{}],exit={exit}",
            i.name.is_some() as u8,
            i.cap,
            if i.is_supervisor { "parent" } else if i.supervised { "child" } else { "none" },
            racers.into_iter().collect::<Vec<_>>().join("+"),
        );
        let nontrivial = threads.iter().filter(|t| **t != 0).count() >= 2 || stop_race || fail_race;
        out.signatures.push((sig, nontrivial));
    }
    let n_msgs = msgs.len() as i64;
    out.counters.push(("messages_sent".into(), n_msgs));
    out.counters.push(("messages_handled".into(), handled_by.len() as i64));
    out.counters.push(("instances".into(), insts.values().filter(|i| !i.evs.is_empty()).count() as i64));
    out.counters.push(("supervision_events".into(), sups.len() as i64));
    out.counters.push(("closed_explained_by_dropped_spawn_future".into(), closed_by_abandon));
    out.counters.push(("closed_order_undecided".into(), closed_undecided));
    out.floors.push(("saw-unhandled-suffix-at-stop".into(), unhandled_suffix_seen));
    out.floors.push(("saw-full".into(), msgs.values().any(|m| m.0.res == Res::Full)));
    out.floors.push(("saw-closed".into(), msgs.values().any(|m| m.0.res == Res::Closed)));
    out.floors.push(("saw-name-taken".into(), saw_name_taken));
    out.floors.push(("saw-respawn-under-same-name".into(), saw_respawn_ok));
    out.floors.push(("saw-supervisor-respawn".into(), spawns.iter().any(|o| o.via == 4 && o.res == Res::Spawned)));
    out.floors.push(("saw-truncated-by-join".into(), n_trunc > 0));
    out.floors.push(("saw-handler-failure".into(), n_fail > 0));
    out.floors.push(("saw-call-noreply".into(), saw_noreply));
    out.floors.push(("saw-group-delivery".into(), msgs.values().any(|m| m.0.kind == OpKind::GSend && m.0.res == Res::Ok)));
    out.floors.push(("saw-group-handback".into(), msgs.values().any(|m| m.0.kind == OpKind::GSend && matches!(m.0.res, Res::Full | Res::Closed))));
    out.floors.push(("saw-lookup-hit".into(), ops.iter().any(|o| matches!(o.res, Res::Found(_)))));
    out
}
