"""C19 — actors: serial FIFO handling, ordered lifecycle, unique names."""

PROP = {
    "level": "exploration",
    "level_text": ("Seeded random programs (clusters of 1-4 workers on io_uring/polling, 1-4 actor slots named or unnamed with "
                   "capacities 1-8, optional supervisor with a respawn budget, 1-6 client threads doing send / call / stop / "
                   "lookup / respawn / abandoned spawn / broker sends / group join-leave-send-call, one more caller racing "
                   "Cluster::join against the actors left alive, two directed minimal histories (call accepted before a stop; "
                   "retry under the same name right after a reported failed start), handlers that yield, sleep, "
                   "fail, stop themselves, defer or withhold replies, hooks that yield or fail, optional Cluster::join with "
                   "live actors) run on the real compio-actor crate; every hook, handler and client operation is recorded "
                   "with one global sequence counter and the finished history is checked per actor instance; the same under "
                   "ThreadSanitizer. Interleavings come from OS scheduling under parallel shards: exploration, not proof."),
    "level_note": ("Trusted: the harness log (mutex-protected vector, SeqCst sequence counter), the identification of a "
                   "mailbox's instance by the address of its registered name (one Arc<str> per spawn, registered at the "
                   "first line of pre_start). Pending calls/handles are judged hung only after Cluster::join returned Ok, "
                   "every client thread was joined and further polls made no progress (logical quiescence); a watchdog "
                   "alone is inconclusive. Tolerated as legitimate: stop preferred over queued messages (accepted but "
                   "unhandled messages must form a suffix of the acceptance order), best-effort supervision events, "
                   "actors cut short by Cluster::join."),
    "technique": "runtime monitoring: linearisation-style history checker over event logs of real multi-threaded runs, ThreadSanitizer",
    "rule": ("per instance: lifecycle automaton pre_start (post_start handle*)? pre_stop post_stop with each hook once, "
             "handlers bracketed and never overlapping, one thread; handled ids are accepted ids, at most once over all "
             "instances, at the instance they were sent to; handling order respects real time (send(a) returned before "
             "send(b) was called => a first, which includes per-sender order); accepted-unhandled ids are a suffix; nothing "
             "accepted after pre_stop began; Closed only if a stop, a handler/hook failure, Cluster::join or the drop of the "
             "instance's spawn future (abandoned spawn) was issued before the refused send returned (judged by the sequence "
             "number taken before the causing call; an overlap is counted, not judged), Full only when the possible queue content "
             "reaches the capacity; call => reply of the handling instance with the same id, or an explicit error, never "
             "pending at quiescence; at most one stop() returns true; handle result = first failure of the history; names: "
             "hook intervals of same-named instances are disjoint, lookup only returns instances whose pre_start returned "
             "Ok before and whose exit was not yet reported, NameTaken needs an overlapping other holder (exit observation "
             "or the supervisor's terminal event ends a hold); supervision events match the child's history; group: handled "
             "by a member during the call, hand-back only if no member was live with room for the whole call, closed members "
             "evicted. Non-trivial instance = >= 2 client threads or stop/failure racing sends; distinct = (named?, capacity, "
             "supervision role, set of interleaved operation kinds, exit kind)"),
    "assumptions": [
        "clusters use the dispatcher in concurrent mode (the default used by Cluster::new)",
        "replay regenerates the program from its generator seed (stable as long as the harness is unchanged) and re-runs it with many schedules",
    ],
    "legs": [
        {"name": "plain", "build": "plain", "pkg": "vrt", "cmd": "c19", "shards": 16, "schedule_dependent": True,
         "args": {"quick": ["--iters", 250, "--budget-ms", 50000],
                  "thorough": ["--iters", 1000000, "--budget-ms", 360000]},
         "timeout_s": {"quick": 240, "thorough": 900}},
        {"name": "tsan", "build": "tsan", "pkg": "vrt", "cmd": "c19", "shards": {"quick": 6, "thorough": 8},
         "schedule_dependent": True,
         "args": {"quick": ["--iters", 60, "--budget-ms", 45000],
                  "thorough": ["--iters", 1000000, "--budget-ms", 300000]},
         "timeout_s": {"quick": 300, "thorough": 900}},
    ],
}
