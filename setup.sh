#!/bin/sh
# Build every harness target once, offline, from files on disk only.
set -e
cd "$(dirname "$0")"
exec python3 tools/setup.py
