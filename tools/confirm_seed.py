#!/usr/bin/env python3
"""Coordinator-side confirmation of a seeded change, in a scratch worktree.

    tools/confirm_seed.py <ID> <n> [--worktree DIR] [--src DIR]

Takes the delivery in /tmp/seed/out/<ID>/<n> (or --src), and in the scratch
worktree /tmp/seed/<ID> (or --worktree; never /repo) checks that
  (a) the demonstration passes on the unchanged code,
  (b) the patch applies and everything compiles,
  (c) the demonstration fails with the patch,
  (d) the existing test suite (whole workspace, demo binaries excluded) still
      passes with the patch.
On success the change is stored as /verif/seeded/<ID>/<n>/ (patch.diff, demo
file(s), demo_path.txt, meta.json, confirm.json). The worktree is left clean.
"""
import glob
import json
import os
import re
import shutil
import subprocess
import sys
import time

ROOT = os.path.dirname(os.path.dirname(os.path.abspath(__file__)))


def sh(cmd, cwd, timeout=3600):
    env = dict(os.environ, CARGO_NET_OFFLINE="true")
    env.pop("RUSTFLAGS", None)
    env.pop("CARGO_TARGET_DIR", None)
    t0 = time.time()
    try:
        r = subprocess.run(cmd, shell=True, cwd=cwd, capture_output=True, text=True, timeout=timeout, env=env)
        return r.returncode, r.stdout + r.stderr, time.time() - t0
    except subprocess.TimeoutExpired as e:
        return 124, (e.stdout or b"").decode(errors="replace") + (e.stderr or b"").decode(errors="replace") + "\n[timeout]", time.time() - t0


def main():
    pid, n = sys.argv[1], sys.argv[2]
    wt = f"/tmp/seed/{pid}"
    src = f"/tmp/seed/out/{pid}/{n}"
    a = sys.argv[3:]
    while a:
        if a[0] == "--worktree":
            wt = a[1]
        elif a[0] == "--src":
            src = a[1]
        a = a[2:]
    assert not os.path.realpath(wt).startswith("/repo") and not os.path.realpath(wt).startswith("/verif")
    demos = sorted(glob.glob(os.path.join(src, "*.rs")))
    text = open(os.path.join(src, "demo_path.txt")).read()
    placed = []
    for d in demos:
        base = os.path.basename(d)
        m = re.search(r"((?:compio[a-z-]*)/(?:tests|examples)/" + re.escape(base) + ")", text)
        if not m:
            sys.exit(f"cannot place {base}: not named in demo_path.txt")
        placed.append((d, m.group(1)))
    # demo command: explicit override or the nextest filter on the demo binaries
    over = os.path.join(src, "demo_cmd.txt")
    if os.path.exists(over):
        demo_cmd = open(over).read().strip()
    else:
        bins = " | ".join(f"binary({os.path.splitext(os.path.basename(p))[0]})" for _, p in placed)
        demo_cmd = f"cargo nextest run --workspace --offline --no-fail-fast -E '{bins}'"
    sh("git checkout -- . && git clean -fdq -e target", wt)
    # confirm against the tree the checks run on: /repo's current HEAD
    head = sh("git rev-parse HEAD", "/repo")[1].strip()
    sh(f"git checkout -q --detach {head}", wt)
    res = {"property": pid, "n": n, "demo_cmd": demo_cmd, "worktree_head": sh("git rev-parse --short HEAD", wt)[1].strip(),
           "repo_head": sh("git rev-parse --short HEAD", "/repo")[1].strip()}
    for d, p in placed:
        os.makedirs(os.path.dirname(os.path.join(wt, p)), exist_ok=True)
        shutil.copy(d, os.path.join(wt, p))
    ok = True
    try:
        rc, out, dt = sh(demo_cmd, wt, 1800)
        res["demo_unpatched"] = {"exit": rc, "wall_s": round(dt), "tail": out[-1500:]}
        print(f"[{pid}/{n}] demo on unchanged code: exit {rc} ({dt:.0f}s)")
        ok &= rc == 0
        rc, out, _ = sh(f"git apply {os.path.join(src, 'patch.diff')}", wt)
        if rc != 0:
            res["apply"] = out
            print(f"[{pid}/{n}] patch does not apply: {out}")
            ok = False
        else:
            rc, out, dt = sh(demo_cmd, wt, 1800)
            res["demo_patched"] = {"exit": rc, "wall_s": round(dt), "tail": out[-2500:]}
            print(f"[{pid}/{n}] demo with patch: exit {rc} ({dt:.0f}s)")
            ok &= rc not in (0, 124) or (rc == 124 and "hang" in text.lower())
            excl = " & ".join(f"not binary({os.path.splitext(os.path.basename(p))[0]})" for _, p in placed)
            suite = f"cargo nextest run --workspace --offline --no-fail-fast --test-threads 8 -E '{excl}'"
            rc, out, dt = sh(suite, wt, 3600)
            summ = [l for l in out.splitlines() if "tests run:" in l or l.strip().startswith("FAIL") or "error[" in l or l.startswith("error")]
            res["suite_patched"] = {"cmd": suite, "exit": rc, "wall_s": round(dt), "summary": summ[-15:]}
            print(f"[{pid}/{n}] suite with patch: exit {rc} ({dt:.0f}s) {summ[-1:]}")
            if rc != 0:
                # the wall-clock quic test flakes under load: re-run the failures alone
                failed = sorted(set(re.findall(r"^\s+(?:FAIL|TIMEOUT|SIGABRT|SIGSEGV|LEAK-FAIL)\s+\[[^\]]*\]\s+(?:\(\S+\)\s+)?(\S+) (\S+)$", out, re.M)))
                res["suite_patched"]["failed"] = failed
                still = []
                for binid, test in failed:
                    rc2, out2, _ = sh(f"cargo nextest run --workspace --offline -E 'test(={test})'", wt, 900)
                    if rc2 != 0:
                        still.append(test)
                res["suite_patched"]["failed_when_alone"] = still
                print(f"[{pid}/{n}]   failed under load: {failed}; still failing alone: {still}")
                ok &= not still and bool(failed)
    finally:
        sh("git checkout -- . && git clean -fdq -e target", wt)
    res["confirmed"] = bool(ok)
    dst = os.path.join(ROOT, "seeded", pid, n)
    if ok:
        os.makedirs(dst, exist_ok=True)
        for f in ["patch.diff", "demo_path.txt", "meta.json"] + [os.path.basename(d) for d in demos] + (["demo_cmd.txt"] if os.path.exists(over) else []):
            shutil.copy(os.path.join(src, f), os.path.join(dst, f))
        with open(os.path.join(dst, "confirm.json"), "w") as f:
            json.dump(res, f, indent=1)
    else:
        with open(os.path.join(src, "confirm-failed.json"), "w") as f:
            json.dump(res, f, indent=1)
    print(f"[{pid}/{n}] {'CONFIRMED -> ' + dst if ok else 'NOT CONFIRMED (see ' + src + '/confirm-failed.json)'}")
    sys.exit(0 if ok else 2)


if __name__ == "__main__":
    main()
