#!/usr/bin/env python3
"""Regenerate /verif/MANIFEST.json from checks/props.py (single source of truth)."""
import json
import os
import subprocess
import sys

ROOT = os.path.dirname(os.path.dirname(os.path.abspath(__file__)))
sys.path.insert(0, os.path.join(ROOT, "checks"))
import props  # noqa: E402

ALL = [f"C{i:02d}" for i in range(1, 21)]

hook_commits = subprocess.run(
    ["git", "-C", "/repo", "log", "--format=%H %s", "--reverse"], capture_output=True, text=True
).stdout.splitlines()
hook_commits = [l.split()[0] for l in hook_commits if " verif hook " in " " + l.split(" ", 1)[1] + " " or l.split(" ", 1)[1].startswith("verif hook")]

checks = []
for pid in ALL:
    if pid not in props.PROPS:
        continue
    p = props.PROPS[pid]
    checks.append({
        "property_id": pid,
        "quick_cmd": f"./check {pid} quick",
        "thorough_cmd": f"./check {pid} thorough",
        "evidence_file": f"/verif/evidence/{pid}.json",
        "replay_cmd_template": "./check --replay {path}",
        "engine": ", ".join(sorted({l["build"] for l in p["legs"]})),
        "level_claimed": {"category": p["level"], "text": p["level_text"], "design_ref": p.get("design_ref", f"DESIGN.md 3.{pid}")},
        "level_note": p["level_note"],
        "technique": p["technique"],
    })

na = [{"property_id": pid, "reason": props.NOT_APPLICABLE.get(pid, "check not built yet in this round; see DESIGN.md")}
      for pid in ALL if pid not in props.PROPS]

manifest = {
    "version": 1,
    "setup_cmd": "./setup.sh",
    "hooks": {
        "guard": "compio_verif",
        "enable": "RUSTFLAGS='--cfg compio_verif' (a rustc cfg; set by ./check for every harness build; hooks live in compio-driver only)",
        "baseline_off_cmd": "cd /repo && cargo nextest run --workspace --no-fail-fast --tool-config-file pb:/w/lib/nextest.toml --profile pb --test-threads 8 --offline",
        "source_commits": hook_commits,
        "add_only": True,
    },
    "engines": [
        {"name": "plain", "path": "/verif/target/plain", "kind_free_text": "native harness build with hooks, debug assertions and overflow checks on; behavioural monitors, event-log checkers, canary allocator",
         "serves_properties": [c["property_id"] for c in checks]},
        {"name": "plain-iour / plain-poll", "path": "/verif/target/plain-iour, /verif/target/plain-poll",
         "kind_free_text": "the plain build with compio-driver compiled in its single-driver configurations (io-uring only = compio's default build; polling only): same workloads and monitors over the #[cfg(not(fusion))] glue",
         "serves_properties": [pid for pid in ALL if pid in props.PROPS and any(l["build"] in ("plain-iour", "plain-poll") for l in props.PROPS[pid]["legs"])]},
        {"name": "miri", "path": "cargo +nightly miri run (target dir /verif/target/miri)", "kind_free_text": "undefined-behaviour / data-race / leak interpreter with weak-memory emulation and seeded schedules",
         "serves_properties": [pid for pid in ALL if pid in props.PROPS and any(l["build"] == "miri" for l in props.PROPS[pid]["legs"])]},
        {"name": "asan", "path": "/verif/target/asan", "kind_free_text": "AddressSanitizer build (nightly -Zsanitizer=address)",
         "serves_properties": [pid for pid in ALL if pid in props.PROPS and any(l["build"] == "asan" for l in props.PROPS[pid]["legs"])]},
        {"name": "tsan", "path": "/verif/target/tsan", "kind_free_text": "ThreadSanitizer build (nightly -Zsanitizer=thread -Zbuild-std)",
         "serves_properties": [pid for pid in ALL if pid in props.PROPS and any(l["build"] == "tsan" for l in props.PROPS[pid]["legs"])]},
    ],
    "checks": checks,
    "not_applicable": na,
    "notes": "Runtime monitoring and sanitizers only. ./check <id> <tier> rebuilds the harness against /repo's working tree, runs sharded harness processes, merges their reports, applies known_findings.json and writes evidence/<id>.json. Inconclusive programs (watchdog, harness error, unsupported) are counted in coverage.inconclusive and never reported as violations.",
}
with open(os.path.join(ROOT, "MANIFEST.json"), "w") as f:
    json.dump(manifest, f, indent=1)
print(f"MANIFEST.json: {len(checks)} checks, {len(na)} not_applicable, {len(hook_commits)} hook commits")
