#!/usr/bin/env python3
"""Merge /verif/inbox/Cxx.json (signature lists written by the module authors)
into /verif/known_findings.json. Never run by a check; a maintenance tool."""
import glob
import json
import os
import subprocess
import sys

ROOT = os.path.dirname(os.path.dirname(os.path.abspath(__file__)))
kf_path = os.path.join(ROOT, "known_findings.json")
kf = json.load(open(kf_path))
F = kf["findings"]
have = {(f["property"], f["signature"]) for f in F}
log = subprocess.run(["git", "-C", "/repo", "log", "--format=%h %s"], capture_output=True, text=True).stdout.splitlines()
fixes = [(l.split()[0], l.split(" ", 1)[1]) for l in log if l.split(" ", 1)[1].startswith("fix:")]

# keyword -> fix commit subject fragment, used when an entry has no "commit"
HINTS = json.load(open(os.path.join(ROOT, "tools", "fix_hints.json"))) if os.path.exists(os.path.join(ROOT, "tools", "fix_hints.json")) else {}


def commit_for(prop, sig, what):
    for key, frag in HINTS.get(prop, {}).items():
        if key in sig or key in what:
            for h, subj in fixes:
                if frag in subj:
                    return h
    return None


added = 0
for path in sorted(glob.glob(os.path.join(ROOT, "inbox", "C*.json"))):
    prop = os.path.basename(path)[:3]
    for e in json.load(open(path)):
        key = (prop, e["signature"])
        if key in have:
            continue
        ent = {"property": prop, "status": e["status"], "signature": e["signature"], "what": e.get("what", "")}
        if e["status"] == "fixed":
            c = e.get("commit") or commit_for(prop, e["signature"], e.get("what", ""))
            if c:
                ent["commit"] = c
        F.append(ent)
        have.add(key)
        added += 1
json.dump(kf, open(kf_path, "w"), indent=1)
print(f"merged {added} entries; total {len(F)}")
missing = [f for f in F if f["status"] == "fixed" and not f.get("commit")]
if missing:
    print("fixed entries without commit:", len(missing))
    for m in missing[:10]:
        print("  ", m["property"], m["signature"])
