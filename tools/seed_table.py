#!/usr/bin/env python3
"""Regenerate the seeded-change table of DESIGN.md (section 9.6) from
seeded/<id>/<n>/{meta.json,result.json} and seeded/notes.json."""
import glob
import json
import os
import re

ROOT = os.path.dirname(os.path.dirname(os.path.abspath(__file__)))
notes = json.load(open(os.path.join(ROOT, "seeded", "notes.json")))
rows = []
for d in sorted(glob.glob(os.path.join(ROOT, "seeded", "C*", "*"))):
    if not os.path.isdir(d):
        continue
    pid, n = d.split("/")[-2:]
    key = f"{pid}/{n}"
    note = notes.get(key, {})
    meta = json.load(open(os.path.join(d, "meta.json"))) if os.path.exists(os.path.join(d, "meta.json")) else {}
    res = json.load(open(os.path.join(d, "result.json"))) if os.path.exists(os.path.join(d, "result.json")) else None
    change = note.get("change") or (meta.get("summary", "")[:220])
    if res:
        r = res["results"].get(pid, {})
        sigs = []
        for line in r.get("signatures", []):
            m = re.match(r"\s*(C\d\d/[^:\s]+)", line)
            if m:
                cls = "/".join(m.group(1).split("/")[1:3])
                if cls not in sigs:
                    sigs.append(cls)
        caught = ("**caught** (%s; %ss)" % (", ".join("`%s`" % x for x in sigs[:3]) or "VIOLATION", int(r.get("wall_s", 0)))) if r.get("exit") == 1 and r.get("violations") else "**missed**"
    else:
        caught = "not run yet"
    rows.append("| %s | %s | %s | %s | %s |" % (key, change.replace("|", "/").replace("\n", " "), note.get("first_try", "caught"), caught, note.get("added", "—")))
p = os.path.join(ROOT, "DESIGN.md")
s = open(p).read()
a = s.index("<!-- SEEDTABLE-BEGIN -->") + len("<!-- SEEDTABLE-BEGIN -->\n")
b = s.index("<!-- SEEDTABLE-END -->")
s = s[:a] + "\n".join(rows) + "\n" + s[b:]
open(p, "w").write(s)
print(len(rows), "rows")
