#!/usr/bin/env python3
"""Pre-build every (build, package) pair the registered checks use."""
import importlib.machinery
import importlib.util
import os
import sys

ROOT = os.path.dirname(os.path.dirname(os.path.abspath(__file__)))
spec = importlib.util.spec_from_loader("check", importlib.machinery.SourceFileLoader("check", os.path.join(ROOT, "check")))
check = importlib.util.module_from_spec(spec)
spec.loader.exec_module(check)

pairs = []
for pid, p in sorted(check.props.PROPS.items()):
    for leg in p["legs"]:
        key = (leg["build"], leg["pkg"], tuple(leg.get("features") or ()))
        if key not in pairs:
            pairs.append(key)
        for extra in leg.get("extra_pkgs", []):
            key = (leg["build"], extra, ())
            if key not in pairs:
                pairs.append(key)
bad = 0
for build, pkg, feats in pairs:
    ok, _, err = check.do_build(build, pkg, list(feats) or None)
    if not ok:
        bad += 1
        print(f"setup: build {build}/{pkg} failed", file=sys.stderr)
sys.exit(1 if bad else 0)
