#!/usr/bin/env python3
"""Apply a seeded breakage to /repo, run the property's check, undo the change.

    tools/try_seed.py <ID> <n> [quick|thorough] [extra property ids...]

Reads /verif/seeded/<ID>/<n>/patch.diff. /repo must be clean. Prints the
VIOLATION / KNOWN-FINDING lines and a one-line verdict (CAUGHT / MISSED), and
appends the outcome to /verif/seeded/<ID>/<n>/result.json.
"""
import json
import os
import subprocess
import sys
import time

ROOT = os.path.dirname(os.path.dirname(os.path.abspath(__file__)))


def sh(*a, **kw):
    return subprocess.run(a, capture_output=True, text=True, **kw)


def main():
    pid, n = sys.argv[1], sys.argv[2]
    tier = sys.argv[3] if len(sys.argv) > 3 and sys.argv[3] in ("quick", "thorough") else "quick"
    others = [a for a in sys.argv[3:] if a.startswith("C")]
    d = os.path.join(ROOT, "seeded", pid, n)
    patch = os.path.join(d, "patch.diff")
    if sh("git", "-C", "/repo", "status", "--porcelain", "--untracked-files=no").stdout.strip():
        sys.exit("/repo is not clean")
    r = sh("git", "-C", "/repo", "apply", patch)
    if r.returncode != 0:
        sys.exit("patch does not apply: " + r.stderr)
    out = {}
    try:
        for prop in [pid] + others:
            t0 = time.time()
            r = sh(os.path.join(ROOT, "check"), prop, tier, cwd=ROOT)
            lines = [l for l in r.stdout.splitlines() if l.startswith("VIOLATION")]
            sigs = [l.strip() for l in r.stderr.splitlines() if l.startswith("  " + prop + "/") or l.startswith("  C")]
            out[prop] = {"exit": r.returncode, "violations": lines, "signatures": sigs[:20], "wall_s": round(time.time() - t0, 1),
                         "summary": [l for l in r.stderr.splitlines() if l.startswith("[" + prop + "]")]}
            print(f"{prop}: exit={r.returncode} {'CAUGHT' if r.returncode == 1 and lines else 'MISSED'} in {out[prop]['wall_s']}s")
            for s in sigs[:10]:
                print("   ", s[:300])
    finally:
        sh("git", "-C", "/repo", "checkout", "--", ".")
        # the check wrote evidence/replays for the broken tree: the caller re-runs the check on the clean tree
    with open(os.path.join(d, "result.json"), "w") as f:
        json.dump({"tier": tier, "results": out, "repo_head": sh("git", "-C", "/repo", "rev-parse", "--short", "HEAD").stdout.strip()}, f, indent=1)


if __name__ == "__main__":
    main()
